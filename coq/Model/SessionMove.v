(** A what-if that moves a shared pod to another GPU group of its own node
    (C02; seeded/C02-4).  The statement model is C13's (Model/Session.v): when an
    evicted shared pod is nominated onto another GPU group of the node it sits
    on, [Statement.Pipeline] records in the undo entry the GPU groups of the
    NODE's copy of the pod ([pipeline_body]: [pg := t_groups c] when [move]) -
    the pod's own field has already been overwritten with the new group by
    gpu_sharing.AllocateFractionalGPUTaskToNode.

    [pipeline_undo_new_group] is NOT the code: it is [Session.pipeline] whose
    undo entry keeps the groups the pod object carries (the new group), i.e.
    Statement.Pipeline without `previousGpuGroup = taskOnNode.GPUGroups`. *)
From Coq Require Import List ZArith PArith Bool.
From KaiV Require Import Model.Res Model.Status Model.AMap Model.Node Model.Session.
Import ListNotations.
Open Scope Z_scope.

Definition retag (s : sess) (o : op) : op :=
  match o with
  | OPipe p prev pn pg pv next true =>
      match get_pod s p with
      | Some q => OPipe p prev pn (p_groups q) pv next true
      | None => o
      end
  | _ => o
  end.
(** the last entry of the operation log, when it is a same-node move, records the pod's current groups *)
Definition retag_last (s : sess) : sess :=
  match rev (s_log s) with
  | o :: r => set_log s (rev r ++ [retag s o])
  | [] => s
  end.
Definition pipeline_undo_new_group (s : sess) (pid nid : positive) (gs : option (list positive)) (upd : bool)
  : sess * bool :=
  let '(s1, ok) := pipeline s pid nid gs upd in
  (if ok && Nat.ltb (length (s_log s)) (length (s_log s1)) then retag_last s1 else s1, ok).

(** The what-if of a solver scenario that fails: evict [p], re-place it on node [nid] at the GPU groups [gs]
    (nominate only), discard the statement. *)
Definition whatif_prog (p nid : positive) (gs : list positive) : list cmd :=
  [Evict p; Pipeline p nid (Some gs) false; Discard].
Definition nofaults (_ : nat) : bool := false.
Definition whatif (s : sess) (p nid : positive) (gs : list positive) : sess :=
  Session.run nofaults s (whatif_prog p nid gs).
Definition whatif_undo_new_group (s : sess) (p nid : positive) (gs : list positive) : sess :=
  discard (fst (pipeline_undo_new_group (fst (evict s p)) p nid (Some gs) false)).

(** The world of seeded/C02-4 as the harness builds it with the real constructors (printed by the C13 harness's
    session printer): node 1 with 2 GPUs of 100 MiB; pod 3 (frac_t, 0.5, not preemptible) runs on device 14,
    pod 5 (frac_s, 0.5) runs on device 13; pod 7 (whole_w, one whole GPU) is pending. *)
Definition rw_init : sess :=
  (mkSess [(1%positive, (mkNode (mkRes 16000%Z 68719476736%Z 2%Z 110%Z 0%Z 0%Z) (mkRes 15800%Z 68717379584%Z 0%Z 108%Z 0%Z 0%Z) (mkRes 200%Z 2097152%Z 0%Z 2%Z 0%Z 0%Z) (mkRes 0%Z 0%Z 0%Z 0%Z 0%Z 0%Z) 2%Z 100%Z [(3%positive, (mkTask 3%positive 2%positive Running KFraction (mkRes 100%Z 1048576%Z 0%Z 1%Z 0%Z 0%Z) 1%Z 50%Z [14%positive] false false)); (5%positive, (mkTask 5%positive 4%positive Running KFraction (mkRes 100%Z 1048576%Z 0%Z 1%Z 0%Z 0%Z) 1%Z 50%Z [13%positive] false false))] [(13%positive, 50%Z); (14%positive, 50%Z)] [(13%positive, 50%Z); (14%positive, 50%Z)] [] []))] [(3%positive, (mkPod (mkTask 3%positive 2%positive Running KFraction (mkRes 100%Z 1048576%Z 0%Z 1%Z 0%Z 0%Z) 1%Z 50%Z [14%positive] false false) (Some 1%positive) false 8%positive (mkRes 100%Z 1048576%Z 500%Z 0%Z 0%Z 0%Z) (mkRes 100%Z 1048576%Z 500%Z 0%Z 0%Z 0%Z) [(1%positive, 50%Z)] [(1%positive, (mkRes 100%Z 1048576%Z 500%Z 0%Z 0%Z 0%Z))])); (5%positive, (mkPod (mkTask 5%positive 4%positive Running KFraction (mkRes 100%Z 1048576%Z 0%Z 1%Z 0%Z 0%Z) 1%Z 50%Z [13%positive] false false) (Some 1%positive) false 9%positive (mkRes 100%Z 1048576%Z 500%Z 0%Z 0%Z 0%Z) (mkRes 100%Z 1048576%Z 500%Z 0%Z 0%Z 0%Z) [(1%positive, 50%Z)] [(1%positive, (mkRes 100%Z 1048576%Z 500%Z 0%Z 0%Z 0%Z))])); (7%positive, (mkPod (mkTask 7%positive 6%positive Pending KRegular (mkRes 100%Z 1048576%Z 1%Z 1%Z 0%Z 0%Z) 1%Z 0%Z [] false false) None false 10%positive (mkRes 100%Z 1048576%Z 1000%Z 0%Z 0%Z 0%Z) (mkRes 100%Z 1048576%Z 1000%Z 0%Z 0%Z 0%Z) [(1%positive, 0%Z)] [(1%positive, (mkRes 100%Z 1048576%Z 1000%Z 0%Z 0%Z 0%Z))]))] [(2%positive, (mkJob 12%positive true (mkRes 100%Z 1048576%Z 500%Z 0%Z 0%Z 0%Z) 1%Z [(7%positive, 1%Z)] [(8%positive, (mkPsc 1%Z 1%Z 1%Z [(1%positive, 0%Z); (2%positive, 0%Z)]))])); (4%positive, (mkJob 12%positive false (mkRes 100%Z 1048576%Z 500%Z 0%Z 0%Z 0%Z) 1%Z [(7%positive, 1%Z)] [(9%positive, (mkPsc 1%Z 1%Z 1%Z [(1%positive, 0%Z); (2%positive, 0%Z)]))])); (6%positive, (mkJob 12%positive false (mkRes 0%Z 0%Z 0%Z 0%Z 0%Z 0%Z) 0%Z [(1%positive, 1%Z)] [(10%positive, (mkPsc 0%Z 0%Z 1%Z [(1%positive, 1%Z); (2%positive, 0%Z)]))]))] [(11%positive, (mkQ None (mkRes 200%Z 2097152%Z 1000%Z 0%Z 0%Z 0%Z) (mkRes 100%Z 1048576%Z 500%Z 0%Z 0%Z 0%Z))); (12%positive, (mkQ (Some 11%positive) (mkRes 200%Z 2097152%Z 1000%Z 0%Z 0%Z 0%Z) (mkRes 100%Z 1048576%Z 500%Z 0%Z 0%Z 0%Z)))] [] 0%nat false).
(** the node of a session with id 1 *)
Definition rw_node (s : sess) : node :=
  match alookup 1%positive (s_nodes s) with Some n => n | None => mkNode rzero rzero rzero rzero 0 0 [] [] [] [] [] end.
(** whole_w as the allocate action would bind it *)
Definition rw_whole : task :=
  mkTask 7%positive 6%positive Allocated KRegular (mkRes 100%Z 1048576%Z 1%Z 1%Z 0%Z 0%Z) 1%Z 0%Z [] false false.
