(** Ground truth for node accounting (C14/C01/C02): what the books of a node
    must say, recomputed from scratch from the tasks it holds (DESIGN.md
    Appendix A). [books_ok full n ts]: node [n]'s counters agree with the task
    list [ts]. The whole-GPU columns that involve shared devices with nominated
    (Pipelined) sharers are history dependent in the code; they are compared only
    when [full] is set and no Pipelined sharer is present. *)
From Coq Require Import List ZArith PArith Bool.
From KaiV Require Import Model.Res Model.Status Model.AMap Model.Node.
Import ListNotations.
Open Scope Z_scope.

Definition rsum (l : list res) : res := fold_right radd rzero l.

Definition is_st (s : status) (t : task) : bool := status_eqb (t_status t) s.

Definition spec_used (ts : list task) : res := rsum (map charge ts).
Definition spec_idle (alloc : res) (ts : list task) : res :=
  rsub alloc (rsum (map charge (filter (fun t => negb (is_st Pipelined t)) ts))).
Definition spec_rel (ts : list task) : res :=
  rsub (rsum (map charge (filter (is_st Releasing) ts)))
       (rsum (map charge (filter (is_st Pipelined) ts))).

Definition on_group (g : positive) (t : task) : bool :=
  is_shared t && existsb (Pos.eqb g) (t_groups t).
Definition zsum (l : list Z) : Z := fold_right Z.add 0 l.
(** a task asking for several devices may list one group several times only by error; count occurrences *)
Definition occurrences (g : positive) (t : task) : Z :=
  if is_shared t then Z.of_nat (length (filter (Pos.eqb g) (t_groups t))) else 0.
Definition group_mem (p : task -> bool) (g : positive) (ts : list task) : Z :=
  zsum (map (fun t => if p t then occurrences g t * t_gmem t else 0) ts).

Definition spec_gused (g : positive) ts := group_mem (fun _ => true) g ts.
Definition spec_galloc (g : positive) ts := group_mem (fun t => negb (is_st Pipelined t)) g ts.
Definition spec_grel (g : positive) ts :=
  group_mem (is_st Releasing) g ts - group_mem (is_st Pipelined) g ts.

Definition all_groups (ts : list task) : list positive := flat_map (fun t => if is_shared t then t_groups t else []) ts.

(** compare every column except whole GPUs *)
Definition req_nogpu (a b : res) : bool := req (with_gpu a 0) (with_gpu b 0).

Definition has_pipelined_sharer (ts : list task) : bool :=
  existsb (fun t => is_shared t && is_st Pipelined t) ts.

Definition has_pipelined (ts : list task) : bool := existsb (is_st Pipelined) ts.

Definition nodup_pos (l : list positive) : list positive :=
  fold_right (fun g acc => if existsb (Pos.eqb g) acc then acc else g :: acc) [] l.

(** devices occupied by shared work that is not merely nominated *)
Definition occupied_groups (ts : list task) : Z :=
  Z.of_nat (length (filter (fun g => 0 <? spec_galloc g ts) (nodup_pos (all_groups ts)))).
(** devices all of whose sharers are terminating *)
Definition releasing_groups (ts : list task) : Z :=
  Z.of_nat (length (filter (fun g => (0 <? spec_gused g ts) && (spec_gused g ts =? spec_grel g ts))
                           (nodup_pos (all_groups ts)))).

Definition books_ok (full : bool) (n : node) (ts : list task) : bool :=
  req (n_used n) (spec_used ts)
  && req_nogpu (n_idle n) (spec_idle (n_alloc n) ts)
  && req_nogpu (n_rel n) (spec_rel ts)
  && forallb (fun g => (zget g (g_used n) =? spec_gused g ts)
                       && (zget g (g_alloc n) =? spec_galloc g ts)
                       && (zget g (g_rel n) =? spec_grel g ts))
             (nodup_pos (all_groups ts ++ akeys (g_used n) ++ akeys (g_alloc n) ++ akeys (g_rel n)))
  && (if full then
        (gpu (n_idle n) =? gpu (spec_idle (n_alloc n) ts) - occupied_groups ts)
        && (gpu (n_rel n) =? gpu (spec_rel ts) + releasing_groups ts)
      else true).

(** The device-count guards of the shared-GPU bookkeeping
    ([N < floor(idle) + usedGPUs] and its converse) count nominated (Pipelined)
    pods as users although their devices are not taken from idle.  A shared
    pod's add/remove executed while such a pod is on the node may therefore
    shift idle / releasing whole-GPU counts ([exposed]). *)
Definition holds_gpu (t : task) : bool := (0 <? gpu (charge t)) || (is_shared t && negb (Nat.eqb (length (t_groups t)) 0)).
Definition exposed (ts : list task) (moved : task) : bool :=
  is_shared moved && existsb (fun t => is_st Pipelined t && holds_gpu t) ts.
