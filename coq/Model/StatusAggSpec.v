(** Declarative side of C20: what the reported values must be, written without
    reference to the controllers' control flow.
    - a pod group's true status: sums over its pods by phase and by the group's
      CURRENT preemptibility;
    - a queue forest is well formed when names are unique and every parent
      chain ends (decided with fuel = number of queues);
    - a queue's true aggregate: the sum of the stored status of every pod group
      whose queue lies in the queue's subtree (subtree membership = the parent
      chain of the pod group's queue passes through the queue). *)
From Coq Require Import List ZArith PArith Bool Arith.
From KaiV Require Import Model.StatusAgg.
Import ListNotations.
Open Scope Z_scope.

Definition vsum (l : list vec) : vec := fold_right vadd [] l.
Definition rsum (l : list rstatus) : rstatus := fold_right radd rzero l.

(** * Pod groups *)

Definition counts_as_requested (p : pod) : bool :=
  match p_phase p with Pending | Running => true | _ => false end.

(** Running, or Pending with the first PodScheduled condition True. *)
Definition first_sched_cond (cs : list (bool * bool)) : option bool :=
  option_map snd (find fst cs).

Definition counts_as_allocated (p : pod) : bool :=
  match p_phase p with
  | Running => true
  | Pending => match first_sched_cond (p_conds p) with Some true => true | _ => false end
  | _ => false
  end.

Definition true_requested (pods : list pod) : vec :=
  vsum (map p_req (filter counts_as_requested pods)).

Definition true_allocated (pods : list pod) : vec :=
  vsum (map p_alloc (filter counts_as_allocated pods)).

Definition true_pg_status (preemptible : bool) (pods : list pod) : rstatus :=
  {| s_alloc := true_allocated pods;
     s_anp := if preemptible then [] else true_allocated pods;
     s_req := true_requested pods |}.

Definition current_preemptible (classes : list prioclass) (g : podgroup) : bool :=
  calc_preemptible (g_spec g) (get_priority classes (g_prio_class g)).

(** * Queue forests *)

Definition find_queue (n : positive) (qs : list queue) : option queue :=
  find (fun q => Pos.eqb (q_name q) n) qs.

Definition names (qs : list queue) : list positive := map q_name qs.

Definition has_name (n : positive) (qs : list queue) : bool :=
  existsb (fun q => Pos.eqb (q_name q) n) qs.

(** one step up the hierarchy: the parent, when it names an existing queue *)
Definition up (qs : list queue) (m : positive) : option positive :=
  match find_queue m qs with
  | None => None
  | Some q => match q_parent q with
              | Some p => if has_name p qs then Some p else None
              | None => None
              end
  end.

(** number of steps from [n] to its root; [None] = [n] is not a queue, or out of fuel *)
Fixpoint depth_fuel (fuel : nat) (qs : list queue) (n : positive) : option nat :=
  match fuel with
  | O => None
  | S f => match find_queue n qs with
           | None => None
           | Some _ => match up qs n with
                       | None => Some O
                       | Some p => option_map S (depth_fuel f qs p)
                       end
           end
  end.

Definition depth (qs : list queue) (n : positive) : option nat := depth_fuel (length qs) qs n.

Fixpoint nodup_pos (l : list positive) : bool :=
  match l with
  | [] => true
  | x :: r => negb (existsb (Pos.eqb x) r) && nodup_pos r
  end.

Definition is_some {A} (o : option A) : bool := match o with Some _ => true | None => false end.

(** decidable well-formedness: unique names, every parent chain ends (acyclic forest) *)
Definition wf_forest (qs : list queue) : bool :=
  nodup_pos (names qs) && forallb (fun q => is_some (depth qs (q_name q))) qs.

Definition max_depth (qs : list queue) : nat :=
  fold_right (fun q acc => match depth qs (q_name q) with Some d => Nat.max d acc | None => acc end) O qs.

(** number of levels of the forest (0 for the empty forest) *)
Definition height (qs : list queue) : nat :=
  match qs with [] => O | _ => S (max_depth qs) end.

(** does the parent chain starting at [m] pass through [a]? *)
Fixpoint chain_hits (fuel : nat) (qs : list queue) (a m : positive) : bool :=
  Pos.eqb m a ||
  match fuel with
  | O => false
  | S f => match up qs m with
           | None => false
           | Some p => chain_hits f qs a p
           end
  end.

Definition in_subtree (qs : list queue) (a m : positive) : bool := chain_hits (length qs) qs a m.

Definition pg_in_subtree (qs : list queue) (a : positive) (g : qpodgroup) : bool :=
  match pg_queue g with Some m => in_subtree qs a m | None => false end.

(** the true aggregate of queue [a] *)
Definition true_agg (c : cluster) (a : positive) : rstatus :=
  rsum (map pg_status (filter (pg_in_subtree (c_queues c) a) (c_pgs c))).

(** what the queue controller is locally supposed to establish *)
Definition own_pgs_sum (c : cluster) (n : positive) : rstatus :=
  rsum (map pg_status (filter (pg_in_queue n) (c_pgs c))).

Definition children_sum (c : cluster) (n : positive) : rstatus :=
  rsum (map q_status (filter (is_child_of n) (c_queues c))).

(** queue [q] equals Σ own pod groups + Σ children (current status), and lists its children *)
Definition locally_consistent (c : cluster) (q : queue) : Prop :=
  q_status q = radd (own_pgs_sum c (q_name q)) (children_sum c (q_name q))
  /\ q_children q = child_names (q_name q) (c_queues c).

(** * Fair reconcile schedules *)

(** [settles qs evs n]: the event list reconciles [n] at a point where every
    child of [n] has already settled (recursively); later events are arbitrary. *)
Inductive settles (qs : list queue) : list positive -> positive -> Prop :=
| settles_intro : forall pre post n,
    (forall q, In q qs -> is_child_of n q = true -> settles qs pre (q_name q)) ->
    settles qs (pre ++ n :: post) n.

(** a full pass reconciles every queue at least once, in any order *)
Definition full_pass (qs : list queue) (pass : list positive) : Prop :=
  forall q, In q qs -> In (q_name q) pass.

(** * Worlds: the truth recomputed from pods and CURRENT preemptibility *)

(** what pod group [g] must report *)
Definition wg_truth (classes : list prioclass) (g : wgroup) : rstatus :=
  true_pg_status (current_preemptible classes (wg_pg g)) (wg_pods g).

Definition wg_in_subtree (qs : list queue) (a : positive) (g : wgroup) : bool :=
  match wg_queue g with Some m => in_subtree qs a m | None => false end.

(** what queue [a] must report: the sums, over every pod group whose queue lies
    in [a]'s subtree, of the group's pods by phase and by the group's current
    preemptibility (no stored status is consulted) *)
Definition w_truth (w : world) (a : positive) : rstatus :=
  rsum (map (wg_truth (w_classes w)) (filter (wg_in_subtree (w_queues w) a) (w_groups w))).

(** a pass that reconciles every pod group and every queue at least once *)
Definition w_full_pass (w : world) (pass : list wevent) : Prop :=
  (forall i, (i < length (w_groups w))%nat -> In (WRecGroup i) pass)
  /\ (forall q, In q (w_queues w) -> In (WRecQueue (q_name q)) pass).

(** all four reported aggregates of a queue equal the truth *)
Definition queue_reports_truth (w : world) (q : queue) : Prop :=
  s_alloc (q_status q) = s_alloc (w_truth w (q_name q))
  /\ s_anp (q_status q) = s_anp (w_truth w (q_name q))
  /\ s_req (q_status q) = s_req (w_truth w (q_name q))
  /\ q_children q = child_names (q_name q) (w_queues w).
