(** C18, reconcile orders of ONE workload whose pods carry different queue / project labels (the roles of a
    PyTorchJob, a hand-labelled replica) - the scenario of seeded/C18-5.

    CalcPodGroupQueue reads the TOP OWNER's queue label first; the pod's own label only fills what the owner
    lacks (the same for the project label in calculateQueueName). Handler.ignoreFields keeps the stored
    Spec.Queue, so the queue of a PodGroup is the one computed by the reconcile that CREATED it. With the owner's
    label first every pod of the workload computes the same queue, whichever is reconciled first.

    [reconcile_qr qr] is [reconcile] with the queue rule [qr] in the place of CalcPodGroupQueue;
    [reconcile_qr calc_queue] IS [reconcile] (Proofs/GrouperOrder.v, queue_rule_is_the_code).
    [calc_queue_pod_first] is NOT the code: it is the seeded change C18-5 (workloadLabels: the owner's labels
    overwritten by the pod's) and appears only in the theorems named C18_pod_label_first. *)
From Coq Require Import List String ZArith Bool.
From KaiV Require Import Model.Grouper.
Import ListNotations.
Open Scope string_scope.

(** NOT the code (seeded/C18-5): the pod's own queue / project label beats the top owner's *)
Definition calc_queue_pod_first (cfg : config) (top : obj) (p : pod) : string :=
  let pick k := match lookup k (p_labels p) with Some v => Some v | None => lookup k (o_labels top) end in
  match pick (c_queue_key cfg) with
  | Some q => q
  | None =>
    let project := match pick project_key with Some v => v | None => "" end in
    if String.eqb project "" then "default-queue"
    else match lookup (c_nodepool_key cfg) (p_labels p) with
         | Some np => project ++ "-" ++ np
         | None => project
         end
  end.

Definition with_queue (m : metadata) (q : string) : metadata :=
  {| m_name := m_name m; m_labels := m_labels m; m_annots := m_annots m; m_prio := m_prio m;
     m_preempt := m_preempt m; m_queue := q; m_min := m_min m; m_owner := m_owner m;
     m_subgroups := m_subgroups m; m_topo := m_topo m |}.

(** the metadata a reconcile applies, the queue computed by [qr] from the grouping object and the pod *)
Definition full_md_qr (qr : config -> obj -> pod -> string) (cfg : config) (cl : list obj) (p : pod)
           (a : option string) : option metadata :=
  match full_md cfg cl p a, grouping cfg cl p a with
  | Some m, GOk _ g _ _ => Some (with_queue m (qr cfg g p))
  | Some m, _ => Some m
  | None, _ => None
  end.

Definition reconcile_qr (qr : config -> obj -> pod -> string) (cfg : config) (cl : list obj) (p : pod) (s : state)
  : state * Z :=
  let a := get_asg (p_name p) s in
  match full_md_qr qr cfg cl p a with
  | None => (s, 0%Z)
  | Some m =>
    let r := apply_to_cluster cfg m s in
    let w := if needs_patch m p a then 1%Z else 0%Z in
    ({| st_pgs := st_pgs (fst r); st_asg := aset (p_name p) (m_name m) (st_asg (fst r)) |}, (snd r + w)%Z)
  end.

(** the pods [order] reconciled one after the other (any order, any repetitions) *)
Definition run_qr (qr : config -> obj -> pod -> string) (cfg : config) (cl : list obj) (order : list pod) (s : state)
  : state :=
  fold_left (fun s p => fst (reconcile_qr qr cfg cl p s)) order s.

(** every reconcile of [p] derives the group from the object [top] (the top owner, after skip-top-owner
    unwrapping), whatever pod-group annotation the pod carries at that moment *)
Definition grouped_under (cfg : config) (cl : list obj) (top : obj) (p : pod) : Prop :=
  forall a, match grouping cfg cl p a with GOk _ g _ _ => g = top | _ => True end.

(** the statement for a queue rule: a workload whose top owner carries the queue label [q]; two reconcile
    orders of pods of that workload (any pods of it, any repetitions), each from the empty store: every PodGroup
    either order builds has queue [q] - so a PodGroup both build has the same queue in both *)
Definition owner_queue_statement (qr : config -> obj -> pod -> string) : Prop :=
  forall cfg cl top q order1 order2,
    lookup (c_queue_key cfg) (o_labels top) = Some q ->
    (forall p, In p order1 \/ In p order2 -> grouped_under cfg cl top p) ->
    (forall n g, get_pg n (run_qr qr cfg cl order1 empty_state) = Some g -> sp_queue g = q)
    /\ (forall n g1 g2, get_pg n (run_qr qr cfg cl order1 empty_state) = Some g1 ->
                        get_pg n (run_qr qr cfg cl order2 empty_state) = Some g2 -> sp_queue g1 = sp_queue g2).

(** * The world of seeded/C18-5/README.md

    Workload train (uid 1111), label kai.scheduler/queue=team-a; pod train-master-0 without queue label, pods
    train-worker-0 / train-worker-1 labelled kai.scheduler/queue=team-b. The README's owner is a PyTorchJob; its
    plugin takes queue, labels and annotations from the default grouper and adds sub-groups, which the model
    does not carry - here the owner is a kind the default grouper handles itself. *)
Definition rd_cfg : config :=
  {| c_queue_key := "kai.scheduler/queue"; c_nodepool_key := "kai.scheduler/node-pool";
     c_prio_classes := ["train"]; c_defaults := CmNone; c_forbidden := [] |}.
Definition rd_gvk : gvk := mk_gvk "example.com" "v1" "TrainingRun".
Definition rd_owner (labels : smap) : obj :=
  {| o_gvk := rd_gvk; o_name := "train"; o_uid := "1111"; o_labels := labels; o_annots := []; o_owners := [];
     o_tom := "tom-train" |}.
Definition rd_pod (name role : string) (labels : smap) : pod :=
  {| p_name := name; p_uid := "uid-" ++ name;
     p_labels := ("training.kubeflow.org/replica-type", role) :: labels; p_annots := []; p_prio := "";
     p_owners := [{| r_gvk := rd_gvk; r_name := "train"; r_uid := "1111" |}]; p_tom := "tom-pod" |}.
Definition rd_top : obj := rd_owner [("kai.scheduler/queue", "team-a")].
Definition rd_master : pod := rd_pod "train-master-0" "master" [].
Definition rd_worker0 : pod := rd_pod "train-worker-0" "worker" [("kai.scheduler/queue", "team-b")].
Definition rd_worker1 : pod := rd_pod "train-worker-1" "worker" [("kai.scheduler/queue", "team-b")].
Definition rd_pg := "pg-train-1111".
Definition rd_orders : list (list pod) :=
  [[rd_master; rd_worker0; rd_worker1]; [rd_master; rd_worker1; rd_worker0];
   [rd_worker0; rd_master; rd_worker1]; [rd_worker0; rd_worker1; rd_master];
   [rd_worker1; rd_master; rd_worker0]; [rd_worker1; rd_worker0; rd_master]].
(** every pod reconciled twice, as the README's test does *)
Definition rd_queue (qr : config -> obj -> pod -> string) (top : obj) (order : list pod) : option string :=
  match get_pg rd_pg (run_qr qr rd_cfg [top] (order ++ order) empty_state) with
  | Some g => Some (sp_queue g)
  | None => None
  end.

(** the owner WITHOUT queue label, the pods disagreeing among themselves: master team-a, workers team-b *)
Definition rd_top_silent : obj := rd_owner [].
Definition rd_master_a : pod := rd_pod "train-master-0" "master" [("kai.scheduler/queue", "team-a")].
