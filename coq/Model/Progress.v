(** Model of the placement loop of the allocate action and of the victim
    solver restricted to the interchangeable class (property C05).

    Go code modelled (as it is):
    - pkg/scheduler/actions/allocate/allocate.go
        (allocateAction).Execute: pop every job of JobsOrderByQueues, one
        statement per job, commit or discard, re-push while the job still has
        tasks to allocate; attemptToAllocateJob (ShouldPipelineJob =>
        Statement.ConvertAllAllocatedToPipelined)
    - pkg/scheduler/actions/common/allocate.go
        AllocateJob (job-level capacity gate IsJobOverQueueCapacityFn, then the
        tasks in order), allocateTasksOnNodeSet, allocateTask (ordered nodes,
        first node on which FittingNode holds and on which the statement
        operation succeeds), allocateTaskToNode (bind when IsTaskAllocatable,
        otherwise pipeline), handleFailedTaskAllocation (all or nothing: the
        caller discards the statement)
    - pkg/scheduler/framework/session.go
        FittingNode = IsTaskAllocatableOnReleasingOrIdle + PredicateFn (which
        contains the node-level capacity gate IsTaskAllocationOnNodeOverCapacityFn)
    - pkg/scheduler/framework/statement.go
        Allocate / Pipeline (NodeInfo.AddTask), ConvertAllAllocatedToPipelined
        (unallocate = NodeInfo.RemoveTask, then Pipeline), Discard (the model
        keeps the state from before the attempt)
    - pkg/scheduler/actions/reclaim/reclaim.go, actions/preempt/preempt.go,
      actions/common/solvers/{job_solver,pod_scenario_builder,by_pod_solver}.go,
      actions/common/action.go (TryToVirtuallyAllocatePreemptorAndGetVictims)
        for single-pod pending jobs, single-pod victim jobs, one common pod
        size and nodes described by their free units (second half of the file).

    Oracles (section variables; theorems quantify over all of them):
      [pred]   upstream predicates (node selector, taints, ...): static
      [tgate]  node-level queue capacity gate inside the predicates plugin
      [gate]   job-level queue capacity gate (true = schedulable)
      [nord]   Session.OrderedNodesByTask (any list of node ids)
      [gsel]   GPU group choice of gpu_sharing.AllocateFractionalGPUTaskToNode
      [shouldpipe] PodGroupInfo.ShouldPipelineJob on the placements of the attempt
      the pop order of JobsOrderByQueues: the list [order] of job ids.
    A job is the list of its allocation units (what GetTasksToAllocate returns
    on the first and on every later pop); building the units is Model/Gang.v.

    Left out: sub-group sets and topology node subsets (SubsetNodesFn: one
    node set = all nodes), PrePredicateFn, storage, DRA, fit-error messages,
    LastStartTimestamp, metrics.  The node's copy of a pod and the job's pod
    agree on everything but status and groups; the conversion to Pipelined
    re-adds the node's own copy with the new status. *)
From Coq Require Import List ZArith PArith Bool.
From KaiV Require Import Model.Res Model.Status Model.AMap Model.Node.
Import ListNotations.
Open Scope Z_scope.

(** * 1. The allocate loop *)

Definition set_status (t : task) (s : status) (gs : list positive) : task :=
  mkTask (t_id t) (t_job t) s (t_kind t) (t_req t) (t_ndev t) (t_gmem t) gs (t_resv t) (t_besteffort t).

(** one statement operation of an attempt: the task as it was stored on the node *)
Record placement := mkPl { pl_task : task; pl_node : positive; pl_piped : bool }.
Definition hist := list placement.      (* most recent first *)

(** the cluster: node name -> node; updated in place *)
Definition cluster := list (positive * node).
Fixpoint upd (nid : positive) (n' : node) (ns : cluster) : cluster :=
  match ns with
  | [] => []
  | (k, n) :: r => if Pos.eqb nid k then (k, n') :: r else (k, n) :: upd nid n' r
  end.

Record jobst := mkJS { js_id : positive; js_todo : list (list task); js_failed : bool }.
Record lstate := mkLS { ls_nodes : cluster; ls_hist : hist; ls_jobs : list jobst }.

Section Allocate.
  Variable pred : task -> positive -> bool.
  Variable tgate : hist -> positive -> task -> positive -> bool.
  Variable gate : hist -> positive -> list task -> bool.
  Variable nord : hist -> task -> list positive.
  Variable gsel : hist -> positive -> node -> task -> option (list positive * bool).
  Variable shouldpipe : positive -> hist -> bool.

  (** Session.FittingNode *)
  Definition fitting (h : hist) (jid : positive) (n : node) (t : task) (nid : positive) : bool :=
    is_task_allocatable_on_releasing_or_idle n t && pred t nid && tgate h jid t nid.

  (** allocateTaskToNode: Statement.Allocate / Statement.Pipeline on this node;
      [None] when the operation fails (the caller tries the next node) *)
  Definition allocate_to_node (h : hist) (n : node) (t : task) (nid : positive) : option (node * placement) :=
    if is_shared t then
      match gsel h nid n t with
      | Some (gs, piped) =>
          let t' := set_status t (if piped then Pipelined else Allocated) gs in
          match add_task n t' with
          | Ok n' => Some (n', mkPl t' nid piped)
          | Err => None
          end
      | None => None
      end
    else
      let piped := negb (is_task_allocatable n t) in
      let t' := set_status t (if piped then Pipelined else Allocated) (t_groups t) in
      match add_task n t' with
      | Ok n' => Some (n', mkPl t' nid piped)
      | Err => None
      end.

  (** allocateTask: the loop over the ordered nodes *)
  Fixpoint place_on (ns : cluster) (h : hist) (jid : positive) (t : task) (order : list positive)
    : option (cluster * placement) :=
    match order with
    | [] => None
    | nid :: r =>
        match alookup nid ns with
        | None => place_on ns h jid t r
        | Some n =>
            if fitting h jid n t nid then
              match allocate_to_node h n t nid with
              | Some (n', pl) => Some (upd nid n' ns, pl)
              | None => place_on ns h jid t r
              end
            else place_on ns h jid t r
        end
    end.

  (** allocateTasksOnNodeSet: [cp] = the operations of this attempt so far *)
  Fixpoint place_chunk (ns : cluster) (h : hist) (jid : positive) (ts : list task) (cp : hist)
    : option (cluster * hist) :=
    match ts with
    | [] => Some (ns, cp)
    | t :: r =>
        match place_on ns (cp ++ h) jid t (nord (cp ++ h) t) with
        | Some (ns', pl) => place_chunk ns' h jid r (pl :: cp)
        | None => None
        end
    end.

  (** one iteration of ConvertAllAllocatedToPipelined *)
  Definition convert_one (ns : cluster) (pl : placement) : option cluster :=
    if pl_piped pl then Some ns
    else match alookup (pl_node pl) ns with
         | None => None
         | Some n =>
             match alookup (t_id (pl_task pl)) (n_pods n) with
             | None => None
             | Some t0 =>
                 match remove_task n (t_id t0) with
                 | Err => None
                 | Ok n1 =>
                     match add_task n1 (set_status t0 Pipelined (t_groups t0)) with
                     | Ok n2 => Some (upd (pl_node pl) n2 ns)
                     | Err => None
                     end
                 end
             end
         end.
  Fixpoint convert_all (ns : cluster) (ops : list placement) : option cluster :=
    match ops with
    | [] => Some ns
    | pl :: r => match convert_one ns pl with
                 | Some ns' => convert_all ns' r
                 | None => None
                 end
    end.
  Definition as_piped (pl : placement) : placement :=
    mkPl (set_status (pl_task pl) Pipelined (t_groups (pl_task pl))) (pl_node pl) true.

  (** attemptToAllocateJob + Commit / Discard: [None] = nothing changed *)
  Definition attempt (ns : cluster) (h : hist) (jid : positive) (ts : list task) : option (cluster * hist) :=
    if gate h jid ts then
      match place_chunk ns h jid ts [] with
      | Some (ns1, cp) =>
          if shouldpipe jid cp then
            match convert_all ns1 (rev cp) with
            | Some ns2 => Some (ns2, map as_piped cp ++ h)
            | None => None
            end
          else Some (ns1, cp ++ h)
      | None => None
      end
    else None.

  Fixpoint find_job (jid : positive) (js : list jobst) : option jobst :=
    match js with
    | [] => None
    | j :: r => if Pos.eqb jid (js_id j) then Some j else find_job jid r
    end.
  Fixpoint set_job (j' : jobst) (js : list jobst) : list jobst :=
    match js with
    | [] => []
    | j :: r => if Pos.eqb (js_id j') (js_id j) then j' :: r else j :: set_job j' r
    end.

  (** one pop.  A job that failed is not pushed back; a job without tasks to
      allocate is not in the queue: such pops do nothing. *)
  Definition step (st : lstate) (jid : positive) : lstate :=
    match find_job jid (ls_jobs st) with
    | None => st
    | Some j =>
        if js_failed j then st
        else match js_todo j with
             | [] => st
             | c :: rest =>
                 match attempt (ls_nodes st) (ls_hist st) jid c with
                 | Some (ns', h') => mkLS ns' h' (set_job (mkJS jid rest false) (ls_jobs st))
                 | None => mkLS (ls_nodes st) (ls_hist st) (set_job (mkJS jid (c :: rest) true) (ls_jobs st))
                 end
             end
    end.

  Definition allocate_action (st : lstate) (order : list positive) : lstate := fold_left step order st.

  (** the queue of the real loop is empty at the end: no job is left that was
      neither refused nor completely placed *)
  Definition live (j : jobst) : bool :=
    negb (js_failed j) && match js_todo j with [] => false | _ => true end.
  Definition exhausted (st : lstate) : bool := forallb (fun j => negb (live j)) (ls_jobs st).

  (** * 2. What "fits" means: every task of the unit can be bound, one after
      the other, each on a node on which the code's own guard for binding
      holds (idle resources, idle + releasing resources, predicates) *)
  Fixpoint fits_seq (ns : cluster) (ts : list task) (asg : list positive) : bool :=
    match ts, asg with
    | [], [] => true
    | t :: tr, nid :: ar =>
        match alookup nid ns with
        | Some n =>
            is_task_allocatable n t && is_task_allocatable_on_releasing_or_idle n t && pred t nid
            && match add_task n (set_status t Allocated (t_groups t)) with
               | Ok n' => fits_seq (upd nid n' ns) tr ar
               | Err => false
               end
        | None => false
        end
    | _, _ => false
    end.
  Definition fits_all (ns : cluster) (ts : list task) : Prop := exists asg, fits_seq ns ts asg = true.

  (** all tasks of the unit ask for the same resources and meet the same predicates *)
  Definition same_as (t0 t : task) : Prop :=
    t_req t = t_req t0 /\ is_shared t = false /\ t_resv t = false /\ t_besteffort t = false
    /\ forall nid, pred t nid = pred t0 nid.
  Definition homogeneous (ts : list task) : Prop :=
    match ts with
    | [] => True
    | t0 :: _ => Forall (same_as t0) ts
    end.
End Allocate.

(** how many copies of [r] fit into [i], counted up to [k] *)
Fixpoint fit_count (k : nat) (i r : res) : nat :=
  match k with
  | O => O
  | S k' => if rle r i then S (fit_count k' (rsub i r) r) else O
  end.

(** * 3. The victim solver in the interchangeable class

    Every pod asks for the same amount; pending jobs and victim jobs have one
    pod.  A node is its number of free units: idle and releasing (releasing
    goes down by one for every pod nominated to the node).  Scenario k of the
    PodAccumulatedScenarioBuilder has the first k jobs of the victims queue
    as potential victims; byPodSolver evicts the potential victims that sit
    on the node of the latest one, then
    TryToVirtuallyAllocatePreemptorAndGetVictims pipelines, in the order of
    JobsOrderByQueues, the evicted victims popped before the preemptor, the
    preemptor, and the remaining evicted victims; the scenario is solved when
    the preemptor got a node and the validator accepts the scenario. *)

Record snode := mkSN { sn_id : positive; sn_idle : Z; sn_rel : Z }.
Record rjob := mkRJ { rj_id : positive; rj_queue : positive; rj_prio : Z; rj_preempt : bool; rj_node : positive }.
Record pjob := mkPJ { pj_id : positive; pj_queue : positive; pj_prio : Z; pj_preempt : bool; pj_sig : positive }.

(** what a committed statement contains *)
Record commit := mkCommit { cm_job : positive; cm_evicted : list positive; cm_node : positive }.

Record vstate := mkVS { vs_nodes : list snode; vs_running : list rjob; vs_log : list commit }.

(** first node (in the given order) with a free unit, idle or releasing; the
    nomination takes it *)
Fixpoint take_unit (ns : list snode) : option (positive * list snode) :=
  match ns with
  | [] => None
  | n :: r =>
      if 1 <=? sn_idle n + sn_rel n then Some (sn_id n, mkSN (sn_id n) (sn_idle n) (sn_rel n - 1) :: r)
      else match take_unit r with
           | Some (k, r') => Some (k, n :: r')
           | None => None
           end
  end.
Fixpoint take_units (k : nat) (ns : list snode) : list snode :=
  match k with
  | O => ns
  | S k' => match take_unit ns with
            | Some (_, ns') => take_units k' ns'
            | None => ns
            end
  end.
Definition release_on (nid : positive) (cnt : Z) (ns : list snode) : list snode :=
  map (fun n => if Pos.eqb (sn_id n) nid then mkSN (sn_id n) (sn_idle n) (sn_rel n + cnt) else n) ns.

Section Victims.
  (** ReclaimVictimFilter / PreemptVictimFilter (minruntime): true = may be a victim *)
  Variable vfilter : pjob -> rjob -> bool.
  (** accumulated scenario filters (idle_gpus, node_affinities): true = not pruned *)
  Variable sfilter : vstate -> pjob -> list rjob -> bool.
  (** scenario validator (reclaim: proportion's Reclaimable; preempt: minruntime) on the potential victims *)
  Variable valid : vstate -> pjob -> list rjob -> bool.
  (** how many of the evicted victims are popped before the preemptor in the simulation *)
  Variable ahead : vstate -> pjob -> list rjob -> nat.

  Definition on_node (nid : positive) (v : rjob) : bool := Pos.eqb (rj_node v) nid.

  (** byPodSolver.solve on the scenario whose potential victims are [pot], latest one [v] *)
  Definition try_scenario (st : vstate) (p : pjob) (pot : list rjob) (v : rjob)
    : option (list rjob * positive * list snode) :=
    if sfilter st p pot then
      let ev := filter (on_node (rj_node v)) pot in
      let ns1 := release_on (rj_node v) (Z.of_nat (List.length ev)) (vs_nodes st) in
      let ns2 := take_units (ahead st p ev) ns1 in
      match take_unit ns2 with
      | Some (nid, ns3) =>
          if valid st p pot then
            Some (ev, nid, take_units (List.length ev - ahead st p ev) ns3)
          else None
      | None => None
      end
    else None.

  (** GetValidScenario / GetNextScenario: scenario 0 (no victim) is never simulated *)
  Fixpoint scenarios (st : vstate) (p : pjob) (seen rest : list rjob)
    : option (list rjob * positive * list snode) :=
    match rest with
    | [] => None
    | v :: r =>
        let pot := seen ++ [v] in
        match try_scenario st p pot v with
        | Some res => Some res
        | None => scenarios st p pot r
        end
    end.

  Definition in_ids (x : positive) (l : list positive) : bool := existsb (Pos.eqb x) l.

  (** Solve + Commit for one pending job, given its victims queue *)
  Definition solve_and_commit (st : vstate) (p : pjob) (victims : list rjob) : option vstate :=
    match scenarios st p [] victims with
    | Some (ev, nid, ns') =>
        let evids := map rj_id ev in
        Some (mkVS ns' (filter (fun v => negb (in_ids (rj_id v) evids)) (vs_running st))
                   (mkCommit (pj_id p) evids nid :: vs_log st))
    | None => None
    end.

  (** the victims queue of reclaim: preemptible running jobs of other queues *)
  Definition reclaim_victims (st : vstate) (p : pjob) : list rjob :=
    filter (fun v => negb (Pos.eqb (rj_queue v) (pj_queue p)) && rj_preempt v && vfilter p v) (vs_running st).
  (** the victims queue of preempt: preemptible, strictly lower priority, same queue *)
  Definition preempt_victims (st : vstate) (p : pjob) : list rjob :=
    filter (fun v => rj_preempt v && (rj_prio v <? pj_prio p) && Pos.eqb (rj_queue v) (pj_queue p) && vfilter p v)
           (vs_running st).
End Victims.
