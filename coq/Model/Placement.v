(** Hard placement constraints (property C04).

    Modelled Go code (as it is):
    - pkg/scheduler/scheduler_util/scheduler_utils.go  CheckNodeConditionPredicate
      (unschedulable flag, Ready must be True, the four pressure / unavailable
      conditions must be False; an absent condition passes)                     -> [node_conds_ok]
    - pkg/scheduler/conf/scheduler_conf.go GetLabelSelector + the node lister of
      cache/cluster_info (node-pool label selector: key "" = every node, value ""
      = label must be absent, else label must equal the value)                  -> [in_pool]
    - pkg/scheduler/plugins/predicates/predicates.go
      evaluateTaskOnPrePredicate (the per-pod skip list: a predicate whose
      PreFilter answered Skip is recorded; the entry is dropped again when a
      later PreFilter of the same pod no longer answers Skip)                   -> [pre_predicate]
      evaluateTaskOnPredicates (node conditions, then every upstream filter that
      is not in the pod's skip list)                                            -> [fitting_node]
    - the upstream kube-scheduler filters wrapped by
      pkg/scheduler/k8s_internal/predicates/predicates.go, as ORACLES whose
      contract is written down here and validated by differential execution, not
      proved: NodeAffinity (node selector + required node affinity, operators
      In/NotIn/Exists/DoesNotExist/Gt/Lt, matchFields on metadata.name with In /
      NotIn and exactly one value - anything else is a parse error and the term
      never matches),
      TaintToleration (NoSchedule / NoExecute taints), InterPodAffinity
      (PreFilter's Skip answer, required affinity incl. the "first pod of a
      self-affine series" escape, required anti-affinity, required anti-affinity
      of the pods already on the nodes)                                         -> [node_level_ok], [interpod_ok], [prefilter_skip]
    - the allocate loop of pkg/scheduler/actions/common/allocate.go
      (allocateTask: PrePredicateFn, then the first node of an arbitrary order
      that passes FittingNode and an arbitrary capacity oracle; statements that
      are kept or rolled back)                                                  -> [try_task], [try_tasks], [run_jobs]

    Left out: host ports (NodePorts), volume binding, DRA, config-map and
    max-node-resources predicates, restrictNodeScheduling worker labels,
    namespaceSelector / matchLabelKeys of affinity terms, resource fit (an
    oracle of the loop).  No proofs in this file. *)
From Coq Require Import List String ZArith Bool.
From KaiV Require Import Model.Strconv.
Import ListNotations.
Open Scope string_scope.
Open Scope list_scope.

(** * Labels and selectors *)

Definition labels := list (string * string).

Fixpoint lget (k : string) (l : labels) : option string :=
  match l with
  | [] => None
  | (k', v) :: r => if String.eqb k k' then Some v else lget k r
  end.

Definition mem_str (v : string) (vs : list string) : bool := existsb (String.eqb v) vs.

Inductive sop := SIn | SNotIn | SExists | SDoesNotExist | SGt | SLt.
Record sreq := mkReq { rq_key : string; rq_op : sop; rq_vals : list string }.

(** labels.Requirement.Matches *)
Definition req_match (ls : labels) (r : sreq) : bool :=
  match rq_op r, lget (rq_key r) ls with
  | SIn, Some v => mem_str v (rq_vals r)
  | SIn, None => false
  | SNotIn, Some v => negb (mem_str v (rq_vals r))
  | SNotIn, None => true
  | SExists, Some _ => true
  | SExists, None => false
  | SDoesNotExist, Some _ => false
  | SDoesNotExist, None => true
  | SGt, Some v =>
      match parse_int v, rq_vals r with
      | Some a, [w] => match parse_int w with Some b => Z.ltb b a | None => false end
      | _, _ => false
      end
  | SLt, Some v =>
      match parse_int v, rq_vals r with
      | Some a, [w] => match parse_int w with Some b => Z.ltb a b | None => false end
      | _, _ => false
      end
  | SGt, None => false
  | SLt, None => false
  end.

Definition reqs_match (ls : labels) (rs : list sreq) : bool := forallb (req_match ls) rs.

(** * Nodes *)

Inductive effect := NoSchedule | PreferNoSchedule | NoExecute | EffOther.
Definition effect_eqb (a b : effect) : bool :=
  match a, b with
  | NoSchedule, NoSchedule | PreferNoSchedule, PreferNoSchedule | NoExecute, NoExecute | EffOther, EffOther => true
  | _, _ => false
  end.
Record taint := mkTaint { tn_key : string; tn_val : string; tn_eff : effect }.

Inductive ctype := CReady | CMemoryPressure | CDiskPressure | CPIDPressure | CNetworkUnavailable | COtherCond.
Inductive cstat := CTrue | CFalse | CUnknown.

Record pnode := mkPNode {
  nd_name : string;
  nd_labels : labels;
  nd_taints : list taint;
  nd_unsched : bool;
  nd_conds : list (ctype * cstat);
}.

(** * Pods *)

Inductive tolop := TolEqual | TolExists | TolOtherOp.
Record toleration := mkTol { tl_key : string; tl_op : tolop; tl_val : string; tl_eff : option effect }.

(** one NodeSelectorTerm: matchExpressions and matchFields (on metadata.name) *)
Record nterm := mkNTerm { nt_exprs : list sreq; nt_fields : list sreq }.

(** one required PodAffinityTerm; [pt_sel = None] is a nil LabelSelector
    (matches nothing), [Some []] matches everything; [pt_nss = []] means the
    namespace of the pod that carries the term *)
Record pterm := mkPTerm { pt_sel : option (list sreq); pt_key : string; pt_nss : list string }.

Record ppod := mkPPod {
  pd_id : positive;
  pd_ns : string;
  pd_labels : labels;
  pd_nodesel : labels;                 (* spec.nodeSelector *)
  pd_nodeaff : option (list nterm);    (* required node affinity; None = absent *)
  pd_tols : list toleration;
  pd_aff : list pterm;                 (* required pod affinity *)
  pd_anti : list pterm;                (* required pod anti-affinity *)
}.

Record cluster := mkCluster {
  cl_pool_key : string;
  cl_pool_val : string;
  cl_nodes : list pnode;               (* every node object of the API server *)
}.

Definition find_node (cl : cluster) (name : string) : option pnode :=
  find (fun n => String.eqb (nd_name n) name) (cl_nodes cl).

(** * Node-level checks *)

Definition in_pool (cl : cluster) (n : pnode) : bool :=
  if String.eqb (cl_pool_key cl) "" then true
  else match lget (cl_pool_key cl) (nd_labels n) with
       | None => String.eqb (cl_pool_val cl) ""
       | Some v => negb (String.eqb (cl_pool_val cl) "") && String.eqb v (cl_pool_val cl)
       end.

Definition cond_ok (c : ctype * cstat) : bool :=
  match c with
  | (CReady, CTrue) => true
  | (CReady, _) => false
  | (COtherCond, _) => true
  | (_, CFalse) => true
  | (_, _) => false
  end.

Definition node_conds_ok (n : pnode) : bool := negb (nd_unsched n) && forallb cond_ok (nd_conds n).

Definition nodesel_ok (p : ppod) (n : pnode) : bool :=
  forallb (fun kv => match lget (fst kv) (nd_labels n) with Some v => String.eqb v (snd kv) | None => false end) (pd_nodesel p).

(** a matchFields requirement (field selector): only In / NotIn with exactly
    one value parse; the only field of a node is metadata.name *)
Definition field_value (n : pnode) (r : sreq) : string :=
  if String.eqb (rq_key r) "metadata.name" then nd_name n else "".

Definition field_match (n : pnode) (r : sreq) : bool :=
  match rq_op r, rq_vals r with
  | SIn, [v] => String.eqb (field_value n r) v
  | SNotIn, [v] => negb (String.eqb (field_value n r) v)
  | _, _ => false
  end.

Definition nterm_match (n : pnode) (t : nterm) : bool :=
  match nt_exprs t, nt_fields t with
  | [], [] => false
  | _, _ => reqs_match (nd_labels n) (nt_exprs t) && forallb (field_match n) (nt_fields t)
  end.

Definition nodeaff_ok (p : ppod) (n : pnode) : bool :=
  match pd_nodeaff p with
  | None => true
  | Some ts => existsb (nterm_match n) ts
  end.

Definition tolerates (t : toleration) (tn : taint) : bool :=
  (match tl_eff t with None => true | Some e => effect_eqb e (tn_eff tn) end)
  && (String.eqb (tl_key t) "" || String.eqb (tl_key t) (tn_key tn))
  && match tl_op t with
     | TolEqual => String.eqb (tl_val t) (tn_val tn)
     | TolExists => true
     | TolOtherOp => false
     end.

Definition hard_effect (e : effect) : bool :=
  match e with NoSchedule | NoExecute => true | _ => false end.

Definition taints_ok (p : ppod) (n : pnode) : bool :=
  forallb (fun tn => negb (hard_effect (tn_eff tn)) || existsb (fun t => tolerates t tn) (pd_tols p)) (nd_taints n).

Definition node_level_ok (cl : cluster) (p : ppod) (n : pnode) : bool :=
  in_pool cl n && node_conds_ok n && nodesel_ok p n && nodeaff_ok p n && taints_ok p n.

(** * Inter-pod (anti-)affinity *)

(** AffinityTerm.Matches: namespace, then label selector *)
Definition term_matches (owner : ppod) (t : pterm) (q : ppod) : bool :=
  (match pt_nss t with
   | [] => String.eqb (pd_ns q) (pd_ns owner)
   | nss => mem_str (pd_ns q) nss
   end)
  && match pt_sel t with
     | None => false
     | Some rs => reqs_match (pd_labels q) rs
     end.

Definition matches_all (owner : ppod) (ts : list pterm) (q : ppod) : bool := forallb (fun t => term_matches owner t q) ts.

Definition placed_t := list (ppod * string).

(** the label value of key [k] on the node a placed pod sits on *)
Definition domain_of (cl : cluster) (k : string) (nn : string) : option string :=
  match find_node cl nn with
  | Some m => lget k (nd_labels m)
  | None => None
  end.

Definition same_domain (cl : cluster) (k : string) (n : pnode) (nn : string) : bool :=
  match lget k (nd_labels n), domain_of cl k nn with
  | Some a, Some b => String.eqb a b
  | _, _ => false
  end.

(** required affinity of the incoming pod (satisfyPodAffinity) *)
Definition affinity_ok (cl : cluster) (placed : placed_t) (p : ppod) (n : pnode) : bool :=
  match pd_aff p with
  | [] => true
  | ts =>
      forallb (fun t => match lget (pt_key t) (nd_labels n) with Some _ => true | None => false end) ts
      && (forallb (fun t => existsb (fun qm => matches_all p ts (fst qm) && same_domain cl (pt_key t) n (snd qm)) placed) ts
          || (negb (existsb (fun qm => matches_all p ts (fst qm)
                                      && existsb (fun t => match domain_of cl (pt_key t) (snd qm) with Some _ => true | None => false end) ts) placed)
              && matches_all p ts p))
  end.

(** required anti-affinity of the incoming pod (satisfyPodAntiAffinity) *)
Definition anti_ok (cl : cluster) (placed : placed_t) (p : ppod) (n : pnode) : bool :=
  forallb (fun t => negb (existsb (fun qm => term_matches p t (fst qm) && same_domain cl (pt_key t) n (snd qm)) placed)) (pd_anti p).

(** required anti-affinity of the pods already on the nodes (satisfyExistingPodsAntiAffinity) *)
Definition existing_anti_ok (cl : cluster) (placed : placed_t) (p : ppod) (n : pnode) : bool :=
  forallb (fun qm => forallb (fun t => negb (term_matches (fst qm) t p && same_domain cl (pt_key t) n (snd qm))) (pd_anti (fst qm))) placed.

Definition interpod_ok (cl : cluster) (placed : placed_t) (p : ppod) (n : pnode) : bool :=
  affinity_ok cl placed p n && anti_ok cl placed p n && existing_anti_ok cl placed p n.

(** the boolean checker of the hard constraints *)
Definition hard_ok (cl : cluster) (placed : placed_t) (pn : ppod * string) : bool :=
  match find_node cl (snd pn) with
  | Some n => node_level_ok cl (fst pn) n && interpod_ok cl placed (fst pn) n
  | None => false
  end.

(** * The declarative side: what "a hard constraint holds" means

    Written with quantifiers over labels, terms and placed pods, independently
    of the control flow above; [Proofs/Placement.v] shows
    [hard_ok = true <-> HardOK]. *)

Definition ReqMatch (ls : labels) (r : sreq) : Prop :=
  match rq_op r with
  | SIn => exists v, lget (rq_key r) ls = Some v /\ In v (rq_vals r)
  | SNotIn => forall v, lget (rq_key r) ls = Some v -> ~ In v (rq_vals r)
  | SExists => exists v, lget (rq_key r) ls = Some v
  | SDoesNotExist => lget (rq_key r) ls = None
  | SGt => exists v a w b, lget (rq_key r) ls = Some v /\ parse_int v = Some a /\ rq_vals r = [w] /\ parse_int w = Some b /\ (b < a)%Z
  | SLt => exists v a w b, lget (rq_key r) ls = Some v /\ parse_int v = Some a /\ rq_vals r = [w] /\ parse_int w = Some b /\ (a < b)%Z
  end.

Definition ReqsMatch (ls : labels) (rs : list sreq) : Prop := forall r, In r rs -> ReqMatch ls r.

Definition InPool (cl : cluster) (n : pnode) : Prop :=
  cl_pool_key cl = ""
  \/ (cl_pool_key cl <> "" /\ cl_pool_val cl = "" /\ lget (cl_pool_key cl) (nd_labels n) = None)
  \/ (cl_pool_key cl <> "" /\ cl_pool_val cl <> "" /\ lget (cl_pool_key cl) (nd_labels n) = Some (cl_pool_val cl)).

Definition pressure (t : ctype) : Prop :=
  t = CMemoryPressure \/ t = CDiskPressure \/ t = CPIDPressure \/ t = CNetworkUnavailable.

(** schedulable; a reported Ready condition is True; a reported pressure /
    network-unavailable condition is False *)
Definition NodeReady (n : pnode) : Prop :=
  nd_unsched n = false
  /\ forall t s, In (t, s) (nd_conds n) -> (t = CReady -> s = CTrue) /\ (pressure t -> s = CFalse).

Definition SelectorOK (p : ppod) (n : pnode) : Prop :=
  forall k v, In (k, v) (pd_nodesel p) -> lget k (nd_labels n) = Some v.

Definition FieldMatch (n : pnode) (r : sreq) : Prop :=
  exists v, rq_vals r = [v]
    /\ ((rq_op r = SIn /\ field_value n r = v) \/ (rq_op r = SNotIn /\ field_value n r <> v)).

Definition NTermMatch (n : pnode) (t : nterm) : Prop :=
  (nt_exprs t <> [] \/ nt_fields t <> [])
  /\ ReqsMatch (nd_labels n) (nt_exprs t)
  /\ (forall r, In r (nt_fields t) -> FieldMatch n r).

Definition NodeAffOK (p : ppod) (n : pnode) : Prop :=
  forall ts, pd_nodeaff p = Some ts -> exists t, In t ts /\ NTermMatch n t.

Definition Tolerates (t : toleration) (tn : taint) : Prop :=
  (forall e, tl_eff t = Some e -> e = tn_eff tn)
  /\ (tl_key t = "" \/ tl_key t = tn_key tn)
  /\ (tl_op t = TolExists \/ (tl_op t = TolEqual /\ tl_val t = tn_val tn)).

Definition TaintsOK (p : ppod) (n : pnode) : Prop :=
  forall tn, In tn (nd_taints n) -> (tn_eff tn = NoSchedule \/ tn_eff tn = NoExecute) ->
    exists t, In t (pd_tols p) /\ Tolerates t tn.

Definition TermMatches (owner : ppod) (t : pterm) (q : ppod) : Prop :=
  ((pt_nss t = [] /\ pd_ns q = pd_ns owner) \/ (pt_nss t <> [] /\ In (pd_ns q) (pt_nss t)))
  /\ exists rs, pt_sel t = Some rs /\ ReqsMatch (pd_labels q) rs.

Definition MatchesAll (owner : ppod) (ts : list pterm) (q : ppod) : Prop :=
  forall t, In t ts -> TermMatches owner t q.

(** node [n] and the node named [nn] carry the same value of label [k] *)
Definition SameDomain (cl : cluster) (k : string) (n : pnode) (nn : string) : Prop :=
  exists m v, find_node cl nn = Some m /\ lget k (nd_labels n) = Some v /\ lget k (nd_labels m) = Some v.

Definition HasKey (cl : cluster) (k : string) (nn : string) : Prop :=
  exists m v, find_node cl nn = Some m /\ lget k (nd_labels m) = Some v.

(** required pod affinity: the node carries every topology key and either every
    term's domain holds a pod matching all terms, or no such pod exists anywhere
    (on a node with one of the keys) and the pod matches its own terms *)
Definition AffinityOK (cl : cluster) (placed : placed_t) (p : ppod) (n : pnode) : Prop :=
  pd_aff p = []
  \/ ((forall t, In t (pd_aff p) -> exists v, lget (pt_key t) (nd_labels n) = Some v)
      /\ ((forall t, In t (pd_aff p) ->
             exists q m, In (q, m) placed /\ MatchesAll p (pd_aff p) q /\ SameDomain cl (pt_key t) n m)
          \/ ((forall q m, In (q, m) placed -> MatchesAll p (pd_aff p) q ->
                 forall t, In t (pd_aff p) -> ~ HasKey cl (pt_key t) m)
              /\ MatchesAll p (pd_aff p) p))).

Definition AntiOK (cl : cluster) (placed : placed_t) (p : ppod) (n : pnode) : Prop :=
  forall t, In t (pd_anti p) -> forall q m, In (q, m) placed -> TermMatches p t q -> ~ SameDomain cl (pt_key t) n m.

Definition ExistingAntiOK (cl : cluster) (placed : placed_t) (p : ppod) (n : pnode) : Prop :=
  forall q m, In (q, m) placed -> forall t, In t (pd_anti q) -> TermMatches q t p -> ~ SameDomain cl (pt_key t) n m.

Definition HardOK (cl : cluster) (placed : placed_t) (pn : ppod * string) : Prop :=
  exists n, find_node cl (snd pn) = Some n
    /\ InPool cl n /\ NodeReady n
    /\ SelectorOK (fst pn) n /\ NodeAffOK (fst pn) n /\ TaintsOK (fst pn) n
    /\ AffinityOK cl placed (fst pn) n /\ AntiOK cl placed (fst pn) n /\ ExistingAntiOK cl placed (fst pn) n.

(** * The predicates plugin as the code evaluates it *)

(** InterPodAffinity.PreFilter answers Skip: no terms of its own and no pod
    already on a node whose required anti-affinity selects the pod (on a node
    carrying the term's topology key) *)
Definition prefilter_skip (cl : cluster) (placed : placed_t) (p : ppod) : bool :=
  match pd_aff p, pd_anti p with
  | [], [] =>
      negb (existsb (fun qm => existsb (fun t => term_matches (fst qm) t p
                                               && match domain_of cl (pt_key t) (snd qm) with Some _ => true | None => false end)
                                       (pd_anti (fst qm))) placed)
  | _, _ => false
  end.

Definition mem_pos (x : positive) (l : list positive) : bool := existsb (Pos.eqb x) l.

(** evaluateTaskOnPrePredicate: a Skip answer is added to the pod's skip list;
    any other answer removes the pod's entry *)
Definition pre_predicate (cl : cluster) (placed : placed_t) (skip : list positive) (p : ppod) : list positive :=
  if prefilter_skip cl placed p then pd_id p :: skip
  else filter (fun x => negb (Pos.eqb x (pd_id p))) skip.

(** evaluateTaskOnPredicates on a node of the session *)
Definition fitting_node (cl : cluster) (placed : placed_t) (skip : list positive) (p : ppod) (nn : string) : bool :=
  match find_node cl nn with
  | Some n => node_level_ok cl p n && (mem_pos (pd_id p) skip || interpod_ok cl placed p n)
  | None => false
  end.

(** * The allocate loop *)

Record lstate := mkLS { s_placed : placed_t; s_skip : list positive }.

(** one committed placement: the pods on the nodes before it, the pod, the node *)
Record prec := mkRec { r_before : placed_t; r_pod : ppod; r_node : string }.

Section Loop.
  Variable cl : cluster.
  (** oracles: node order (scoring, node sets), and everything else that can
      reject a node (resources, queue capacity, other plugins) *)
  Variable order : lstate -> ppod -> list string.
  Variable fits : lstate -> ppod -> string -> bool.
  (** oracle: is the partial result of a failed statement kept (elastic jobs
      above their minimum) or rolled back *)
  Variable keep : lstate -> list prec -> bool.

  (** allocateTask *)
  Definition try_task (s : lstate) (p : ppod) : lstate * option prec :=
    let skip' := pre_predicate cl (s_placed s) (s_skip s) p in
    match find (fun nn => fitting_node cl (s_placed s) skip' p nn && fits s p nn) (order s p) with
    | Some nn =>
        (mkLS ((p, nn) :: s_placed s) skip',
         Some (mkRec (s_placed s) p nn))
    | None => (mkLS (s_placed s) skip', None)
    end.

  (** the tasks of one statement, in order; [acc] is in reverse order *)
  Fixpoint try_tasks (s0 s : lstate) (ts : list ppod) (acc : list prec) : lstate * list prec :=
    match ts with
    | [] => (s, acc)
    | p :: r =>
        match try_task s p with
        | (s1, Some rc) => try_tasks s0 s1 r (rc :: acc)
        | (s1, None) =>
            if keep s acc then (s1, acc)
            else (mkLS (s_placed s0) (s_skip s1), [])     (* roll back the placements; the skip list is plugin state and stays *)
        end
    end.

  (** a whole cycle: any sequence of statements (jobs of every action, scenario
      simulations); returns the committed placements in order *)
  Fixpoint run_jobs (s : lstate) (jobs : list (list ppod)) : lstate * list prec :=
    match jobs with
    | [] => (s, [])
    | ts :: r =>
        let '(s1, recs) := try_tasks s s ts [] in
        let '(s2, more) := run_jobs s1 r in
        (s2, rev recs ++ more)
    end.
End Loop.
