(** Victim selection of the reclaim, preempt and consolidation actions, the
    min-runtime plugin, and the statement discipline of the by-pod solver.

    Modelled (Go code as it is):
    - pkg/scheduler/plugins/minruntime/resolver.go: [resolvePreemptMinRuntime],
      [resolveReclaimMinRuntimeQueue] ([walk_up]), [getQueueHierarchyPath]
      ([path_up] / [hier_path]), [resolveReclaimMinRuntimeLCA]
      ([resolve_reclaim_lca]), [getPreemptMinRuntime] / [getReclaimMinRuntime]
      (nil queue -> default); the Go loops follow parent links for ever on a cycle
      of parents: explicit fuel and [NoTermination].
    - pkg/scheduler/plugins/minruntime/minruntime.go: [isPreemptMinRuntimeProtected],
      [isReclaimMinRuntimeProtected] ([preempt_protected] / [reclaim_protected]),
      [preemptFilterFn] / [reclaimFilterFn] ([mrt_filter]: elastic victims always
      pass), [preemptScenarioValidatorFn] / [reclaimScenarioValidatorFn]
      ([mrt_validator]), [validVictimForMinAvailable] (after repair 72df7ab).
    - pkg/scheduler/actions/preempt/preempt.go [buildFilterFuncForPreempt] with
      actions/utils/action.go [GetVictimsQueue] and actions/utils/input_jobs.go
      [InitializeWithJobs] ([preempt_filter]); actions/reclaim/reclaim.go
      [getOrderedVictimsQueue] ([reclaim_filter]); actions/consolidation/
      consolidation.go [buildPreemptibleFilterFunc] ([consolidation_filter]),
      [allPodsReallocated] ([all_pods_reallocated]).
    - pkg/scheduler/framework/statement.go [Evict] (as repaired by 83a0ca3 +
      bce7109: a pod that is already Releasing in the session is left alone;
      [stmt_evict_gen stale] with a non-empty [stale] is the code before bce7109),
      [Pipeline] (incl. the "already on this node -> un-evict" and "same
      node, other GPU group" branches), [Unevict] = undo of the earliest valid evict
      operation, [Commit] with [commitEvict] / [commitPipeline] / [commitAllocate]
      ([commit_run]: one Cache call per valid operation, in order, under a failure
      oracle for the Evict and Bind calls: a refused eviction is logged, the evict
      operation is reversed (repair 5a5de9a: Statement.unevict with the status, GPU
      groups and node recorded when the pod was EVICTED - the pod is back to what
      it was before the eviction, e.g. Running; [commit_run _ false] is the code
      before that repair, which handed unevict the values read at commit time, so
      the pod stayed Releasing / nominated in the session) and the loop goes on; a
      refused bind cleans the allocation up, clears the operations and returns);
      actions/common/solvers/by_pod_solver.go
      [solve] / [handleScenarioSolution] and job_solver.go [Solve] ([run_scenario]):
      evict the recorded victims and the potential victims of the node under test,
      simulate, validate, and commit or discard the whole statement.
    - pkg/common/podgroup/preemptible.go [CalculatePreemptibility] ([calc_preemptible]).

    Oracles (any value is covered by the theorems): which scenario is tried
    ([scenario]: recorded / potential / chosen victims), the placements
    the simulation found ([sim]; only successful nominations are listed: attempts that
    fail are rolled back by the statement, which restores the state - property
    C13), the verdict of the proportion plugin's reclaim validator ([sc_other_ok]),
    the current time ([ve_now]), which Cache.Evict / Cache.Bind calls of a commit
    fail ([faults]).

    Left out: the caches of the plugin (protection / duration per job / queue pair:
    same value as the uncached computation), node existence checks (every node a
    task names exists), DRA claims.  Maps are association lists read by first
    match. *)
From Coq Require Import List ZArith Bool PArith.
From KaiV Require Import Model.Status.
Import ListNotations.
Open Scope Z_scope.

(** * Queue tree and min-runtime resolution *)

Record vqueue := mkVQ {
  vq_id : positive;
  vq_parent : option positive;     (* None: ParentQueue == "" *)
  vq_preempt : option Z;           (* PreemptMinRuntime, seconds; None: not set *)
  vq_reclaim : option Z;           (* ReclaimMinRuntime *)
}.
Definition qtree := list vqueue.

Fixpoint qlookup (qs : qtree) (id : positive) : option vqueue :=
  match qs with
  | [] => None
  | q :: r => if Pos.eqb (vq_id q) id then Some q else qlookup r id
  end.

(** [r.queues[currentQueue.ParentQueue]]: nil for "" and for a missing queue *)
Definition qparent (qs : qtree) (q : vqueue) : option vqueue :=
  match vq_parent q with
  | Some p => qlookup qs p
  | None => None
  end.

Inductive mres :=
| Dur (d : Z)
| NoTermination       (* the Go loop does not terminate (cycle of parent links) *)
| MPanic.             (* index out of range *)

(** walk from [q] towards the root until a setting is found *)
Fixpoint walk_up (sel : vqueue -> option Z) (fuel : nat) (qs : qtree) (dflt : Z) (q : vqueue) : mres :=
  match fuel with
  | O => NoTermination
  | S f =>
      match sel q with
      | Some d => Dur d
      | None =>
          match qparent qs q with
          | Some p => walk_up sel f qs dflt p
          | None => Dur dflt
          end
      end
  end.

Definition fuel_of (qs : qtree) : nat := S (List.length qs).

(** getQueueHierarchyPath builds [root; ...; q] by prepending; [path_up] is its reversal *)
Fixpoint path_up (fuel : nat) (qs : qtree) (q : vqueue) : option (list vqueue) :=
  match fuel with
  | O => None
  | S f =>
      match qparent qs q with
      | Some p => match path_up f qs p with
                  | Some l => Some (q :: l)
                  | None => None
                  end
      | None => Some [q]
      end
  end.
Definition hier_path (fuel : nat) (qs : qtree) (q : vqueue) : option (list vqueue) :=
  match path_up fuel qs q with
  | Some l => Some (rev l)
  | None => None
  end.

Fixpoint common_prefix_len (a b : list vqueue) : nat :=
  match a, b with
  | x :: a', y :: b' => if Pos.eqb (vq_id x) (vq_id y) then S (common_prefix_len a' b') else O
  | _, _ => O
  end.

Fixpoint first_set (sel : vqueue -> option Z) (l : list vqueue) : option Z :=
  match l with
  | [] => None
  | q :: r => match sel q with
              | Some d => Some d
              | None => first_set sel r
              end
  end.

Definition or_default (o : option Z) (dflt : Z) : Z := match o with Some d => d | None => dflt end.

(** resolveReclaimMinRuntimeLCA on the two root-first paths *)
Definition lca_on_paths (dflt : Z) (pr pe : list vqueue) : mres :=
  match pr, pe with
  | tr :: _, te :: _ =>
      if negb (Pos.eqb (vq_id tr) (vq_id te)) then
        (* different top-level queues: the victim's top-level queue, nothing else *)
        Dur (or_default (vq_reclaim te) dflt)
      else
        let lca := (common_prefix_len pr pe - 1)%nat in
        let start := if Nat.ltb (lca + 1) (List.length pe) then (lca + 1)%nat else lca in
        (* for i := start; i >= 0; i-- *)
        Dur (or_default (first_set vq_reclaim (rev (firstn (S start) pe))) dflt)
  | _, _ => MPanic
  end.

Definition resolve_reclaim_lca (fuel : nat) (qs : qtree) (dflt : Z) (r e : vqueue) : mres :=
  match hier_path fuel qs r with
  | None => NoTermination
  | Some pr =>
      match hier_path fuel qs e with
      | None => NoTermination
      | Some pe => lca_on_paths dflt pr pe
      end
  end.

Definition resolve_preempt (fuel : nat) (qs : qtree) (dflt : Z) (q : option vqueue) : mres :=
  match q with
  | None => Dur dflt            (* "queue is nil": the plugin falls back to its default *)
  | Some q => walk_up vq_preempt fuel qs dflt q
  end.

Definition resolve_reclaim (lca : bool) (fuel : nat) (qs : qtree) (dflt : Z) (qr qe : option vqueue) : mres :=
  match qr, qe with
  | Some r, Some e =>
      if lca then resolve_reclaim_lca fuel qs dflt r e else walk_up vq_reclaim fuel qs dflt e
  | _, _ => Dur dflt
  end.

(** * Jobs, pods and the session state *)

Record vtask := mkVT {
  vt_id : positive; vt_job : positive; vt_pset : positive;
  vt_status : status;
  vt_node : option positive;       (* NodeName ("" = None) *)
  vt_groups : list positive;       (* GPUGroups *)
  vt_shared : bool;                (* IsSharedGPUAllocation *)
}.
Record vjob := mkVJ {
  vj_id : positive; vj_queue : positive; vj_prio : Z; vj_preemptible : bool;
  vj_start : option Z;             (* LastStartTimestamp (None: nil or zero) *)
  vj_psets : list (positive * Z);  (* pod set, minAvailable *)
}.
Record venv := mkVE {
  ve_queues : qtree;
  ve_dpre : Z; ve_drec : Z;        (* defaultPreemptMinRuntime, defaultReclaimMinRuntime *)
  ve_lca : bool;                   (* reclaimResolveMethod = lca *)
  ve_now : Z;                      (* time.Now() *)
  ve_maxcons : Z;                  (* GetMaxNumberConsolidationPreemptees, -1 = no restriction *)
}.
Record sstate := mkSS {
  ss_jobs : list vjob;
  ss_tasks : list vtask;
  ss_entries : list (positive * positive * list positive);  (* node.PodInfos: (pod, node, groups of the node's copy) *)
}.

(** pkg/common/podgroup CalculatePreemptibility: explicit value, else priority < 100 *)
Definition calc_preemptible (explicit : option bool) (priority : Z) : bool :=
  match explicit with
  | Some b => b
  | None => priority <? 100
  end.

Fixpoint find_job (js : list vjob) (id : positive) : option vjob :=
  match js with
  | [] => None
  | j :: r => if Pos.eqb (vj_id j) id then Some j else find_job r id
  end.
Fixpoint get_task (ts : list vtask) (id : positive) : option vtask :=
  match ts with
  | [] => None
  | t :: r => if Pos.eqb (vt_id t) id then Some t else get_task r id
  end.
(** the job of a pod: [ssn.ClusterInfo.PodGroupInfos[task.Job]] *)
Definition job_of (s : sstate) (t : positive) : option vjob :=
  match get_task (ss_tasks s) t with
  | Some tk => find_job (ss_jobs s) (vt_job tk)
  | None => None
  end.

Definition countb {A} (p : A -> bool) (l : list A) : Z := Z.of_nat (List.length (filter p l)).
Definition tasks_of_job (s : sstate) (j : positive) : list vtask :=
  filter (fun t => Pos.eqb (vt_job t) j) (ss_tasks s).
Definition pset_tasks (s : sstate) (j ps : positive) : list vtask :=
  filter (fun t => Pos.eqb (vt_pset t) ps) (tasks_of_job s j).
Definition st_active_used (t : vtask) : bool := active_used (vt_status t).
Definition st_active_alloc (t : vtask) : bool := active_allocated (vt_status t).

(** PodSet.IsElastic: minAvailable < number of pods; PodGroupInfo.IsElastic: some pod set is *)
Definition job_elastic (s : sstate) (j : vjob) : bool :=
  existsb (fun pm => snd pm <? Z.of_nat (List.length (pset_tasks s (vj_id j) (fst pm)))) (vj_psets j).

(** * Min-runtime protection *)

Definition within (now : Z) (start : option Z) (d : Z) : bool :=
  match start with
  | Some st => now <? st + d      (* time.Now().Before(LastStartTimestamp.Add(minRuntime)) *)
  | None => false
  end.

Inductive verdict := V (b : bool) | VHang | VPanic.

Definition protected_of (env : venv) (victim : vjob) (r : mres) : verdict :=
  match r with
  | Dur d => V (within (ve_now env) (vj_start victim) d)
  | NoTermination => VHang
  | MPanic => VPanic
  end.

Definition preempt_protected (env : venv) (victim : vjob) : verdict :=
  let qs := ve_queues env in
  protected_of env victim (resolve_preempt (fuel_of qs) qs (ve_dpre env) (qlookup qs (vj_queue victim))).

Definition reclaim_protected (env : venv) (pending victim : vjob) : verdict :=
  let qs := ve_queues env in
  protected_of env victim
    (resolve_reclaim (ve_lca env) (fuel_of qs) qs (ve_drec env) (qlookup qs (vj_queue pending)) (qlookup qs (vj_queue victim))).

Inductive vaction := AReclaim | APreempt | AConsolidation.

(** isReclaimMinRuntimeProtected / isPreemptMinRuntimeProtected *)
Definition mrt_protected (env : venv) (a : vaction) (pending victim : vjob) : verdict :=
  match a with
  | AReclaim => reclaim_protected env pending victim
  | APreempt => preempt_protected env victim
  | AConsolidation => V false     (* the consolidation action consults no min-runtime *)
  end.

Definition vnegb (v : verdict) : verdict := match v with V b => V (negb b) | o => o end.

(** reclaimFilterFn / preemptFilterFn: elastic victims are left to the scenario validator *)
Definition mrt_filter (env : venv) (s : sstate) (a : vaction) (pending victim : vjob) : verdict :=
  if job_elastic s victim then V true else vnegb (mrt_protected env a pending victim).

(** * Victim filters *)

Definition is_some {A} (o : option A) : bool := match o with Some _ => true | None => false end.
Definition opt_pos_eqb (a : option positive) (b : positive) : bool :=
  match a with Some x => Pos.eqb x b | None => false end.

(** InitializeWithJobs: the job's queue exists, its parent exists (or it is a root) and it is a leaf *)
Definition queue_ok (qs : qtree) (qid : positive) : bool :=
  match qlookup qs qid with
  | None => false
  | Some q =>
      (match vq_parent q with None => true | Some p => is_some (qlookup qs p) end)
      && forallb (fun c => negb (opt_pos_eqb (vq_parent c) qid)) qs
  end.

Definition has_alive (s : sstate) (j : vjob) : bool :=
  existsb (fun t => alive (vt_status t)) (tasks_of_job s (vj_id j)).
Definition active_alloc_count (s : sstate) (j : vjob) : Z := countb st_active_alloc (tasks_of_job s (vj_id j)).

(** GetVictimsQueue (alive pod) + buildFilterFuncForPreempt + InitializeWithJobs *)
Definition preempt_filter (env : venv) (s : sstate) (preemptor job : vjob) : verdict :=
  if negb (has_alive s job) then V false
  else if negb (vj_preemptible job) then V false
  else if vj_prio preemptor <=? vj_prio job then V false
  else if negb (Pos.eqb (vj_queue job) (vj_queue preemptor)) then V false
  else if Pos.eqb (vj_id preemptor) (vj_id job) then V false
  else if active_alloc_count s job =? 0 then V false
  else match mrt_filter env s APreempt preemptor job with
       | V true => V (queue_ok (ve_queues env) (vj_queue job))
       | o => o
       end.

(** reclaim.getOrderedVictimsQueue: other queue, ReclaimVictimFilter, then
    InitializeWithJobs {FilterNonPreemptible, FilterNonActiveAllocated} *)
Definition reclaim_filter (env : venv) (s : sstate) (reclaimer job : vjob) : verdict :=
  if Pos.eqb (vj_queue job) (vj_queue reclaimer) then V false
  else match mrt_filter env s AReclaim reclaimer job with
       | V true =>
           V (vj_preemptible job
              && existsb st_active_alloc (tasks_of_job s (vj_id job))
              && queue_ok (ve_queues env) (vj_queue job))
       | o => o
       end.

(** GetVictimsQueue + buildPreemptibleFilterFunc ([seen]: victims accepted so far) + InitializeWithJobs *)
Definition consolidation_filter (env : venv) (s : sstate) (seen : Z) (preemptor job : vjob) : verdict :=
  V (has_alive s job
     && vj_preemptible job
     && negb (Pos.eqb (vj_id preemptor) (vj_id job))
     && ((ve_maxcons env =? -1) || negb (ve_maxcons env <? seen))
     && negb (active_alloc_count s job =? 0)
     && queue_ok (ve_queues env) (vj_queue job)).

Definition victim_filter (env : venv) (s : sstate) (a : vaction) (seen : Z) (preemptor job : vjob) : verdict :=
  match a with
  | AReclaim => reclaim_filter env s preemptor job
  | APreempt => preempt_filter env s preemptor job
  | AConsolidation => consolidation_filter env s seen preemptor job
  end.

(** * Scenario validators *)

Fixpoint dedup_pos (l : list positive) : list positive :=
  match l with
  | [] => []
  | x :: r => if existsb (Pos.eqb x) r then dedup_pos r else x :: dedup_pos r
  end.
Definition mem_pos (x : positive) (l : list positive) : bool := existsb (Pos.eqb x) l.

Fixpoint plookup (k : positive) (l : list (positive * Z)) : option Z :=
  match l with
  | [] => None
  | (k', v) :: r => if Pos.eqb k' k then Some v else plookup k r
  end.

(** tasks (as they are now in the session) of a list of pod ids; unknown ids are dropped *)
Definition tasks_of (s : sstate) (ids : list positive) : list vtask :=
  flat_map (fun t => match get_task (ss_tasks s) t with Some tk => [tk] | None => [] end) ids.

(** validVictimForMinAvailable (as repaired by 72df7ab): per pod set with victims,
    minAvailable <= the pods of the pod set that keep running: active-allocated
    (so not terminating) and not among the victims of this scenario
    (a pod set of a victim unknown to the job is a nil dereference) *)
Definition valid_victim_for_min_available (s : sstate) (j : vjob) (victims : list vtask) : verdict :=
  let sgs := dedup_pos (map vt_pset victims) in
  let vids := map vt_id victims in
  if forallb (fun sg => is_some (plookup sg (vj_psets j))) sgs then
    V (forallb (fun sg =>
                  let remaining := countb (fun t => st_active_alloc t && negb (mem_pos (vt_id t) vids))
                                          (pset_tasks s (vj_id j) sg) in
                  match plookup sg (vj_psets j) with
                  | Some m => negb (remaining <? m)
                  | None => true
                  end) sgs)
  else VPanic.

(** scenario.GetVictims(): the victim pods grouped by job (job ids in first-appearance order) *)
Definition victim_jobs (s : sstate) (vics : list positive) : list positive :=
  dedup_pos (map vt_job (tasks_of s vics)).
Definition victims_of_job (s : sstate) (vics : list positive) (j : positive) : list vtask :=
  filter (fun t => Pos.eqb (vt_job t) j) (tasks_of s vics).

(** preemptScenarioValidatorFn / reclaimScenarioValidatorFn *)
Fixpoint mrt_validator_jobs (env : venv) (s : sstate) (a : vaction) (pending : vjob) (vics : list positive)
         (js : list positive) : verdict :=
  match js with
  | [] => V true
  | jid :: r =>
      match find_job (ss_jobs s) jid with
      | None => VPanic
      | Some j =>
          if negb (job_elastic s j) then mrt_validator_jobs env s a pending vics r
          else match mrt_protected env a pending j with
               | V false => mrt_validator_jobs env s a pending vics r
               | V true =>
                   match valid_victim_for_min_available s j (victims_of_job s vics jid) with
                   | V true => mrt_validator_jobs env s a pending vics r
                   | o => o
                   end
               | o => o
               end
      end
  end.
Definition mrt_validator (env : venv) (s : sstate) (a : vaction) (pending : vjob) (vics : list positive) : verdict :=
  mrt_validator_jobs env s a pending vics (victim_jobs s vics).

(** consolidation.allPodsReallocated: no victim pod is left Releasing *)
Definition all_pods_reallocated (s : sstate) (vics : list positive) : bool :=
  forallb (fun t => negb (status_eqb (vt_status t) Releasing)) (tasks_of s vics).

(** * Statement *)

(** operations of a statement.  [SEvict]: what [evictOperation] keeps for the
    undo (previous status, GPU groups, node) and whether the operation is still
    valid (not undone).  [SAlloc] operations are built by the allocate action
    only (its simulation is not modelled here: the three evicting actions run
    [AllocateJob] with isPipelineOnly = true); [commit_run] covers them because
    [Commit] does. *)
Inductive sop :=
| SEvict (t : positive) (prev : status) (prev_groups : list positive) (prev_node : positive) (valid : bool)
| SPipe (t n : positive) (gs : list positive)
| SAlloc (t n : positive) (gs : list positive).

Fixpoint upd_first (t : positive) (f : vtask -> vtask) (l : list vtask) : list vtask :=
  match l with
  | [] => []
  | x :: r => if Pos.eqb (vt_id x) t then f x :: r else x :: upd_first t f r
  end.
Definition set_status (st : status) (x : vtask) : vtask :=
  mkVT (vt_id x) (vt_job x) (vt_pset x) st (vt_node x) (vt_groups x) (vt_shared x).
Definition set_status_groups (st : status) (gs : list positive) (x : vtask) : vtask :=
  mkVT (vt_id x) (vt_job x) (vt_pset x) st (vt_node x) gs (vt_shared x).
Definition set_piped (n : positive) (gs : list positive) (x : vtask) : vtask :=
  mkVT (vt_id x) (vt_job x) (vt_pset x) Pipelined (Some n) gs (vt_shared x).
Definition set_unallocated (x : vtask) : vtask :=
  mkVT (vt_id x) (vt_job x) (vt_pset x) Pending None (vt_groups x) (vt_shared x).
Definition with_tasks (s : sstate) (ts : list vtask) : sstate := mkSS (ss_jobs s) ts (ss_entries s).

Fixpoint entry_of (es : list (positive * positive * list positive)) (t n : positive) : option (list positive) :=
  match es with
  | [] => None
  | (t', n', gs) :: r => if Pos.eqb t' t && Pos.eqb n' n then Some gs else entry_of r t n
  end.
Fixpoint entry_set (es : list (positive * positive * list positive)) (t n : positive) (gs : list positive) :=
  match es with
  | [] => [(t, n, gs)]
  | (t', n', gs') :: r => if Pos.eqb t' t && Pos.eqb n' n then (t, n, gs) :: r else (t', n', gs') :: entry_set r t n gs
  end.
Definition entry_del (es : list (positive * positive * list positive)) (t n : positive) :=
  filter (fun e => negb (Pos.eqb (fst (fst e)) t && Pos.eqb (snd (fst e)) n)) es.

Fixpoint pos_list_eqb (a b : list positive) : bool :=
  match a, b with
  | [], [] => true
  | x :: a', y :: b' => Pos.eqb x y && pos_list_eqb a' b'
  | _, _ => false
  end.

(** Statement.Evict: the pod's job and node must be known; a pod that is already
    Releasing IN THE SESSION is left alone (no operation, no second eviction);
    otherwise status -> Releasing.  This is the guard as amended by bce7109: it
    looks the pod up in the session's own job ([sessionStatus]).  (It also fires
    when the object it is handed says Releasing; the by-node scenario hands out
    copies made by PodGroupInfo.CloneWithTasks between statements, and a pod that
    is Releasing between statements stays Releasing for the rest of the cycle, so
    that disjunct adds nothing.)
    [stale] describes the code BEFORE that amendment and is [[]] for the code as it
    is: repair 83a0ca3 tested only the Status of the object it was handed, which for
    such a copy is the status at copy time; for the pods in [stale] - the ones that
    reach Evict as a stale copy - the guard did not fire.  (Before 83a0ca3 there was
    no guard: every pod stale.) *)
Definition stmt_evict_gen (stale : list positive) (s : sstate) (ops : list sop) (t : positive) : option (sstate * list sop) :=
  match get_task (ss_tasks s) t with
  | None => None
  | Some tk =>
      match find_job (ss_jobs s) (vt_job tk), vt_node tk with
      | Some _, Some n =>
          if negb (mem_pos t stale) && status_eqb (vt_status tk) Releasing then Some (s, ops)
          else Some (with_tasks s (upd_first t (set_status Releasing) (ss_tasks s)),
                     ops ++ [SEvict t (vt_status tk) (vt_groups tk) n true])
      | _, _ => None
      end
  end.
Definition stmt_evict := stmt_evict_gen [].

(** undoEarliestValidOperation(task, evict): the previous status and groups of that operation *)
Fixpoint unevict_first (t : positive) (ops : list sop) : option (list sop * status * list positive) :=
  match ops with
  | [] => None
  | SEvict t' prev pg pn true :: r =>
      if Pos.eqb t' t then Some (SEvict t' prev pg pn false :: r, prev, pg)
      else match unevict_first t r with
           | Some (r', p, g) => Some (SEvict t' prev pg pn true :: r', p, g)
           | None => None
           end
  | o :: r => match unevict_first t r with
              | Some (r', p, g) => Some (o :: r', p, g)
              | None => None
              end
  end.

(** Statement.Pipeline(task, node, updateTaskIfExistsOnNode = false) with task.GPUGroups = gs *)
Definition stmt_pipeline (s : sstate) (ops : list sop) (req : positive * positive * list positive)
  : option (sstate * list sop) :=
  let '(t, n, gs) := req in
  match get_task (ss_tasks s) t with
  | None => None
  | Some tk =>
      match find_job (ss_jobs s) (vt_job tk) with
      | None => None
      | Some _ =>
          let entry := entry_of (ss_entries s) t n in
          let is_move := match entry with
                         | Some egs => negb (match gs with [] => true | _ => false end) && vt_shared tk
                                       && negb (pos_list_eqb gs egs)
                         | None => false
                         end in
          match entry with
          | Some egs =>
              if is_move then
                (* ConsolidateSharedPodInfoToDifferentGPU *)
                Some (mkSS (ss_jobs s) (upd_first t (set_piped n gs) (ss_tasks s)) (entry_set (ss_entries s) t n gs),
                      ops ++ [SPipe t n gs])
              else
                (* already on this node: un-evict *)
                match unevict_first t ops with
                | Some (ops', prev, pg) =>
                    Some (with_tasks s (upd_first t (set_status_groups prev pg) (ss_tasks s)), ops')
                | None => None
                end
          | None =>
              Some (mkSS (ss_jobs s) (upd_first t (set_piped n gs) (ss_tasks s)) (entry_set (ss_entries s) t n gs),
                    ops ++ [SPipe t n gs])
          end
      end
  end.

Fixpoint fold_opt {A B} (f : A -> B -> option A) (a : A) (l : list B) : option A :=
  match l with
  | [] => Some a
  | x :: r => match f a x with
              | Some a' => fold_opt f a' r
              | None => None
              end
  end.

Definition evict_all_gen (stale : list positive) (s : sstate) (ops : list sop) (ts : list positive) : option (sstate * list sop) :=
  fold_opt (fun so t => stmt_evict_gen stale (fst so) (snd so) t) (s, ops) ts.
Definition evict_all := evict_all_gen [].
Definition pipeline_all (s : sstate) (ops : list sop) (sim : list (positive * positive * list positive))
  : option (sstate * list sop) :=
  fold_opt (fun so r => stmt_pipeline (fst so) (snd so) r) (s, ops) sim.

(** * Commit *)

(** the Cache calls of a commit.  [VEvict] / [VBind]: the call was accepted by
    the cluster; [VEvictFailed] / [VBindFailed]: the call returned an error (it did
    not reach the cluster); [VPipe]: TaskPipelined (no error return). *)
Inductive vcall :=
| VEvict (t : positive) (a : vaction) (preemptor : positive)
| VPipe (t n : positive) (gs : list positive)
| VEvictFailed (t : positive) (a : vaction) (preemptor : positive)
| VBind (t n : positive) (gs : list positive)
| VBindFailed (t n : positive) (gs : list positive).

(** failure oracle of one Commit: does the k-th Cache.Evict / the k-th Cache.Bind
    call of this commit return an error (k counted from 0, per kind) *)
Record faults := mkF { f_evict : nat -> bool; f_bind : nat -> bool }.
Definition no_faults : faults := mkF (fun _ => false) (fun _ => false).

(** commitEvict's error path, as repaired by 5a5de9a: [evictOp.Reverse()], i.e.
    Statement.unevict(reclaimee, previousStatus, previousNode, previousGpuGroups,
    previousResourceClaimInfo, previousIsVirtualStatus) with the values the evict
    operation recorded when the pod was EVICTED: the pod gets its pre-eviction
    status and GPU groups back in its job; the previous node's copy of the pod is
    replaced by the pod as it is now (UpdateTask, or AddTask when the statement had
    moved the pod away), and the plugins' allocate handlers run (not modelled).
    unevict does not touch NodeName: a pod the statement re-placed on another node
    before its eviction was refused keeps the new node's name (and that node's
    copy), with its old status. *)
Definition unevict_state (s : sstate) (t : positive) (prev : status) (pg : list positive) (pn : positive) : sstate :=
  match get_task (ss_tasks s) t with
  | Some _ => mkSS (ss_jobs s) (upd_first t (set_status_groups prev pg) (ss_tasks s)) (entry_set (ss_entries s) t pn pg)
  | None => s
  end.
(** BEFORE repair 5a5de9a: unevict was called with previousStatus and
    previousGpuGroups read from the pod BY commitEvict, just before the Cache
    call - the status and groups the statement gave the pod (Releasing, or
    Pipelined on its new node when the statement re-placed it), not the ones the
    evict operation recorded.  So in the session the pod kept its status, groups
    and node name (it stayed Releasing for the rest of the cycle); only the
    previous node's copy of the pod was refreshed. *)
Definition unevict_state_commit_time (s : sstate) (t : positive) (pn : positive) : sstate :=
  match get_task (ss_tasks s) t with
  | Some tk => mkSS (ss_jobs s) (ss_tasks s) (entry_set (ss_entries s) t pn (vt_groups tk))
  | None => s
  end.
(** [restore = true]: the code as it is *)
Definition unevict_gen (restore : bool) (s : sstate) (t : positive) (prev : status) (pg : list positive) (pn : positive) : sstate :=
  if restore then unevict_state s t prev pg pn else unevict_state_commit_time s t pn.
(** commitAllocate's error path: cleanupFailedAllocation = unallocate: Pending, off the node *)
Definition unallocate_state (s : sstate) (t n : positive) : sstate :=
  mkSS (ss_jobs s) (upd_first t set_unallocated (ss_tasks s)) (entry_del (ss_entries s) t n).
(** Session.BindPod after an accepted Bind: Binding *)
Definition bound_state (s : sstate) (t : positive) : sstate :=
  with_tasks s (upd_first t (set_status Binding) (ss_tasks s)).

(** Statement.Commit, operation by operation ([ke] / [kb]: Evict / Bind calls issued so far):
    - invalid (undone) operations are skipped;
    - evict: commitEvict; when Cache.Evict fails the error is logged, the evict
      operation is reversed ([unevict_state]: the pod gets its pre-eviction status
      and groups back; [restore = false]: the code before repair 5a5de9a, which
      left the pod's status as it was at commit time) and THE LOOP CONTINUES with
      the next operation
      ([carry_on = true], the code as it is; [carry_on = false] is the variant
      that clears the operations and returns at the first refused eviction);
    - pipeline: Cache.TaskPipelined (cannot fail);
    - allocate: commitAllocate; when Cache.Bind fails: cleanupFailedAllocation,
      clearOperations, return - the remaining operations are dropped (and stay as
      they are in the session).
    Returns the calls and the session after the commit.
    Left out: commitEvict's "pod group not found" error (an evict operation only
    exists for a pod whose job is in the session, and jobs do not disappear during a cycle). *)
Fixpoint commit_run (carry_on restore : bool) (f : faults) (a : vaction) (pre : positive) (ke kb : nat)
         (s : sstate) (ops : list sop) : list vcall * sstate :=
  match ops with
  | [] => ([], s)
  | SEvict t prev pg pn true :: r =>
      if f_evict f ke then
        let s1 := unevict_gen restore s t prev pg pn in
        if carry_on then
          let '(cs, s2) := commit_run carry_on restore f a pre (S ke) kb s1 r in (VEvictFailed t a pre :: cs, s2)
        else ([VEvictFailed t a pre], s1)
      else
        let '(cs, s2) := commit_run carry_on restore f a pre (S ke) kb s r in (VEvict t a pre :: cs, s2)
  | SEvict _ _ _ _ false :: r => commit_run carry_on restore f a pre ke kb s r
  | SPipe t n gs :: r =>
      let '(cs, s2) := commit_run carry_on restore f a pre ke kb s r in (VPipe t n gs :: cs, s2)
  | SAlloc t n gs :: r =>
      if f_bind f kb then ([VBindFailed t n gs], unallocate_state s t n)
      else
        let '(cs, s2) := commit_run carry_on restore f a pre ke (S kb) (bound_state s t) r in (VBind t n gs :: cs, s2)
  end.

(** the calls of a commit in which every call is accepted *)
Definition commit_ops (a : vaction) (pre : positive) (ops : list sop) : list vcall :=
  flat_map (fun o => match o with
                     | SEvict t _ _ _ true => [VEvict t a pre]
                     | SEvict _ _ _ _ false => []
                     | SPipe t n gs => [VPipe t n gs]
                     | SAlloc t n gs => [VBind t n gs]
                     end) ops.

(** * One scenario of the by-pod solver *)

Record scenario := mkSc {
  sc_recorded : list positive;     (* victims of the partial solution found for fewer pending pods *)
  sc_potential : list positive;    (* potential victims accumulated from the victims queue *)
  sc_chosen : list positive;       (* VictimsTasksFromNodes(node under test): all task groups of the jobs with a potential victim there *)
  sc_seen : Z;                     (* consolidation: victims accepted by the filter so far *)
  sc_other_ok : bool;              (* verdict of the other registered validators (proportion: reclaimable) *)
}.

Definition sc_victims (sc : scenario) : list positive := sc_recorded sc ++ sc_potential sc.
Definition sc_evicted (sc : scenario) : list positive := sc_recorded sc ++ sc_chosen sc.

(** every victim pod is known and its job passed the action's victim filter *)
Fixpoint filter_all (env : venv) (s : sstate) (a : vaction) (seen : Z) (pre : vjob) (ts : list positive) : verdict :=
  match ts with
  | [] => V true
  | t :: r =>
      match job_of s t with
      | None => V false
      | Some j => match victim_filter env s a seen pre j with
                  | V true => filter_all env s a seen pre r
                  | o => o
                  end
      end
  end.

(** JobSolver.Solve: the pending job gained active pods and its gang is satisfied *)
Definition gang_satisfied (s : sstate) (j : vjob) : bool :=
  forallb (fun pm => snd pm <=? countb st_active_used (pset_tasks s (vj_id j) (fst pm))) (vj_psets j).
Definition job_solved (s0 s1 : sstate) (j : vjob) : bool :=
  gang_satisfied s1 j
  && (countb st_active_used (tasks_of_job s0 (vj_id j)) <? countb st_active_used (tasks_of_job s1 (vj_id j))).

Definition validate (env : venv) (s : sstate) (a : vaction) (pre : vjob) (sc : scenario) : verdict :=
  match a with
  | AConsolidation => V (all_pods_reallocated s (sc_victims sc))
  | APreempt => mrt_validator env s APreempt pre (sc_victims sc)
  | AReclaim => match mrt_validator env s AReclaim pre (sc_victims sc) with
                | V true => V (sc_other_ok sc)
                | o => o
                end
  end.

Inductive sresult :=
| Committed (calls : list vcall) (s' : sstate)
| Discarded
| NoVerdict.            (* the real code hangs or panics *)

(** [stale = []]: Statement.Evict as it is (guard of bce7109); [carry_on = true], [restore = true]: Commit as it is
    (repair 5a5de9a); [f]: the failure oracle of the commit *)
Definition run_scenario_gen (stale : list positive) (carry_on restore : bool) (f : faults) (env : venv) (a : vaction) (s : sstate) (pre : positive)
           (sc : scenario) (sim : list (positive * positive * list positive)) : sresult :=
  match find_job (ss_jobs s) pre with
  | None => Discarded
  | Some pj =>
      if negb (forallb (fun t => mem_pos t (sc_victims sc)) (sc_chosen sc)) then Discarded else
      match filter_all env s a (sc_seen sc) pj (sc_victims sc) with
      | V true =>
          match evict_all_gen stale s [] (sc_evicted sc) with
          | None => Discarded
          | Some (s1, ops1) =>
              match pipeline_all s1 ops1 sim with
              | None => Discarded
              | Some (s2, ops2) =>
                  match validate env s2 a pj sc with
                  | V true =>
                      if job_solved s s2 pj then
                        let '(calls, s3) := commit_run carry_on restore f a pre 0 0 s2 ops2 in Committed calls s3
                      else Discarded
                  | V false => Discarded
                  | _ => NoVerdict
                  end
              end
          end
      | V false => Discarded
      | _ => NoVerdict
      end
  end.

(** the code as it is, for any failure oracle; and without failures *)
Definition run_scenario_f (f : faults) := run_scenario_gen [] true true f.
Definition run_scenario := run_scenario_f no_faults.

(** * An action: any sequence of scenarios (the order is an oracle) *)

Record step := mkStep {
  sp_action : vaction; sp_preemptor : positive; sp_scenario : scenario;
  sp_sim : list (positive * positive * list positive);
  sp_faults : faults;              (* which Cache calls of this statement's commit fail *)
}.

(** commits accumulate (the session continues from the state the commit left: a pod
    whose eviction was refused is back to its pre-eviction status and can be chosen again); a discarded statement leaves the
    session as it was; [None]: the real code hangs or panics *)
Fixpoint run_steps (env : venv) (s : sstate) (steps : list step) : option (list (step * list vcall) * sstate) :=
  match steps with
  | [] => Some ([], s)
  | st :: r =>
      match run_scenario_f (sp_faults st) env (sp_action st) s (sp_preemptor st) (sp_scenario st) (sp_sim st) with
      | Committed calls s' =>
          match run_steps env s' r with
          | Some (cs, sf) => Some ((st, calls) :: cs, sf)
          | None => None
          end
      | Discarded => run_steps env s r
      | NoVerdict => None
      end
  end.
