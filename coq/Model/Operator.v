(** Model of the operator's deployment step (property C20, clause 4):
    pkg/operator/operands/deployable/deployable.go
      (DeployableOperands).Deploy, getDesiredState, getCurrentState,
      calculateActionsOnObjects, inheritFieldsFromCurrent,
      createObjectsInCluster / createObjectForKAIConfig (create, and on failure
      update to take ownership), deleteObjectsInCluster, updateObjectsInCluster,
      isUnmanaged
    as called from pkg/operator/controller/config_controller.go (Reconcile).

    Objects are abstract ([obj]); the model is parametric in
    - [obj_eqb]   reflect.DeepEqual on two objects,
    - [own]       SetOwnerReferences([]{reconciler}),
    - [norm]      what a later read returns for an object written as [o]
                  (JSON round trip, API defaulting),
    - [inherit]   the registered FieldInherit functions (current, desired),
    - [collected] whether the Collectables return a stored object (owner index;
                  the queue CRD is returned regardless of owner),
    - [unmanaged] isUnmanaged (the queues CRD),
    - the desired-state function (operands' DesiredState; it may read the store;
      [desired_of]: one renderer per key that sees the object currently stored
      under that key, as common.ObjectForKAIConfig does).
    The API store is an association list with unique keys
    (key = GVK/namespace/name).  Go's map iteration order is taken to be the
    list order; observables are compared as sorted lists.

    Left out: the kind-based creation order (ServiceAccounts first), API errors
    other than "already exists" on create, status reconciliation, Monitor. *)
From Coq Require Import List PArith Bool.
Import ListNotations.

Inductive call := CCreate (k : positive) | CUpdate (k : positive) | CDelete (k : positive).

Section Operator.
  Variable obj : Type.
  Variable obj_eqb : obj -> obj -> bool.
  Variable own : obj -> obj.
  Variable norm : obj -> obj.
  Variable inherit : obj -> obj -> obj.
  Variable collected : positive -> obj -> bool.
  Variable unmanaged : positive -> bool.

  Definition store := list (positive * obj).

  Fixpoint lookup (k : positive) (s : store) : option obj :=
    match s with
    | [] => None
    | (k', v) :: r => if Pos.eqb k' k then Some v else lookup k r
    end.

  Fixpoint set (k : positive) (v : obj) (s : store) : store :=
    match s with
    | [] => [(k, v)]
    | (k', v') :: r => if Pos.eqb k' k then (k, v) :: r else (k', v') :: set k v r
    end.

  Fixpoint remove (k : positive) (s : store) : store :=
    match s with
    | [] => []
    | (k', v') :: r => if Pos.eqb k' k then remove k r else (k', v') :: remove k r
    end.

  Definition has_key (k : positive) (l : list (positive * obj)) : bool :=
    existsb (fun kv => Pos.eqb (fst kv) k) l.

  (** getCurrentState: the stored object at [k] when the collectables return it *)
  Definition cur_lookup (k : positive) (s : store) : option obj :=
    match lookup k s with
    | Some c => if collected k c then Some c else None
    | None => None
    end.

  (** the object that is compared with the current one / written *)
  Definition rendered (s : store) (k : positive) (o : obj) : obj :=
    match cur_lookup k s with Some c => inherit c o | None => o end.

  (** calculateActionsOnObjects *)
  Definition to_create (d : list (positive * obj)) (s : store) : list (positive * obj) :=
    filter (fun kv => match cur_lookup (fst kv) s with None => true | Some _ => false end) d.

  Definition to_update (d : list (positive * obj)) (s : store) : list (positive * obj) :=
    flat_map (fun kv => match cur_lookup (fst kv) s with
                        | Some c => let x := inherit c (snd kv) in
                                    if obj_eqb c x then [] else [(fst kv, x)]
                        | None => []
                        end) d.

  Definition to_delete (d : list (positive * obj)) (s : store) : list positive :=
    map fst (filter (fun kv => collected (fst kv) (snd kv)
                               && negb (has_key (fst kv) d) && negb (unmanaged (fst kv))) s).

  (** createObjectForKAIConfig: Create; "already exists" (an object that is not
      ours) falls back to Update *)
  Definition create_calls (s : store) (kv : positive * obj) : list call :=
    match lookup (fst kv) s with
    | Some _ => [CCreate (fst kv); CUpdate (fst kv)]
    | None => [CCreate (fst kv)]
    end.

  Definition written_create (o : obj) : obj := norm (own o).
  Definition written_update (k : positive) (x : obj) : obj := norm (if unmanaged k then x else own x).

  Definition apply_creates (l : list (positive * obj)) (s : store) : store :=
    fold_left (fun s kv => set (fst kv) (written_create (snd kv)) s) l s.
  Definition apply_deletes (l : list positive) (s : store) : store :=
    fold_left (fun s k => remove k s) l s.
  Definition apply_updates (l : list (positive * obj)) (s : store) : store :=
    fold_left (fun s kv => set (fst kv) (written_update (fst kv) (snd kv)) s) l s.

  (** Deploy with desired state [d]: the API calls issued and the store afterwards *)
  Definition deploy_with (d : list (positive * obj)) (s : store) : list call * store :=
    let cr := to_create d s in
    let de := to_delete d s in
    let up := to_update d s in
    (flat_map (create_calls s) cr ++ map CDelete de ++ map (fun kv => CUpdate (fst kv)) up,
     apply_updates up (apply_deletes de (apply_creates cr s))).

  Definition deploy (desired : store -> list (positive * obj)) (s : store) : list call * store :=
    deploy_with (desired s) s.

  (** Operands render each object from the configuration and, like
      common.ObjectForKAIConfig, on top of the object currently stored under
      the same key ([None] when there is none): one renderer per key. *)
  Definition renderer := option obj -> obj.

  Definition desired_of (rs : list (positive * renderer)) (s : store) : list (positive * obj) :=
    map (fun kr => (fst kr, snd kr (lookup (fst kr) s))) rs.

  (** what Deploy compares / writes for key [k] when the stored object is [b] *)
  Definition render_at (k : positive) (r : renderer) (b : option obj) : obj :=
    match b with
    | Some c => if collected k c then inherit c (r b) else r b
    | None => r b
    end.

  Definition deploy_rendered (rs : list (positive * renderer)) (s : store) : list call * store :=
    deploy (desired_of rs) s.
End Operator.
