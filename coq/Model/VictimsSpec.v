(** Declarative side of C06: what the documentation says the applicable
    min-runtime is (docs/plugins/minruntime.md, docs/developer/designs/min-runtime),
    and what "eligible victim" means in the property text.  Written independently
    of the control flow of resolver.go (no root-first paths, no indices). *)
From Coq Require Import List ZArith Bool PArith.
From KaiV Require Import Model.Status Model.Victims.
Import ListNotations.
Open Scope Z_scope.

(** [q], its parent, its grand-parent, ... (at most [fuel] queues) *)
Fixpoint ancestors (fuel : nat) (qs : qtree) (q : vqueue) : list vqueue :=
  match fuel with
  | O => []
  | S f => q :: match qparent qs q with
                | Some p => ancestors f qs p
                | None => []
                end
  end.

(** "Starting from the leaf-queue, walk the tree until the first defined
    min-runtime is set and use that"; the plugin default when none is. *)
Definition doc_walk (sel : vqueue -> option Z) (qs : qtree) (dflt : Z) (q : vqueue) : Z :=
  or_default (first_set sel (ancestors (fuel_of qs) qs q)) dflt.

Definition in_queues (l : list vqueue) (x : vqueue) : bool :=
  existsb (fun y => Pos.eqb (vq_id y) (vq_id x)) l.

Fixpoint take_while {A} (p : A -> bool) (l : list A) : list A :=
  match l with
  | [] => []
  | x :: r => if p x then x :: take_while p r else []
  end.
Fixpoint last_opt {A} (l : list A) : option A :=
  match l with
  | [] => None
  | [x] => Some x
  | _ :: r => last_opt r
  end.

(** LCA rule: "1. resolve the lowest common ancestor between the leaf queues of
    preemptor and preemptee; 2. walk one step down to the child of the LCA that is
    an ancestor of the preemptee's leaf queue (or is the leaf queue); 3. use the
    reclaim-min-runtime of this queue if it is set, otherwise move back up
    towards the root"; top-level queues are siblings under an implicit root.
    The victim's ancestors-or-self that are not ancestors-or-self of the
    reclaimer are exactly the victim-side branch below the LCA; its topmost
    queue is the child of step 2 (the victim's queue itself when the branch is
    empty). *)
Definition doc_lca_start (qs : qtree) (r e : vqueue) : vqueue :=
  let ar := ancestors (fuel_of qs) qs r in
  let ae := ancestors (fuel_of qs) qs e in
  match last_opt (take_while (fun x => negb (in_queues ar x)) ae) with
  | Some c => c
  | None => e
  end.
Definition doc_reclaim_lca (qs : qtree) (dflt : Z) (r e : vqueue) : Z :=
  doc_walk vq_reclaim qs dflt (doc_lca_start qs r e).

(** the documented duration for an (action, pending job's queue, victim's queue);
    a job whose queue does not exist gets the default; consolidation is not
    mentioned by the plugin: a consolidation victim counts as inside its minimum
    runtime only when it is inside both the preempt and the reclaim one *)
Definition doc_preempt (env : venv) (victim : vjob) : Z :=
  match qlookup (ve_queues env) (vj_queue victim) with
  | Some q => doc_walk vq_preempt (ve_queues env) (ve_dpre env) q
  | None => ve_dpre env
  end.
Definition doc_reclaim (env : venv) (pending victim : vjob) : Z :=
  match qlookup (ve_queues env) (vj_queue pending), qlookup (ve_queues env) (vj_queue victim) with
  | Some r, Some e =>
      if ve_lca env then doc_reclaim_lca (ve_queues env) (ve_drec env) r e
      else doc_walk vq_reclaim (ve_queues env) (ve_drec env) e
  | _, _ => ve_drec env
  end.
Definition doc_duration (env : venv) (a : vaction) (pending victim : vjob) : Z :=
  match a with
  | APreempt => doc_preempt env victim
  | AReclaim => doc_reclaim env pending victim
  | AConsolidation => Z.min (doc_preempt env victim) (doc_reclaim env pending victim)
  end.

(** the workload is still inside the minimum runtime that applies *)
Definition inside_min_runtime (env : venv) (a : vaction) (pending victim : vjob) : bool :=
  within (ve_now env) (vj_start victim) (doc_duration env a pending victim).

(** pods of a pod set that are live after the decision: active and not terminating *)
Definition live_count (s : sstate) (j ps : positive) : Z := countb st_active_alloc (pset_tasks s j ps).

(** the pods the committed calls evict *)
Definition evicted_ids (calls : list vcall) : list positive :=
  flat_map (fun c => match c with VEvict t _ _ => [t] | _ => [] end) calls.

(** a queue tree without parent cycles: some rank decreases along every parent link *)
Definition acyclic (qs : qtree) : Prop :=
  exists rank : positive -> nat,
    forall q p, qlookup qs (vq_id q) = Some q -> qparent qs q = Some p -> (rank (vq_id p) < rank (vq_id q))%nat.
