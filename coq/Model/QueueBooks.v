(** Queue books over a whole scheduling cycle (property C14).

    The proportion plugin keeps, per queue, Allocated / AllocatedNotPreemptible
    (bumped by the allocate / deallocate handlers along the parent chain) and
    Request (seeded once, at session open, by updateQueuesCurrentResourceUsage).
    This file states the ground truth those books are meant to equal --
    recomputed from the pods and their CURRENT statuses -- and the events of a
    cycle that move pods between statuses:

    - Statement.Allocate / Statement.Pipeline: status := Allocated / Pipelined,
      AcceptedResource := what the node accepted, allocate handler ([BPlace]);
    - Statement.Evict (-> Releasing) and the undo of a placement (unallocate /
      unpipeline, -> Pending): deallocate handler with the pod's
      AcceptedResource ([BUnplace]);
    - status changes that fire no handler (Commit: Allocated -> Binding, ...),
      allowed between statuses of the same class ([BMove]).

    A pod "holds" resources when its status is in
    pod_status.IsActiveAllocatedStatus (Allocated, Pipelined, Binding, Bound,
    Running).  The cluster snapshot never yields Pipelined pods, so at session
    open that class coincides with pod_status.AllocatedStatus, the class
    [load_init] of Model/Capacity.v charges.

    The second part models, in float64-like extended numbers (finite, +Inf,
    NaN), the GPU share a Pending gpu-memory pod adds to Request:
    count * (gpuMemory / divisor), with the divisor either
    ClusterInfo.MinNodeGPUMemory (the code) or a field that is still 0 at that
    point (NOT the code: seeded/C14-5). *)
From Coq Require Import List ZArith QArith Qreduction Bool.
From KaiV Require Import Model.Status Model.Capacity Model.CapacitySpec.
Import ListNotations.
Open Scope Q_scope.

(** pod_status.IsActiveAllocatedStatus *)
Definition holds (st : status) : bool := allocated_status st || status_eqb st Pipelined.

(** * Ground truth, recomputed from the pods and their current statuses *)

Definition pod_part (np : bool) (qs : list queue) (a : positive) (r : res) (p : spod) : Q :=
  if holds (sp_status p) && in_subtree qs a (sp_queue p) && (negb np || negb (sp_preempt p))
  then rget (sp_accepted p) r else 0.

Definition recomputed (np : bool) (qs : list queue) (ps : list spod) (a : positive) (r : res) : Q :=
  fold_right (fun p acc => pod_part np qs a r p + acc) 0 ps.

(** Request, as seeded at session open: allocated-class pods with what they
    hold, Pending pods with what they ask for *)
Definition req_part (qs : list queue) (a : positive) (r : res) (p : spod) : Q :=
  if in_subtree qs a (sp_queue p)
  then match snapshot_class (sp_status p) with
       | SnapAllocated => rget (sp_accepted p) r
       | SnapPending => rget (sp_request p) r
       | SnapIgnored => 0
       end
  else 0.

Definition recomputed_request (qs : list queue) (ps : list spod) (a : positive) (r : res) : Q :=
  fold_right (fun p acc => req_part qs a r p + acc) 0 ps.

(** * The books and the events of a cycle *)

Record bstate := { b_queues : list queue; b_req : reqmap; b_pods : list spod }.

Inductive bevent :=
| BPlace (tid : positive) (pipeline : bool) (c : rq)
| BUnplace (tid : positive) (st : status)
| BMove (tid : positive) (st : status).

Definition find_pod (tid : positive) (ps : list spod) : option spod :=
  find (fun p => Pos.eqb (sp_task p) tid) ps.

(** in-place update of the pod [tid] *)
Definition set_pod (tid : positive) (f : spod -> spod) (ps : list spod) : list spod :=
  map (fun p => if Pos.eqb (sp_task p) tid then f p else p) ps.

Definition with_status (st : status) (p : spod) : spod :=
  {| sp_task := sp_task p; sp_queue := sp_queue p; sp_preempt := sp_preempt p;
     sp_status := st; sp_accepted := sp_accepted p; sp_request := sp_request p |}.

Definition with_placed (st : status) (c : rq) (p : spod) : spod :=
  {| sp_task := sp_task p; sp_queue := sp_queue p; sp_preempt := sp_preempt p;
     sp_status := st; sp_accepted := c; sp_request := sp_request p |}.

Definition placed_status (pipeline : bool) : status := if pipeline then Pipelined else Allocated.

Definition do_bevent (fuel : nat) (s : bstate) (e : bevent) : result bstate :=
  match e with
  | BPlace tid pipeline c =>
      match find_pod tid (b_pods s) with
      | None => Done s
      | Some p =>
          if holds (sp_status p) then Done s
          else match alloc_handler fuel (b_queues s) (sp_queue p) (sp_preempt p) c with
               | Done qs => Done {| b_queues := qs; b_req := b_req s;
                                    b_pods := set_pod tid (with_placed (placed_status pipeline) c) (b_pods s) |}
               | OutOfFuel => OutOfFuel
               | Panic => Panic
               end
      end
  | BUnplace tid st =>
      match find_pod tid (b_pods s) with
      | None => Done s
      | Some p =>
          if holds (sp_status p) && negb (holds st)
          then match dealloc_handler fuel (b_queues s) (sp_queue p) (sp_preempt p) (sp_accepted p) with
               | Done qs => Done {| b_queues := qs; b_req := b_req s;
                                    b_pods := set_pod tid (with_status st) (b_pods s) |}
               | OutOfFuel => OutOfFuel
               | Panic => Panic
               end
          else Done s
      end
  | BMove tid st =>
      match find_pod tid (b_pods s) with
      | None => Done s
      | Some p =>
          if Bool.eqb (holds (sp_status p)) (holds st)
          then Done {| b_queues := b_queues s; b_req := b_req s;
                       b_pods := set_pod tid (with_status st) (b_pods s) |}
          else Done s
      end
  end.

Fixpoint brun (fuel : nat) (s : bstate) (es : list bevent) : result bstate :=
  match es with
  | [] => Done s
  | e :: r => match do_bevent fuel s e with
              | Done s1 => brun fuel s1 r
              | OutOfFuel => OutOfFuel
              | Panic => Panic
              end
  end.

(** session open: updateQueuesCurrentResourceUsage over the snapshot's pods *)
Definition b_open (fuel : nat) (qs : list queue) (ps : list spod) : result bstate :=
  match load_init fuel {| s_queues := qs; s_ledger := [] |} ps with
  | Done s =>
      match load_requests fuel qs [] ps with
      | Done m => Done {| b_queues := s_queues s; b_req := m; b_pods := ps |}
      | OutOfFuel => OutOfFuel
      | Panic => Panic
      end
  | OutOfFuel => OutOfFuel
  | Panic => Panic
  end.

(** the books are exact: Allocated / AllocatedNotPreemptible of every queue equal
    what the pods currently holding resources in its subtree add up to *)
Definition bexact (s : bstate) : Prop :=
  forall q, In q (b_queues s) -> forall r,
    rget (q_alloc q) r == recomputed false (b_queues s) (b_pods s) (q_id q) r /\
    rget (q_np q) r == recomputed true (b_queues s) (b_pods s) (q_id q) r.

(** the cluster snapshot never yields Pipelined pods *)
Definition no_pipelined (ps : list spod) : bool :=
  forallb (fun p => negb (status_eqb (sp_status p) Pipelined)) ps.

(** * Extended numbers: float64 as finite / +Inf / NaN *)

Inductive xq := XFin (q : Q) | XInf | XNaN.

Definition xadd (a b : xq) : xq :=
  match a, b with
  | XNaN, _ | _, XNaN => XNaN
  | XInf, _ | _, XInf => XInf
  | XFin x, XFin y => XFin (Qred (x + y))
  end.

(** x / d for x >= 0 *)
Definition xdiv_pos (x : Q) (d : Z) : xq :=
  if (d =? 0)%Z then (if Qeq_bool x 0 then XNaN else XInf) else XFin (x / inject_Z d).

Definition xmul_z (n : Z) (x : xq) : xq :=
  match x with
  | XFin q => XFin (inject_Z n * q)
  | XInf => if (n =? 0)%Z then XNaN else XInf
  | XNaN => XNaN
  end.

(** GPU share a PENDING pod asks for, as updateQueuesCurrentResourceUsage
    computes it with divisor [d] *)
Definition pending_gpu_x (d : Z) (t : task) : xq :=
  match t_type t with
  | GpuMemory =>
      xadd (XFin (r_gpu (job_task_request t)))
           (xmul_z (g_count (t_gpu t)) (xdiv_pos (inject_Z (g_memory (t_gpu t))) d))
  | _ => XFin (r_gpu (job_task_request t))
  end.

(** requested GPU of queue [a] in extended numbers: the pending tasks (each
    with its job's queue) of the subtree *)
Definition requested_gpu_x (qs : list queue) (d : Z) (pend : list (task * positive)) (a : positive) : xq :=
  fold_right (fun tq acc => if in_subtree qs a (snd tq) then xadd (pending_gpu_x d (fst tq)) acc else acc)
             (XFin 0) pend.

(** a gpu-memory request names a positive amount of memory on a positive number of devices *)
Definition gpu_memory_sane (tq : task * positive) : bool :=
  match t_type (fst tq) with
  | GpuMemory => (0 <? g_memory (t_gpu (fst tq)))%Z && (0 <? g_count (t_gpu (fst tq)))%Z
  | _ => true
  end.
