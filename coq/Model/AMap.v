(** Finite maps with [positive] keys as key-sorted association lists
    (canonical: extensionally equal maps built by [aset]/[adel] from [[]]
    are structurally equal). *)
From Coq Require Import List PArith ZArith Bool.
Import ListNotations.

Definition amap (V : Type) := list (positive * V).

Fixpoint alookup {V} (k : positive) (m : amap V) : option V :=
  match m with
  | [] => None
  | (k', v) :: r => if Pos.eqb k k' then Some v else alookup k r
  end.

Fixpoint aset {V} (k : positive) (v : V) (m : amap V) : amap V :=
  match m with
  | [] => [(k, v)]
  | (k', v') :: r =>
      match Pos.compare k k' with
      | Lt => (k, v) :: m
      | Eq => (k, v) :: r
      | Gt => (k', v') :: aset k v r
      end
  end.

Fixpoint adel {V} (k : positive) (m : amap V) : amap V :=
  match m with
  | [] => []
  | (k', v') :: r => if Pos.eqb k k' then r else (k', v') :: adel k r
  end.

Definition amem {V} (k : positive) (m : amap V) : bool :=
  match alookup k m with Some _ => true | None => false end.

(** lookup with the Go zero value for a missing key *)
Definition zget (k : positive) (m : amap Z) : Z :=
  match alookup k m with Some v => v | None => 0%Z end.

(** Go's [m[k] += d] (creates the key) *)
Definition zadd (k : positive) (d : Z) (m : amap Z) : amap Z := aset k (zget k m + d)%Z m.

Definition akeys {V} (m : amap V) : list positive := map fst m.

Fixpoint amap_eqb {V} (e : V -> V -> bool) (a b : amap V) : bool :=
  match a, b with
  | [], [] => true
  | (k, v) :: r, (k', v') :: r' => Pos.eqb k k' && e v v' && amap_eqb e r r'
  | _, _ => false
  end.

Fixpoint amap_eqb2 {V W} (e : V -> W -> bool) (a : amap V) (b : amap W) : bool :=
  match a, b with
  | [], [] => true
  | (k, v) :: r, (k', v') :: r' => Pos.eqb k k' && e v v' && amap_eqb2 e r r'
  | _, _ => false
  end.
