(** Model of the scheduling-signature shortcut (property C05):
    - pkg/scheduler/actions/common/minimal_job_comparison.go
        MinimalJobRepresentatives.IsEasierToSchedule / UpdateRepresentative,
        jobEasierToScheduleComparison, isPodGroupFootprintSmaller,
        extractSortedResourceRequests
    - pkg/scheduler/api/resource_info: ResourceRequirements.LessEqual
        (BaseResource.LessEqual + GpuResourceRequirement.LessEqual: device
        count and portion compared separately)
    - the loops of pkg/scheduler/actions/reclaim/reclaim.go and
      actions/preempt/preempt.go around the solver of Model/Progress.v:
        reclaim: CanReclaimResources gate (a refused job is NOT recorded),
                 signature skip, solver, UpdateRepresentative on failure;
        preempt: signature skip, IsNonPreemptibleJobOverQueueQuotaFn gate and
                 solver (attemptToPreemptForPreemptor), UpdateRepresentative on
                 failure of either.
      (consolidation.go uses the same shortcut with one map for all queues.)

    What the signature key covers (pod_info.schedulingConstraintsSignature,
    PodSet / PodGroupInfo.GetSchedulingConstraintsSignature): per pending pod
    its storage classes, node selector, affinity, tolerations, the POD's
    priorityClassName / priority, topology spread constraints, host ports;
    per pod set the topology constraints.  The key is an opaque [positive]
    here.  What it does not cover and the comparison does not look at: the
    pod group's priority, its preemptibility, its queue-level gates and how
    many of the pending pods must be placed (minMember): these are fields of
    [pjob] / answers of the oracles below.

    sort.Slice with the non-strict partial order LessEqual as "less" is
    modelled by a stable insertion sort; the two agree when the requests of a
    job are totally ordered by LessEqual (the correspondence check generates
    only such jobs; the refutation witness has equal requests).
    lessEqualWithMinDiff's tolerance on GPU portions is not modelled. *)
From Coq Require Import List ZArith PArith Bool.
From KaiV Require Import Model.Progress.
Import ListNotations.
Open Scope Z_scope.

(** ResourceRequirements as far as LessEqual reads it (scalar resources: every
    pod carries the same keys in the generated inputs) *)
Record sreq := mkSR { sr_cpu : Z; sr_mem : Z; sr_gcount : Z; sr_gportion : Z (* 1/1000 *); sr_mig : Z }.

Definition sle (a b : sreq) : bool :=
  (sr_cpu a <=? sr_cpu b) && (sr_mem a <=? sr_mem b) && (sr_gcount a <=? sr_gcount b)
  && (sr_gportion a <=? sr_gportion b) && ((sr_mig a =? 0) || (sr_mig a <=? sr_mig b)).

(** extractSortedResourceRequests *)
Fixpoint sinsert (x : sreq) (l : list sreq) : list sreq :=
  match l with
  | [] => [x]
  | y :: r => if sle y x then y :: sinsert x r else x :: l
  end.
Definition ssort (l : list sreq) : list sreq := fold_left (fun acc x => sinsert x acc) l [].

(** the loop of jobEasierToScheduleComparison over the two sorted slices *)
Fixpoint easier_loop (s1 s2 : list sreq) : bool :=
  match s1 with
  | [] => false
  | a :: r1 =>
      match s2 with
      | [] => false
      | b :: r2 => if sle a b then (if sle b a then easier_loop r1 r2 else true) else easier_loop r1 r2
      end
  end.

(** jobEasierToScheduleComparison(pg1, pg2) on the pending pods' requests *)
Definition job_easier (p1 p2 : list sreq) : bool :=
  match p1, p2 with
  | [], _ | _, [] => false
  | _, _ =>
      if (List.length p1 <? List.length p2)%nat then true
      else easier_loop (ssort p1) (ssort p2)
  end.

Fixpoint all_sle (s1 s2 : list sreq) : bool :=
  match s1 with
  | [] => true
  | a :: r1 => match s2 with
               | [] => false      (* unreachable: len1 <= len2 was checked *)
               | b :: r2 => sle a b && all_sle r1 r2
               end
  end.
(** isPodGroupFootprintSmaller(pg1, pg2) *)
Definition footprint_smaller (p1 p2 : list sreq) : bool :=
  match p1, p2 with
  | [], _ | _, [] => false
  | _, _ =>
      if (List.length p2 <? List.length p1)%nat then false
      else all_sle (ssort p1) (ssort p2)
  end.

(** MinimalJobRepresentatives: signature -> pending requests of the representative (and who it is) *)
Definition reps := list (positive * (positive * list sreq)).

Fixpoint rep_find (key : positive) (m : reps) : option (positive * list sreq) :=
  match m with
  | [] => None
  | (k, v) :: r => if Pos.eqb key k then Some v else rep_find key r
  end.
Fixpoint rep_set (key : positive) (v : positive * list sreq) (m : reps) : reps :=
  match m with
  | [] => [(key, v)]
  | (k, v') :: r => if Pos.eqb key k then (k, v) :: r else (k, v') :: rep_set key v r
  end.

(** IsEasierToSchedule: (easier, representative) *)
Definition is_easier_to_schedule (m : reps) (key : positive) (pending : list sreq) : bool * option positive :=
  match rep_find key m with
  | None => (true, None)
  | Some (rid, rp) => (job_easier pending rp, Some rid)
  end.

(** UpdateRepresentative *)
Definition update_representative (m : reps) (key : positive) (jid : positive) (pending : list sreq) : reps :=
  match rep_find key m with
  | Some (_, rp) => if footprint_smaller pending rp then rep_set key (jid, pending) m else m
  | None => rep_set key (jid, pending) m
  end.

(** * The reclaim and preempt loops with the shortcut *)

(** smallestFailedJobsByQueue: queue -> representatives *)
Definition qreps := list (positive * reps).
Fixpoint qrep_find (q : positive) (m : qreps) : reps :=
  match m with
  | [] => []
  | (k, v) :: r => if Pos.eqb q k then v else qrep_find q r
  end.
Fixpoint qrep_set (q : positive) (v : reps) (m : qreps) : qreps :=
  match m with
  | [] => [(q, v)]
  | (k, v') :: r => if Pos.eqb q k then (k, v) :: r else (k, v') :: qrep_set q v r
  end.

Section Actions.
  Variable vfilter : pjob -> rjob -> bool.
  Variable sfilter : vstate -> pjob -> list rjob -> bool.
  Variable valid : vstate -> pjob -> list rjob -> bool.
  Variable ahead : vstate -> pjob -> list rjob -> nat.
  (** SchedulerParams.UseSchedulingSignatures *)
  Variable use_sigs : bool.
  (** requests of the job's pending pods *)
  Variable pending : pjob -> list sreq.
  (** Session.CanReclaimResources (proportion: Reclaimable.CanReclaimResources) *)
  Variable can_reclaim : vstate -> pjob -> bool.
  (** IsNonPreemptibleJobOverQueueQuotaFn: true = schedulable *)
  Variable np_gate : vstate -> pjob -> bool.

  Definition skipped (m : qreps) (p : pjob) : bool :=
    use_sigs && negb (fst (is_easier_to_schedule (qrep_find (pj_queue p) m) (pj_sig p) (pending p))).
  Definition record_failure (m : qreps) (p : pjob) : qreps :=
    qrep_set (pj_queue p) (update_representative (qrep_find (pj_queue p) m) (pj_sig p) (pj_id p) (pending p)) m.

  (** attemptToReclaimForSpecificJob *)
  Definition reclaim_try (st : vstate) (p : pjob) : option vstate :=
    solve_and_commit sfilter valid ahead st p (reclaim_victims vfilter st p).
  (** attemptToPreemptForPreemptor *)
  Definition preempt_try (st : vstate) (p : pjob) : option vstate :=
    if np_gate st p then solve_and_commit sfilter valid ahead st p (preempt_victims vfilter st p) else None.

  Definition reclaim_step (s : vstate * qreps) (p : pjob) : vstate * qreps :=
    let (st, m) := s in
    if can_reclaim st p then
      if skipped m p then s
      else match reclaim_try st p with
           | Some st' => (st', m)
           | None => (st, record_failure m p)
           end
    else s.

  Definition preempt_step (s : vstate * qreps) (p : pjob) : vstate * qreps :=
    let (st, m) := s in
    if skipped m p then s
    else match preempt_try st p with
         | Some st' => (st', m)
         | None => (st, record_failure m p)
         end.

  (** the pop order of the pending jobs is the list *)
  Definition reclaim_action (st : vstate) (ps : list pjob) : vstate * qreps := fold_left reclaim_step ps (st, []).
  Definition preempt_action (st : vstate) (ps : list pjob) : vstate * qreps := fold_left preempt_step ps (st, []).
End Actions.
