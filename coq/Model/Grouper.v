(** Executable model of the pod-grouper (property C18).

    Go code modelled (as it is):
    - pkg/podgrouper/pod_controller.go: PodReconciler.Reconcile (orphan check,
      GetPodOwners, GetPGMetadata, addNodePoolLabel, ApplyToCluster,
      assignPodToGroupAndSubGroup), isOrphanPodWithPodGroup;
    - pkg/podgrouper/podgrouper/podgrouper.go: GetPodOwners, getResourceOwners
      (first owner reference only, uid check, multi-owner error, 403 fall-back
      to the last readable owner or to the pod), getPodAsResourceOwner, GetPGMetadata;
    - pkg/podgrouper/podgrouper/hub/hub.go: GetPodGrouperPlugin (exact GVK, then
      wildcard version, then default) with the whole table of NewDefaultPluginsHub;
    - plugins/defaultgrouper/default_grouper.go: GetPodGroupMetadata,
      CalcPodGroupName/Annotations/Labels/Queue, calculateQueueName,
      calcPriorityClassWithDefaults, calcPodGroupPreemptibilityWithDefaults,
      CalcPodGroupPriorityClass, the defaults config map (selectDefaultsForKind, ...);
    - plugins/skiptopowner/skiptopowner.go: GetPodGroupMetadata,
      propagateMetadataDownChain, getSupportedTypePGMetadata (exact lookup only);
    - plugins/deployment, plugins/job (searchForLegacyPodGroups = false), plugins/podjob;
    - pkg/podgrouper/podgroup/handler.go + updater.go: ApplyToCluster,
      createPodGroupForMetadata, ignoreFields, podGroupsEqual,
      mapsEqualBySourceKeys, updatePodGroup, copyStringMap.

    The API round trip (json omitempty: empty slice <-> nil, empty map <-> nil)
    is the explicit function [norm], applied on every write to the store.
    The handler is modelled in its two versions, before and after the repair
    9775a95 (flags [sg] of [ignore_fields] and [lenfix] of
    [maps_equal_by_source_keys]); [ignore_sg] / [pg_equal] select the current one.
    Two later repairs have a switch each, in the same style:
    - [af] (8227120, CalcPodGroupAnnotations): the pod-group-name annotation is
      deleted from the PodGroup annotations after the top owner's annotations
      were copied ([calc_annots_with]; [annot_fix] is the current value);
    - [pf] (3f1c7d2, assignPodToGroupAndSubGroup): no patch when the pod already
      carries the group's name and no sub-group is expected, whatever sub-group
      label it has ([needs_patch_with]; [patch_fix] is the current value).
    Every definition without the suffix [_with] is the code as it is.
    podGroupsEqual compares labels and annotations with [mapsEqualBySourceKeys(new, old)]:
    source = what the grouper computes, target = the stored PodGroup, whose further keys (the
    scheduler's timestamp annotations, an administrator's labels, keys removed from the owner
    later) are ignored. The stored PodGroup carries arbitrary label / annotation maps and a
    foreign update ([foreign_upd]: [f_labels], [f_annots]) may set or delete any key of them.
    [pg_equal_swapped] - the two map arguments exchanged - is NOT a version of the code.
    The last section holds what the history theorems need: the grouper-owned projection of a PodGroup
    ([owned_view], [owned_agreeb]), histories ([hevent]: reconciles, foreign updates, edited owner objects,
    overwritten and deleted PodGroups; [hrun]) and [reconcile_early_return] - Reconcile returning before
    ApplyToCluster for an already assigned pod, the seeded change C18-3 - which is NOT a version of the code.

    Left out / oracles: all other plugins (kubeflow, ray, spark, jobset, grove,
    lws, knative, cronjob, runaijob, aml, spotrequest, notebook) give
    [MdUnmodelled]; the YAML rendering of the top-owner metadata annotation is an
    oracle value carried by each object ([o_tom]); strings.ToLower is ASCII only;
    API errors other than NotFound / Forbidden / uid mismatch; Spec.Parallelism,
    Completions, BackoffLimit (never set by the grouper); the namespace (fixed);
    pod.Spec.SchedulerName filter; the deletion-timestamp branch (it only
    changes the returned error); the legacy pod-group search of the Job plugin.
    Go maps are association lists read through [lookup] (first binding wins);
    nil-able maps/slices are [option]. *)
From Coq Require Import List String Ascii ZArith Bool Arith.
Import ListNotations.
Open Scope string_scope.

(** * Association lists *)
Section AList.
  Context {A : Type}.
  Fixpoint lookup (k : string) (m : list (string * A)) : option A :=
    match m with
    | [] => None
    | (k', v) :: r => if String.eqb k k' then Some v else lookup k r
    end.
  Fixpoint aset (k : string) (v : A) (m : list (string * A)) : list (string * A) :=
    match m with
    | [] => [(k, v)]
    | (k', v') :: r => if String.eqb k k' then (k, v) :: r else (k', v') :: aset k v r
    end.
  Fixpoint adel (k : string) (m : list (string * A)) : list (string * A) :=
    match m with
    | [] => []
    | (k', v') :: r => if String.eqb k k' then adel k r else (k', v') :: adel k r
    end.
End AList.

Definition smap := list (string * string).

(** Go: [m[k]] on a possibly nil map *)
Definition mget (k : string) (m : option smap) : option string :=
  match m with None => None | Some l => lookup k l end.

(** Go: [for k, v := range source { target[k] = v }] — each key once, with the value the map holds for it *)
Definition copy_into (source target : smap) : smap :=
  fold_left (fun t kv => match lookup (fst kv) source with
                         | Some v => aset (fst kv) v t
                         | None => t
                         end) source target.

(** * Objects *)
Record gvk := { g_group : string; g_version : string; g_kind : string }.
Record oref := { r_gvk : gvk; r_name : string; r_uid : string }.
Record obj := {
  o_gvk : gvk; o_name : string; o_uid : string;
  o_labels : smap; o_annots : smap;
  o_owners : list oref;
  o_tom : string   (* oracle: YAML of topowner.GetTopOwnerMetadata(o) *)
}.
Record pod := {
  p_name : string; p_uid : string;
  p_labels : smap;
  p_annots : smap;          (* annotations the pod was created with *)
  p_prio : string;          (* spec.priorityClassName *)
  p_owners : list oref;
  p_tom : string            (* oracle, for the pod seen as a v1/Pod object *)
}.

Record cm_entry := { e_type : string; e_group : string; e_prio : string; e_preempt : string }.
Inductive cm_state := CmNone | CmError | CmEntries (l : list cm_entry).
Record config := {
  c_queue_key : string;
  c_nodepool_key : string;
  c_prio_classes : list string;      (* existing PriorityClass objects *)
  c_defaults : cm_state;             (* the defaults-per-type config map *)
  c_forbidden : list string          (* kinds the uncached client may not GET *)
}.

Definition gvk_eqb (a b : gvk) : bool :=
  String.eqb (g_group a) (g_group b) && String.eqb (g_version a) (g_version b)
  && String.eqb (g_kind a) (g_kind b).
Definition pod_gvk : gvk := {| g_group := ""; g_version := "v1"; g_kind := "Pod" |}.

Definition pg_annotation_key := "pod-group-name".
Definition subgroup_label_key := "kai.scheduler/subgroup-name".
Definition tom_key := "kai.scheduler/top-owner-metadata".
Definition user_key := "user".
Definition project_key := "project".
Definition priority_key := "priorityClassName".
Definition preempt_key := "kai.scheduler/preemptibility".

(** the pod's annotations as the API holds them: [a] is the pod-group
    annotation written by earlier reconciles, if any *)
Definition cur_annots (p : pod) (a : option string) : smap :=
  match a with None => p_annots p | Some n => aset pg_annotation_key n (p_annots p) end.

(** the pod as an owner object (getPodAsResourceOwner + client.Get of it) *)
Definition pod_obj (p : pod) (a : option string) : obj :=
  {| o_gvk := pod_gvk; o_name := p_name p; o_uid := p_uid p; o_labels := p_labels p;
     o_annots := cur_annots p a; o_owners := p_owners p; o_tom := p_tom p |}.

(** * GetPodOwners *)
Fixpoint find_obj (cl : list obj) (g : gvk) (name : string) : option obj :=
  match cl with
  | [] => None
  | o :: r => if gvk_eqb (o_gvk o) g && String.eqb (o_name o) name then Some o else find_obj r g name
  end.

Inductive get_res := GFound (o : obj) | GForbidden | GError.

(** getOwnerInstance through the uncached client *)
Definition get_owner (cfg : config) (cl : list obj) (r : oref) : get_res :=
  if existsb (String.eqb (g_kind (r_gvk r))) (c_forbidden cfg) then GForbidden
  else match find_obj cl (r_gvk r) (r_name r) with
       | None => GError
       | Some o => if String.eqb (r_uid r) (o_uid o) then GFound o else GError
       end.

Inductive owners_res :=
| OwnersOk (top : obj) (owners : list obj) (top_is_pod : bool)
| OwnersErr
| OwnersOutOfFuel.

(** getResourceOwners: [last] is lastOwnerInstance, [acc] the owners found so far *)
Fixpoint walk (fuel : nat) (cfg : config) (cl : list obj) (podo : obj) (r : oref)
         (last : option obj) (acc : list obj) : owners_res :=
  match fuel with
  | O => OwnersOutOfFuel
  | S f =>
    match get_owner cfg cl r with
    | GForbidden => match last with
                    | Some l => OwnersOk l acc false
                    | None => OwnersOk podo acc true
                    end
    | GError => OwnersErr
    | GFound o =>
      let acc' := (acc ++ [o])%list in
      match o_owners o with
      | [] => OwnersOk o acc' false
      | [r'] => walk f cfg cl podo r' (Some o) acc'
      | _ => OwnersErr
      end
    end
  end.

Definition get_pod_owners (cfg : config) (cl : list obj) (p : pod) (a : option string) : owners_res :=
  match p_owners p with
  | [] => OwnersOk (pod_obj p a) [] true
  | r :: _ => walk (S (List.length cl)) cfg cl (pod_obj p a) r None []
  end.

(** * Plugin hub *)
Inductive plugin := PDefault | PDeployment | PJob | PPodJob | PSkip | PUnmodelled.

Definition mk_gvk (g v k : string) : gvk := {| g_group := g; g_version := v; g_kind := k |}.

Definition plugin_table : list (gvk * plugin) :=
  [ (mk_gvk "apps" "v1" "Deployment", PDeployment);
    (mk_gvk "machinelearning.seldon.io" "v1alpha2" "SeldonDeployment", PDefault);
    (mk_gvk "machinelearning.seldon.io" "v1" "SeldonDeployment", PDefault);
    (mk_gvk "kubevirt.io" "v1" "VirtualMachineInstance", PDefault);
    (mk_gvk "kubeflow.org" "v1" "TFJob", PUnmodelled);
    (mk_gvk "kubeflow.org" "v1" "PyTorchJob", PUnmodelled);
    (mk_gvk "kubeflow.org" "v1" "XGBoostJob", PUnmodelled);
    (mk_gvk "kubeflow.org" "v1" "JAXJob", PUnmodelled);
    (mk_gvk "kubeflow.org" "v1" "MPIJob", PUnmodelled);
    (mk_gvk "kubeflow.org" "v2beta1" "MPIJob", PUnmodelled);
    (mk_gvk "kubeflow.org" "v1beta1" "Notebook", PUnmodelled);
    (mk_gvk "batch" "v1" "Job", PJob);
    (mk_gvk "apps" "v1" "StatefulSet", PDefault);
    (mk_gvk "apps" "v1" "ReplicaSet", PDefault);
    (mk_gvk "run.ai" "v1" "RunaiJob", PUnmodelled);
    (mk_gvk "" "v1" "Pod", PPodJob);
    (mk_gvk "amlarc.azureml.com" "v1alpha1" "AmlJob", PUnmodelled);
    (mk_gvk "serving.knative.dev" "v1" "Service", PUnmodelled);
    (mk_gvk "batch" "v1" "CronJob", PUnmodelled);
    (mk_gvk "workspace.devfile.io" "v1alpha2" "DevWorkspace", PDefault);
    (mk_gvk "ray.io" "v1alpha1" "RayCluster", PUnmodelled);
    (mk_gvk "ray.io" "v1alpha1" "RayJob", PUnmodelled);
    (mk_gvk "ray.io" "v1alpha1" "RayService", PUnmodelled);
    (mk_gvk "ray.io" "v1" "RayCluster", PUnmodelled);
    (mk_gvk "ray.io" "v1" "RayJob", PUnmodelled);
    (mk_gvk "ray.io" "v1" "RayService", PUnmodelled);
    (mk_gvk "kubeflow.org" "v1alpha1" "ScheduledWorkflow", PDefault);
    (mk_gvk "tekton.dev" "v1" "PipelineRun", PDefault);
    (mk_gvk "tekton.dev" "v1" "TaskRun", PDefault);
    (mk_gvk "egx.nvidia.io" "v1" "SPOTRequest", PUnmodelled);
    (mk_gvk "leaderworkerset.x-k8s.io" "v1" "LeaderWorkerSet", PUnmodelled);
    (mk_gvk "jobset.x-k8s.io" "v1alpha2" "JobSet", PUnmodelled);
    (mk_gvk "grove.io" "v1alpha1" "PodGangSet", PUnmodelled);
    (mk_gvk "grove.io" "v1alpha1" "PodCliqueSet", PUnmodelled);
    (mk_gvk "argoproj.io" "v1alpha1" "Workflow", PSkip);
    (mk_gvk "run.ai" "*" "InferenceWorkload", PSkip);
    (mk_gvk "run.ai" "*" "TrainingWorkload", PSkip);
    (mk_gvk "run.ai" "*" "DistributedWorkload", PSkip);
    (mk_gvk "run.ai" "*" "InteractiveWorkload", PSkip);
    (mk_gvk "run.ai" "*" "DistributedInferenceWorkload", PSkip);
    (mk_gvk "trainer.kubeflow.org" "v1alpha1" "TrainJob", PSkip);
    (mk_gvk "nvidia.com" "v1alpha1" "DynamoGraphDeployment", PSkip) ].

Fixpoint table_exact (t : list (gvk * plugin)) (g : gvk) : option plugin :=
  match t with
  | [] => None
  | (g', pl) :: r => if gvk_eqb g g' then Some pl else table_exact r g
  end.

(** hub.GetPodGrouperPlugin *)
Definition hub_plugin (g : gvk) : plugin :=
  match table_exact plugin_table g with
  | Some pl => pl
  | None => match table_exact plugin_table (mk_gvk (g_group g) "*" (g_kind g)) with
            | Some pl => pl
            | None => PDefault
            end
  end.

(** skiptopowner.getSupportedTypePGMetadata: exact lookup only *)
Definition skip_plugin (g : gvk) : plugin :=
  match table_exact plugin_table g with Some pl => pl | None => PDefault end.

(** * Which object the group is derived from (skip-top-owner unwrapping) *)
Inductive grouping_res :=
| GOk (pl : plugin) (g : obj) (owners : list obj) (pod_used : bool)
| GErr | GOutOfFuel | GPanic.

(** propagateMetadataDownChain: keys of the skipped owner that the last owner lacks *)
Definition propagate_map (lower upper : smap) : smap :=
  fold_left (fun t kv => match lookup (fst kv) t with
                         | Some _ => t
                         | None => match lookup (fst kv) upper with
                                   | Some v => aset (fst kv) v t
                                   | None => t
                                   end
                         end) upper lower.
Definition propagate (lower upper : obj) : obj :=
  {| o_gvk := o_gvk lower; o_name := o_name lower; o_uid := o_uid lower;
     o_labels := propagate_map (o_labels lower) (o_labels upper);
     o_annots := propagate_map (o_annots lower) (o_annots upper);
     o_owners := o_owners lower; o_tom := o_tom lower |}.

Fixpoint resolve (fuel : nat) (cl : list obj) (podo : obj) (pl : plugin) (top : obj)
         (owners : list obj) (used : bool) : grouping_res :=
  match pl with
  | PSkip =>
    match fuel with
    | O => GOutOfFuel
    | S f =>
      let n := List.length owners in
      (* lastOwnerPartial, then sk.getObjectInstance *)
      let last := if Nat.leb n 1 then Some (podo, true)
                  else match nth_error owners (n - 2) with
                       | None => None
                       | Some x => match find_obj cl (o_gvk x) (o_name x) with
                                   | Some y => Some (y, false)
                                   | None => None
                                   end
                       end in
      match last with
      | None => GErr
      | Some (lo, u) =>
        match owners with
        | [] => GPanic          (* otherOwners[:len(otherOwners)-1] with len 0 *)
        | _ => let lo' := propagate lo top in
               resolve f cl podo (skip_plugin (o_gvk lo')) lo' (removelast owners) (used || u)
        end
      end
    end
  | _ => GOk pl top owners used
  end.

Definition grouping (cfg : config) (cl : list obj) (p : pod) (a : option string) : grouping_res :=
  match get_pod_owners cfg cl p a with
  | OwnersErr => GErr
  | OwnersOutOfFuel => GOutOfFuel
  | OwnersOk top owners tp =>
    resolve (S (List.length owners)) cl (pod_obj p a) (hub_plugin (o_gvk top)) top owners tp
  end.

(** * Metadata *)
Record owner_ref := { w_group : string; w_version : string; w_kind : string; w_name : string; w_uid : string }.
Record subgroup := { sg_name : string; sg_min : Z; sg_parent : option string }.
Record topo := { t_preferred : string; t_required : string; t_topology : string }.

Record metadata := {
  m_name : string;
  m_labels : option smap;
  m_annots : option smap;
  m_prio : string;
  m_preempt : string;
  m_queue : string;
  m_min : Z;
  m_owner : owner_ref;
  m_subgroups : list subgroup;
  m_topo : topo
}.

(** what the grouper reads of the pod apart from its identity *)
Definition lower_ascii (c : ascii) : ascii :=
  let n := nat_of_ascii c in
  if Nat.leb 65 n && Nat.leb n 90 then ascii_of_nat (n + 32) else c.
Fixpoint to_lower (s : string) : string :=
  match s with EmptyString => EmptyString | String c r => String (lower_ascii c) (to_lower r) end.

(** v2alpha2.ParsePreemptibility *)
Definition parse_preempt (s : string) : option string :=
  if String.eqb s "preemptible" then Some "preemptible"
  else if String.eqb s "non-preemptible" then Some "non-preemptible"
  else if String.eqb s "" then Some ""
  else None.

Definition prio_exists (cfg : config) (n : string) : bool :=
  negb (String.eqb n "") && existsb (String.eqb n) (c_prio_classes cfg).

(** schema.GroupKind.String *)
Definition group_kind_string (g : gvk) : string :=
  if String.eqb (g_group g) "" then g_kind g else g_kind g ++ "." ++ g_group g.

(** configsToMapPerGroupKind: later entries overwrite earlier ones *)
Definition defaults_map (l : list cm_entry) : list (string * cm_entry) :=
  fold_left (fun t e => aset (group_kind_string (mk_gvk (e_group e) "" (e_type e))) e t) l [].

Definition select_defaults (d : list (string * cm_entry)) (g : gvk) : option cm_entry :=
  match d with
  | [] => None
  | _ => if String.eqb (group_kind_string g) "" then None
         else match lookup (group_kind_string g) d with
              | Some e => Some e
              | None => lookup (g_kind g) d
              end
  end.

Definition default_prio_for_kind (d : list (string * cm_entry)) (g : gvk) : string :=
  match d with
  | [] => ""
  | _ => if String.eqb (group_kind_string g) "" || String.eqb (g_kind g) "" then ""
         else match select_defaults d g with Some e => e_prio e | None => "" end
  end.

(** calcPodGroupPriorityClass *)
Definition explicit_prio (o : obj) (p : pod) : string :=
  match lookup priority_key (o_labels o) with
  | Some v => v
  | None => match lookup priority_key (p_labels p) with
            | Some v => v
            | None => p_prio p
            end
  end.

Fixpoint first_valid_prio (cfg : config) (owners : list obj) (p : pod) : option string :=
  match owners with
  | [] => None
  | o :: r => let n := explicit_prio o p in
              if prio_exists cfg n then Some n else first_valid_prio cfg r p
  end.

Fixpoint first_default_prio (cfg : config) (d : list (string * cm_entry)) (owners : list obj) : option string :=
  match owners with
  | [] => None
  | o :: r => let n := default_prio_for_kind d (o_gvk o) in
              if prio_exists cfg n then Some n else first_default_prio cfg d r
  end.

(** calcPriorityClassWithDefaults *)
Definition calc_prio (cfg : config) (owners : list obj) (p : pod) (fallback : string) : string :=
  match first_valid_prio cfg owners p with
  | Some n => n
  | None =>
    match c_defaults cfg with
    | CmError => fallback
    | CmNone => fallback      (* empty mapping: no default found *)
    | CmEntries l => match first_default_prio cfg (defaults_map l) owners with
                     | Some n => n
                     | None => fallback
                     end
    end
  end.

Fixpoint first_owner_preempt (owners : list obj) : option string :=
  match owners with
  | [] => None
  | o :: r => match lookup preempt_key (o_labels o) with
              | Some s => match parse_preempt s with
                          | Some v => Some v
                          | None => first_owner_preempt r
                          end
              | None => first_owner_preempt r
              end
  end.

Fixpoint first_default_preempt (d : list (string * cm_entry)) (owners : list obj) : option string :=
  match owners with
  | [] => None
  | o :: r => match select_defaults d (o_gvk o) with
              | Some e => if String.eqb (e_preempt e) "" then first_default_preempt d r
                          else match parse_preempt (to_lower (e_preempt e)) with
                               | Some v => Some v
                               | None => first_default_preempt d r
                               end
              | None => first_default_preempt d r
              end
  end.

(** calcPodGroupPreemptibilityWithDefaults *)
Definition calc_preempt (cfg : config) (owners : list obj) (p : pod) : string :=
  match first_owner_preempt owners with
  | Some v => v
  | None =>
    let from_defaults :=
        match c_defaults cfg with
        | CmError => ""
        | CmNone => ""
        | CmEntries l => match first_default_preempt (defaults_map l) owners with
                         | Some v => v
                         | None => ""
                         end
        end in
    match lookup preempt_key (p_labels p) with
    | Some s => match parse_preempt s with
                | Some v => v
                | None => from_defaults
                end
    | None => from_defaults
    end
  end.

(** CalcPodGroupQueue / calculateQueueName *)
Definition calc_queue (cfg : config) (top : obj) (p : pod) : string :=
  match lookup (c_queue_key cfg) (o_labels top) with
  | Some q => q
  | None =>
    match lookup (c_queue_key cfg) (p_labels p) with
    | Some q => q
    | None =>
      let project := match lookup project_key (o_labels top) with
                     | Some v => v
                     | None => match lookup project_key (p_labels p) with Some v => v | None => "" end
                     end in
      if String.eqb project "" then "default-queue"
      else match lookup (c_nodepool_key cfg) (p_labels p) with
           | Some np => project ++ "-" ++ np
           | None => project
           end
    end
  end.

(** CalcPodGroupAnnotations. [af] = the repair 8227120: [delete(pgAnnotations, "pod-group-name")] after the
    top owner's annotations were copied *)
Definition calc_annots_with (af : bool) (top : obj) (p : pod) : smap :=
  let a0 := match lookup user_key (p_annots p) with Some v => [(user_key, v)] | None => [] end in
  let a1 := aset tom_key (o_tom top) a0 in
  let a2 := copy_into (o_annots top) a1 in
  if af then adel pg_annotation_key a2 else a2.

(** before 8227120 *)
Definition annot_fix_v0 := false.
(** since 8227120 — the code as it is *)
Definition annot_fix_v1 := true.
Definition annot_fix := annot_fix_v1.
Definition calc_annots := calc_annots_with annot_fix.

(** CalcPodGroupLabels *)
Definition calc_labels (top : obj) (p : pod) : smap :=
  let l0 := copy_into (o_labels top) [] in
  match lookup user_key l0 with
  | Some _ => l0
  | None => match lookup user_key (p_labels p) with
            | Some v => aset user_key v l0
            | None => l0
            end
  end.

Definition pg_name (a b : string) : string := "pg" ++ "-" ++ a ++ "-" ++ b.

Definition annot_or_empty (k : string) (o : obj) : string :=
  match lookup k (o_annots o) with Some v => v | None => "" end.

(** DefaultGrouper.GetPodGroupMetadata. Note: the pod's *user* annotation is read from the pod object the
    reconciler holds, i.e. its current annotations; the key differs from the pod-group key, so [p_annots] is the same. *)
Definition default_md_with (af : bool) (cfg : config) (top : obj) (p : pod) (owners : list obj) : metadata :=
  let owners' := match owners with [] => [top] | _ => owners end in
  {| m_name := pg_name (o_name top) (o_uid top);
     m_labels := Some (calc_labels top p);
     m_annots := Some (calc_annots_with af top p);
     m_prio := calc_prio cfg owners' p "train";
     m_preempt := calc_preempt cfg owners' p;
     m_queue := calc_queue cfg top p;
     m_min := 1%Z;
     m_owner := {| w_group := g_group (o_gvk top); w_version := g_version (o_gvk top);
                   w_kind := g_kind (o_gvk top); w_name := o_name top; w_uid := o_uid top |};
     m_subgroups := [];
     m_topo := {| t_preferred := annot_or_empty "kai.scheduler/topology-preferred-placement" top;
                  t_required := annot_or_empty "kai.scheduler/topology-required-placement" top;
                  t_topology := annot_or_empty "kai.scheduler/topology" top |} |}.

Definition with_name (m : metadata) (n : string) : metadata :=
  {| m_name := n; m_labels := m_labels m; m_annots := m_annots m; m_prio := m_prio m;
     m_preempt := m_preempt m; m_queue := m_queue m; m_min := m_min m; m_owner := m_owner m;
     m_subgroups := m_subgroups m; m_topo := m_topo m |}.

(** DeploymentGrouper.GetPodGroupMetadata *)
Definition deployment_md_with (af : bool) (cfg : config) (top : obj) (p : pod) : metadata :=
  let m := default_md_with af cfg top p [] in
  {| m_name := pg_name (p_name p) (p_uid p); m_labels := m_labels m; m_annots := m_annots m;
     m_prio := calc_prio cfg [top] p "inference";
     m_preempt := m_preempt m; m_queue := m_queue m; m_min := m_min m;
     m_owner := {| w_group := ""; w_version := "v1"; w_kind := "Pod"; w_name := p_name p; w_uid := p_uid p |};
     m_subgroups := m_subgroups m; m_topo := m_topo m |}.

(** K8sJobGrouper.GetPodGroupMetadata (no legacy search) *)
Definition job_md_with (af : bool) (cfg : config) (top : obj) (p : pod) : metadata :=
  with_name (default_md_with af cfg top p []) (pg_name (p_name p) (o_uid top)).

Definition is_spark_pod (p : pod) : bool :=
  match lookup "spark-app-name" (p_labels p), lookup "spark-app-selector" (p_labels p) with
  | Some _, Some _ => true
  | _, _ => false
  end.

Inductive md_res := MdOk (m : metadata) | MdErr | MdUnmodelled | MdOutOfFuel | MdPanic.

Definition leaf_md_with (af : bool) (cfg : config) (pl : plugin) (g : obj) (p : pod) (owners : list obj) : md_res :=
  match pl with
  | PDefault => MdOk (default_md_with af cfg g p owners)
  | PDeployment => MdOk (deployment_md_with af cfg g p)
  | PJob => MdOk (job_md_with af cfg g p)
  | PPodJob => if is_spark_pod p then MdUnmodelled else MdOk (default_md_with af cfg g p [])
  | PSkip => MdErr   (* unreachable: [resolve] never returns PSkip *)
  | PUnmodelled => MdUnmodelled
  end.

(** GetPodOwners + GetPGMetadata *)
Definition reconcile_md_with (af : bool) (cfg : config) (cl : list obj) (p : pod) (a : option string) : md_res :=
  match grouping cfg cl p a with
  | GOk pl g owners _ => leaf_md_with af cfg pl g p owners
  | GErr => MdErr
  | GOutOfFuel => MdOutOfFuel
  | GPanic => MdPanic
  end.
Definition reconcile_md := reconcile_md_with annot_fix.

(** addNodePoolLabel *)
Definition add_node_pool_label (cfg : config) (m : metadata) (p : pod) : metadata :=
  if String.eqb (c_nodepool_key cfg) "" then m else
  let l := match m_labels m with None => [] | Some l => l end in
  let l' := match lookup (c_nodepool_key cfg) l with
            | Some _ => l
            | None => match lookup (c_nodepool_key cfg) (p_labels p) with
                      | Some v => aset (c_nodepool_key cfg) v l
                      | None => l
                      end
            end in
  {| m_name := m_name m; m_labels := Some l'; m_annots := m_annots m; m_prio := m_prio m;
     m_preempt := m_preempt m; m_queue := m_queue m; m_min := m_min m; m_owner := m_owner m;
     m_subgroups := m_subgroups m; m_topo := m_topo m |}.

(** isOrphanPodWithPodGroup *)
Definition is_orphan (p : pod) (a : option string) : bool :=
  match lookup pg_annotation_key (cur_annots p a), p_owners p with
  | Some _, [] => true
  | _, _ => false
  end.

(** the metadata a reconcile of [p] applies, when it gets that far *)
Definition full_md_with (af : bool) (cfg : config) (cl : list obj) (p : pod) (a : option string) : option metadata :=
  if is_orphan p a then None
  else match reconcile_md_with af cfg cl p a with
       | MdOk m => Some (add_node_pool_label cfg m p)
       | _ => None
       end.
Definition full_md := full_md_with annot_fix.

(** * PodGroup objects, the store and the API round trip *)
Record pg := {
  pg_labels : option smap;
  pg_annots : option smap;
  pg_owners : list owner_ref;
  sp_min : Z;
  sp_queue : string;
  sp_prio : string;
  sp_preempt : string;
  sp_mark : option bool;
  sp_backoff : option Z;
  sp_subgroups : option (list subgroup);
  sp_topo : topo
}.

Definition norm_map (m : option smap) : option smap :=
  match m with Some [] => None | _ => m end.
Definition norm_slice {A} (l : option (list A)) : option (list A) :=
  match l with Some [] => None | _ => l end.

(** json omitempty round trip through the API *)
Definition norm (g : pg) : pg :=
  {| pg_labels := norm_map (pg_labels g); pg_annots := norm_map (pg_annots g);
     pg_owners := pg_owners g; sp_min := sp_min g; sp_queue := sp_queue g; sp_prio := sp_prio g;
     sp_preempt := sp_preempt g; sp_mark := sp_mark g; sp_backoff := sp_backoff g;
     sp_subgroups := norm_slice (sp_subgroups g); sp_topo := sp_topo g |}.

(** createPodGroupForMetadata *)
Definition create_pg (m : metadata) : pg :=
  {| pg_labels := m_labels m; pg_annots := m_annots m; pg_owners := [m_owner m];
     sp_min := m_min m; sp_queue := m_queue m; sp_prio := m_prio m; sp_preempt := m_preempt m;
     sp_mark := None; sp_backoff := None;
     sp_subgroups := Some (m_subgroups m);      (* []SubGroup{} then append: never nil *)
     sp_topo := m_topo m |}.

Definition slice_empty {A} (l : option (list A)) : bool :=
  match l with None => true | Some [] => true | Some (_ :: _) => false end.

(** ignoreFields. [sg] = the step added by the repair 9775a95: an empty sub-group list is
    replaced by the stored (nil) one so that like is compared with like *)
Definition ignore_fields (sg : bool) (cfg : config) (old new : pg) : pg :=
  let l0 := match pg_labels new with None => [] | Some l => l end in
  let l1 := match mget (c_nodepool_key cfg) (pg_labels old) with
            | Some v => aset (c_nodepool_key cfg) v l0
            | None => adel (c_nodepool_key cfg) l0
            end in
  let l2 := match mget (c_queue_key cfg) (pg_labels old) with
            | Some v => aset (c_queue_key cfg) v l1
            | None => l1
            end in
  {| pg_labels := Some l2; pg_annots := pg_annots new; pg_owners := pg_owners new;
     sp_min := sp_min new; sp_queue := sp_queue old; sp_prio := sp_prio new;
     sp_preempt := sp_preempt new; sp_mark := sp_mark old; sp_backoff := sp_backoff old;
     sp_subgroups := if sg && slice_empty (sp_subgroups new) && slice_empty (sp_subgroups old)
                     then sp_subgroups old else sp_subgroups new;
     sp_topo := sp_topo new |}.

(** ** Equality helpers (reflect.DeepEqual on the compared parts) *)
Definition opt_eqb {A} (e : A -> A -> bool) (a b : option A) : bool :=
  match a, b with
  | Some x, Some y => e x y
  | None, None => true
  | _, _ => false
  end.
Fixpoint list_eqb {A} (e : A -> A -> bool) (a b : list A) : bool :=
  match a, b with
  | [], [] => true
  | x :: r, y :: s => e x y && list_eqb e r s
  | _, _ => false
  end.
Definition owner_ref_eqb (a b : owner_ref) : bool :=
  String.eqb (w_group a) (w_group b) && String.eqb (w_version a) (w_version b)
  && String.eqb (w_kind a) (w_kind b) && String.eqb (w_name a) (w_name b)
  && String.eqb (w_uid a) (w_uid b).
Definition subgroup_eqb (a b : subgroup) : bool :=
  String.eqb (sg_name a) (sg_name b) && Z.eqb (sg_min a) (sg_min b)
  && opt_eqb String.eqb (sg_parent a) (sg_parent b).
Definition topo_eqb (a b : topo) : bool :=
  String.eqb (t_preferred a) (t_preferred b) && String.eqb (t_required a) (t_required b)
  && String.eqb (t_topology a) (t_topology b).

(** reflect.DeepEqual(old.Spec, new.Spec): a nil slice and an empty slice differ *)
Definition spec_eqb (a b : pg) : bool :=
  Z.eqb (sp_min a) (sp_min b) && String.eqb (sp_queue a) (sp_queue b)
  && String.eqb (sp_prio a) (sp_prio b) && String.eqb (sp_preempt a) (sp_preempt b)
  && opt_eqb Bool.eqb (sp_mark a) (sp_mark b) && opt_eqb Z.eqb (sp_backoff a) (sp_backoff b)
  && opt_eqb (list_eqb subgroup_eqb) (sp_subgroups a) (sp_subgroups b)
  && topo_eqb (sp_topo a) (sp_topo b).

(** mapsEqualBySourceKeys. [lenfix] = the repair 9775a95: [len(source) > 0 && target == nil]
    instead of [source != nil && target == nil] *)
Definition maps_equal_by_source_keys (lenfix : bool) (source target : option smap) : bool :=
  match source, target with
  | Some s, None => lenfix && match s with [] => true | _ :: _ => false end
  | None, _ => true
  | Some s, Some t =>
    forallb (fun kv => opt_eqb String.eqb (lookup (fst kv) t) (lookup (fst kv) s)) s
  end.

(** podGroupsEqual *)
Definition pg_equal_with (lenfix : bool) (old new : pg) : bool :=
  spec_eqb old new
  && list_eqb owner_ref_eqb (pg_owners old) (pg_owners new)
  && maps_equal_by_source_keys lenfix (pg_labels new) (pg_labels old)
  && maps_equal_by_source_keys lenfix (pg_annots new) (pg_annots old).

(** ** The two versions of the handler — the ONE place that selects which one is modelled *)

(** before 9775a95: []SubGroup{} and an empty label map never equal what the API returns *)
Definition pg_equal_v0 := pg_equal_with false.
Definition ignore_sg_v0 := false.
(** since 9775a95 *)
Definition pg_equal_v1 := pg_equal_with true.
Definition ignore_sg_v1 := true.

(** the code as it is: [mapsEqualBySourceKeys(new, old)] — "every key the grouper computes is on the stored
    PodGroup with the same value"; keys the stored PodGroup carries in addition belong to other actors *)
Definition pg_equal := pg_equal_v1.
Definition ignore_sg := ignore_sg_v1.

(** NOT the code: the comparison with the two map arguments the other way round,
    [mapsEqualBySourceKeys(old, new)] — "every key of the stored PodGroup is computed by the grouper" (the
    seeded change C18-2). Used only by the theorem that shows what the direction is for. *)
Definition pg_equal_swapped (old new : pg) : bool :=
  spec_eqb old new
  && list_eqb owner_ref_eqb (pg_owners old) (pg_owners new)
  && maps_equal_by_source_keys true (pg_labels old) (pg_labels new)
  && maps_equal_by_source_keys true (pg_annots old) (pg_annots new).

(** copyStringMap *)
Definition copy_string_map (source target : option smap) : option smap :=
  match source with
  | None => target
  | Some s => Some (copy_into s (match target with None => [] | Some t => t end))
  end.

(** updatePodGroup (the result is the old object with these fields replaced) *)
Definition update_pg (old new : pg) : pg :=
  {| pg_labels := copy_string_map (pg_labels new) (pg_labels old);
     pg_annots := copy_string_map (pg_annots new) (pg_annots old);
     pg_owners := pg_owners new;
     sp_min := sp_min new; sp_queue := sp_queue new; sp_prio := sp_prio new;
     sp_preempt := sp_preempt new; sp_mark := sp_mark new; sp_backoff := sp_backoff new;
     sp_subgroups := sp_subgroups new; sp_topo := sp_topo new |}.

(** Handler.ApplyToCluster on the one store slot it touches; second component = mutating API calls *)
Definition apply_slot_with (sg : bool) (eq : pg -> pg -> bool) (cfg : config) (m : metadata) (cur : option pg) : pg * Z :=
  let new := create_pg m in
  match cur with
  | None => (norm new, 1%Z)
  | Some old =>
    let new' := ignore_fields sg cfg old new in
    if eq old new' then (old, 0%Z) else (norm (update_pg old new'), 1%Z)
  end.

(** * State and events *)
Record state := {
  st_pgs : list (string * pg);           (* at most one PodGroup per name *)
  st_asg : list (string * string)        (* pod name -> pod-group annotation written by the grouper *)
}.
Definition empty_state : state := {| st_pgs := []; st_asg := [] |}.
Definition get_pg (n : string) (s : state) : option pg := lookup n (st_pgs s).
Definition get_asg (k : string) (s : state) : option string := lookup k (st_asg s).

Definition apply_to_cluster_with (sg : bool) (eq : pg -> pg -> bool) (cfg : config) (m : metadata) (s : state) : state * Z :=
  let r := apply_slot_with sg eq cfg m (get_pg (m_name m) s) in
  ({| st_pgs := aset (m_name m) (fst r) (st_pgs s); st_asg := st_asg s |}, snd r).

(** Metadata.FindSubGroupForPod: sub-groups carry no pod references in the modelled plugins *)
Definition expected_subgroup (m : metadata) (p : pod) : string := "".

(** assignPodToGroupAndSubGroup: does it patch? [pf] = the repair 3f1c7d2:
    [currentPG == metadata.Name && (expectedSubGroup == "" || currentSubGroup == expectedSubGroup)] instead of
    [currentPG == metadata.Name && currentSubGroup == expectedSubGroup]. The patch sets the annotation, and the
    sub-group label only when one is expected: a label the pod carries is never removed. *)
Definition needs_patch_with (pf : bool) (m : metadata) (p : pod) (a : option string) : bool :=
  let cur_pg := match lookup pg_annotation_key (cur_annots p a) with Some v => v | None => "" end in
  let cur_sg := match lookup subgroup_label_key (p_labels p) with Some v => v | None => "" end in
  let exp_sg := expected_subgroup m p in
  negb (String.eqb cur_pg (m_name m)
        && ((pf && String.eqb exp_sg "") || String.eqb cur_sg exp_sg)).

(** before 3f1c7d2 *)
Definition patch_fix_v0 := false.
(** since 3f1c7d2 — the code as it is *)
Definition patch_fix_v1 := true.
Definition patch_fix := patch_fix_v1.
Definition needs_patch := needs_patch_with patch_fix.

(** PodReconciler.Reconcile; second component = mutating API calls *)
Definition reconcile_with (af pf sg : bool) (eq : pg -> pg -> bool) (cfg : config) (cl : list obj) (p : pod) (s : state) : state * Z :=
  let a := get_asg (p_name p) s in
  match full_md_with af cfg cl p a with
  | None => (s, 0%Z)
  | Some m =>
    let r := apply_to_cluster_with sg eq cfg m s in
    let w := if needs_patch_with pf m p a then 1%Z else 0%Z in
    ({| st_pgs := st_pgs (fst r); st_asg := aset (p_name p) (m_name m) (st_asg (fst r)) |}, (snd r + w)%Z)
  end.

(** a foreign actor's update of the fields it owns; [None] = leave alone. [f_labels] / [f_annots]: any other
    label / annotation keys of the stored PodGroup (the scheduler's kai.scheduler/last-start-timestamp and
    kai.scheduler/stale-podgroup-timestamp annotations, an administrator's keys), applied in order:
    [(k, Some v)] sets, [(k, None)] deletes *)
Record foreign_upd := {
  f_queue : option string;
  f_mark : option (option bool);
  f_backoff : option (option Z);
  f_nodepool : option (option string);      (* Some None = delete the label *)
  f_qlabel : option (option string);
  f_labels : list (string * option string);
  f_annots : list (string * option string)
}.
Definition upd_label (k : string) (u : option (option string)) (l : smap) : smap :=
  match u with
  | None => l
  | Some None => adel k l
  | Some (Some v) => aset k v l
  end.
Definition upd_keys (us : list (string * option string)) (l : smap) : smap :=
  fold_left (fun l u => upd_label (fst u) (Some (snd u)) l) us l.
Definition foreign_apply (cfg : config) (f : foreign_upd) (g : pg) : pg :=
  let l0 := upd_keys (f_labels f) (match pg_labels g with None => [] | Some l => l end) in
  let l := upd_label (c_queue_key cfg) (f_qlabel f) (upd_label (c_nodepool_key cfg) (f_nodepool f) l0) in
  let a := upd_keys (f_annots f) (match pg_annots g with None => [] | Some a => a end) in
  norm {| pg_labels := Some l; pg_annots := Some a; pg_owners := pg_owners g;
          sp_min := sp_min g;
          sp_queue := match f_queue f with Some q => q | None => sp_queue g end;
          sp_prio := sp_prio g; sp_preempt := sp_preempt g;
          sp_mark := match f_mark f with Some v => v | None => sp_mark g end;
          sp_backoff := match f_backoff f with Some v => v | None => sp_backoff g end;
          sp_subgroups := sp_subgroups g; sp_topo := sp_topo g |}.

Inductive event := EvReconcile (p : pod) | EvForeign (name : string) (f : foreign_upd).

Definition step_with (af pf sg : bool) (eq : pg -> pg -> bool) (cfg : config) (cl : list obj) (e : event) (s : state) : state * Z :=
  match e with
  | EvReconcile p => reconcile_with af pf sg eq cfg cl p s
  | EvForeign n f =>
    match get_pg n s with
    | None => (s, 0%Z)
    | Some g => ({| st_pgs := aset n (foreign_apply cfg f g) (st_pgs s); st_asg := st_asg s |}, 0%Z)
    end
  end.

Definition run_with (af pf sg : bool) (eq : pg -> pg -> bool) (cfg : config) (cl : list obj) (es : list event) (s : state) : state :=
  fold_left (fun s e => fst (step_with af pf sg eq cfg cl e s)) es s.

(** the code as it is *)
Definition apply_to_cluster := apply_to_cluster_with ignore_sg pg_equal.
Definition reconcile := reconcile_with annot_fix patch_fix ignore_sg pg_equal.
Definition step := step_with annot_fix patch_fix ignore_sg pg_equal.
Definition run := run_with annot_fix patch_fix ignore_sg pg_equal.

(** the fields other actors own, as read from a stored PodGroup *)
Record fview := { fv_queue : string; fv_mark : option bool; fv_backoff : option Z; fv_nodepool : option string }.
Definition foreign_view (cfg : config) (g : pg) : fview :=
  {| fv_queue := sp_queue g; fv_mark := sp_mark g; fv_backoff := sp_backoff g;
     fv_nodepool := mget (c_nodepool_key cfg) (pg_labels g) |}.

(** * Histories: edited owners, overwritten and deleted PodGroups (C18_history_independent)

    The grouper-owned part of a stored PodGroup: what ApplyToCluster takes from the computed metadata and not
    from the stored object - every spec field but queue / markUnschedulable / schedulingBackoff, and the owner
    references ([owned_view]; sub-groups up to the API's nil / empty round trip); every label the grouper
    computes other than the queue and node-pool labels; every annotation it computes. Labels and annotations
    are merged into the stored maps and never removed (updatePodGroup / copyStringMap), so for them "agrees
    with the fresh PodGroup" is: every key the fresh PodGroup carries is on the stored one with the same value. *)
Record oview := {
  ov_min : Z; ov_prio : string; ov_preempt : string;
  ov_subgroups : option (list subgroup); ov_topo : topo; ov_owners : list owner_ref
}.
Definition owned_view (g : pg) : oview :=
  {| ov_min := sp_min g; ov_prio := sp_prio g; ov_preempt := sp_preempt g;
     ov_subgroups := norm_slice (sp_subgroups g); ov_topo := sp_topo g; ov_owners := pg_owners g |}.
Definition oview_eqb (a b : oview) : bool :=
  Z.eqb (ov_min a) (ov_min b) && String.eqb (ov_prio a) (ov_prio b) && String.eqb (ov_preempt a) (ov_preempt b)
  && opt_eqb (list_eqb subgroup_eqb) (ov_subgroups a) (ov_subgroups b) && topo_eqb (ov_topo a) (ov_topo b)
  && list_eqb owner_ref_eqb (ov_owners a) (ov_owners b).

(** every binding of [fresh] whose key is not in [skip] is a binding of [hist] *)
Definition keys_agree (skip : list string) (fresh hist : option smap) : bool :=
  let l := match fresh with None => [] | Some l => l end in
  forallb (fun kv => existsb (String.eqb (fst kv)) skip
                     || opt_eqb String.eqb (mget (fst kv) hist) (lookup (fst kv) l)) l.

(** the stored PodGroup [hist] agrees with the PodGroup [fresh] of a fresh run on the grouper-owned part *)
Definition owned_agreeb (cfg : config) (fresh hist : pg) : bool :=
  oview_eqb (owned_view hist) (owned_view fresh)
  && keys_agree [c_queue_key cfg; c_nodepool_key cfg] (pg_labels fresh) (pg_labels hist)
  && keys_agree [] (pg_annots fresh) (pg_annots hist).

(** events of a history: besides reconciles and foreign updates ([HEv], under the owner objects of the
    moment), the owner objects are edited ([HOwners]: any new set of owner objects - changed labels,
    annotations, owner references, objects added or removed), somebody overwrites a PodGroup with arbitrary
    content, grouper-owned fields included ([HTamper]; creates it when absent), a PodGroup is deleted *)
Inductive hevent :=
| HEv (e : event)
| HOwners (cl' : list obj)
| HTamper (n : string) (g : pg)
| HDelete (n : string).

(** [rc] = the reconciler ([reconcile], or a variant that is not the code) *)
Definition hstep_with (rc : config -> list obj -> pod -> state -> state * Z) (cfg : config)
           (h : hevent) (cs : list obj * state) : list obj * state :=
  match h with
  | HEv (EvReconcile p) => (fst cs, fst (rc cfg (fst cs) p (snd cs)))
  | HEv e => (fst cs, fst (step cfg (fst cs) e (snd cs)))
  | HOwners cl' => (cl', snd cs)
  | HTamper n g => (fst cs, {| st_pgs := aset n g (st_pgs (snd cs)); st_asg := st_asg (snd cs) |})
  | HDelete n => (fst cs, {| st_pgs := adel n (st_pgs (snd cs)); st_asg := st_asg (snd cs) |})
  end.
Definition hrun_with (rc : config -> list obj -> pod -> state -> state * Z) (cfg : config)
           (hs : list hevent) (cs : list obj * state) : list obj * state :=
  fold_left (fun cs h => hstep_with rc cfg h cs) hs cs.
Definition recs_with (rc : config -> list obj -> pod -> state -> state * Z) (cfg : config) (cl : list obj)
           (ps : list pod) (s : state) : state :=
  fold_left (fun s p => fst (rc cfg cl p s)) ps s.

(** the code as it is *)
Definition hstep := hstep_with reconcile.
Definition hrun := hrun_with reconcile.

(** NOT the code: PodReconciler.Reconcile returning BEFORE PodGroupHandler.ApplyToCluster when the pod already
    carries the expected pod-group annotation (and sub-group label) - the seeded change C18-3, "nothing left to
    do for a pod that was grouped long ago". Used only by the theorems that show what the call is for. *)
Definition reconcile_early_return (cfg : config) (cl : list obj) (p : pod) (s : state) : state * Z :=
  let a := get_asg (p_name p) s in
  match full_md cfg cl p a with
  | None => (s, 0%Z)
  | Some m => if needs_patch m p a then reconcile cfg cl p s else (s, 0%Z)
  end.
