(** The reclaim / preempt loops of Model/Signatures.v under Evict failures
    (property C05, reclaim / preempt progress when the API server refuses some
    eviction requests).

    Go code modelled (as it is at HEAD):
    - pkg/scheduler/framework/statement.go
        (Statement).Commit: one Cache call per valid operation in the order of
        the operation list: the evictions of the solved scenario, then the
        nomination of the preemptor (TaskPipelined, cannot fail).
        evict operation -> commitEvict -> Cache.Evict; when the call returns an
        error: evictOp.Reverse() = Statement.unevict of THAT pod (status back to
        Running, NodeInfo.UpdateTask: the node's Releasing goes down by what the
        eviction had added - it may become negative while the preemptor stays
        nominated there -, the plugins' allocate handlers: the pod is charged
        to its queue again), the error is kept in [err] and COMMIT CARRIES ON
        WITH THE REMAINING OPERATIONS (other evictions, the nomination).
        [err] is overwritten by every evict operation: Commit returns the
        outcome of the LAST eviction of the statement.
    - pkg/scheduler/actions/reclaim/reclaim.go, actions/preempt/preempt.go
        Execute: [if err := statement.Commit(); err != nil { log }] and THE LOOP
        GOES ON WITH THE NEXT JOB ([carry_on = true]).  [carry_on = false] is
        the variant that returns from Execute when a commit returned an error
        (NOT the code; seeded/C05-5).

    The failure oracle [f k v p] says whether the k-th Cache.Evict call of the
    action (k counted from 0 over the whole action), which asks to evict the pod
    of running job [v] for preemptor [p], is refused.  Every deterministic
    fault pattern of one run ("the k-th call", "every call for preemptor p",
    "every call for pod v") is such a function; the theorems quantify over all
    of them. *)
From Coq Require Import List ZArith PArith Bool.
From KaiV Require Import Model.Progress Model.Signatures.
Import ListNotations.
Open Scope Z_scope.

Inductive ecall :=
| EEvict (victim preemptor : positive)
| EEvictRefused (victim preemptor : positive)
| EPipe (job node : positive).

Definition eoracle := nat -> positive -> positive -> bool.
Definition no_evict_faults : eoracle := fun _ _ _ => false.

Record ecommit := mkECm {
  ec_calls : list ecall;        (* the Evict calls of the commit, in order *)
  ec_k : nat;                   (* Evict calls issued by the action so far *)
  ec_accepted : list rjob;
  ec_refused : list rjob;
  ec_err : bool;                (* Commit returned an error: the last eviction was refused *)
}.

(** the evict operations of Statement.Commit for preemptor [p] *)
Fixpoint commit_evictions (f : eoracle) (p : positive) (k : nat) (ev : list rjob) : ecommit :=
  match ev with
  | [] => mkECm [] k [] [] false
  | v :: r =>
      let c := commit_evictions f p (S k) r in
      if f k (rj_id v) p then
        mkECm (EEvictRefused (rj_id v) p :: ec_calls c) (ec_k c) (ec_accepted c) (v :: ec_refused c)
              (match r with [] => true | _ => ec_err c end)
      else
        mkECm (EEvict (rj_id v) p :: ec_calls c) (ec_k c) (v :: ec_accepted c) (ec_refused c)
              (match r with [] => false | _ => ec_err c end)
  end.

(** Statement.unevict at node level: the victim no longer releases its unit *)
Definition unevict_on (ns : list snode) (v : rjob) : list snode := release_on (rj_node v) (-1) ns.

Definition refused_for (p : positive) (c : ecall) : bool :=
  match c with EEvictRefused _ q => Pos.eqb q p | _ => false end.
Definition pipe_of (p : positive) (c : ecall) : bool :=
  match c with EPipe j _ => Pos.eqb j p | _ => false end.
(** one of the evictions requested for [p] was refused *)
Definition evict_refused_for (cs : list ecall) (p : positive) : bool := existsb (refused_for p) cs.
(** TaskPipelined was called for [p] *)
Definition nominated (cs : list ecall) (p : positive) : bool := existsb (pipe_of p) cs.

Record rfstate := mkRF {
  rf_st : vstate;
  rf_reps : qreps;
  rf_k : nat;
  rf_calls : list ecall;        (* every Cache call of the action so far, in order *)
  rf_stopped : bool;            (* only with [carry_on = false]: Execute has returned *)
}.
Definition rf_init (st : vstate) : rfstate := mkRF st [] O [] false.

Section FaultyActions.
  Variable vfilter : pjob -> rjob -> bool.
  Variable sfilter : vstate -> pjob -> list rjob -> bool.
  Variable valid : vstate -> pjob -> list rjob -> bool.
  Variable ahead : vstate -> pjob -> list rjob -> nat.
  Variable use_sigs : bool.
  Variable pending : pjob -> list sreq.
  Variable can_reclaim : vstate -> pjob -> bool.
  Variable np_gate : vstate -> pjob -> bool.
  Variable carry_on : bool.
  Variable f : eoracle.

  (** Solve + Commit under the oracle: [solve_and_commit] of Model/Progress.v
      where the refused victims keep running and stop releasing; the log keeps
      the ACCEPTED evictions *)
  Definition solve_and_commit_f (st : vstate) (p : pjob) (k : nat) (victims : list rjob)
    : option (vstate * ecommit * positive) :=
    match scenarios sfilter valid ahead st p [] victims with
    | Some (ev, nid, ns') =>
        let c := commit_evictions f (pj_id p) k ev in
        let accids := map rj_id (ec_accepted c) in
        Some (mkVS (fold_left unevict_on (ec_refused c) ns')
                   (filter (fun v => negb (in_ids (rj_id v) accids)) (vs_running st))
                   (mkCommit (pj_id p) accids nid :: vs_log st), c, nid)
    | None => None
    end.

  Definition committed (s : rfstate) (p : pjob) (r : vstate * ecommit * positive) : rfstate :=
    let '(st', c, nid) := r in
    mkRF st' (rf_reps s) (ec_k c) (rf_calls s ++ ec_calls c ++ [EPipe (pj_id p) nid]) (ec_err c && negb carry_on).

  Definition reclaim_step_f (s : rfstate) (p : pjob) : rfstate :=
    if rf_stopped s then s
    else if can_reclaim (rf_st s) p then
      if skipped use_sigs pending (rf_reps s) p then s
      else match solve_and_commit_f (rf_st s) p (rf_k s) (reclaim_victims vfilter (rf_st s) p) with
           | Some r => committed s p r
           | None => mkRF (rf_st s) (record_failure pending (rf_reps s) p) (rf_k s) (rf_calls s) false
           end
    else s.

  Definition preempt_step_f (s : rfstate) (p : pjob) : rfstate :=
    if rf_stopped s then s
    else if skipped use_sigs pending (rf_reps s) p then s
    else match (if np_gate (rf_st s) p
                then solve_and_commit_f (rf_st s) p (rf_k s) (preempt_victims vfilter (rf_st s) p)
                else None) with
         | Some r => committed s p r
         | None => mkRF (rf_st s) (record_failure pending (rf_reps s) p) (rf_k s) (rf_calls s) false
         end.

  Definition reclaim_action_f (st : vstate) (ps : list pjob) : rfstate := fold_left reclaim_step_f ps (rf_init st).
  Definition preempt_action_f (st : vstate) (ps : list pjob) : rfstate := fold_left preempt_step_f ps (rf_init st).
End FaultyActions.
