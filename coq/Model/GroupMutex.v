(** Executable model of the binder's per-GPU-group lock (C17, clause 1).

    Go code modelled, AS IT IS:
      pkg/binder/binding/resourcereservation/group_mutex/group_mutex.go
        GroupMutex{mapMutex, mutexMap, mutexRefsMap}
        LockMutexForGroup      = acquireWithRefcountIncrease ; mutex.Lock()
        ReleaseMutex           = acquireWithRefcountDecrease ; if mutex != nil { mutex.Unlock() }
        acquireWithRefcountIncrease / acquireWithRefcountDecrease  (each one atomic: the whole
                                 body runs under mapMutex)

    A small transition system.  The shared state is the two Go maps, the set of
    currently locked [sync.Mutex] objects (mutex objects are heap cells: they get
    identities [mid], a fresh one per [&sync.Mutex{}]) and a flag for Go's fatal
    "unlock of unlocked mutex".  Every thread runs a list of critical sections
    (groups), one after the other, without nesting -- that is how the service
    uses the lock (ReserveGpuDevice / SyncForGpuGroup: Lock; defer Release).
    A thread has a program counter; [LockMutexForGroup] is two atomic steps
    (A1 refcount increase under mapMutex, A2 mutex.Lock -- blocks while the
    mutex is locked) and [ReleaseMutex] is two atomic steps (R1 refcount
    decrease under mapMutex, R2 mutex.Unlock), in exactly the Go code's order.
    A schedule is an arbitrary list of thread numbers; scheduling a blocked or
    finished thread is a stutter step.

    Left out: the work done inside the critical section (Model/Reservation.v
    models each section as one atomic step -- that atomicity is what
    [group_mutex_exclusion] justifies; Model/Sections.v adds bodies to this
    very protocol and Proofs/Sections.v derives the atomicity), mapMutex itself (its two bodies are the
    atomic steps A1 and R1), fairness / liveness.
    No proofs in this file. *)
From Coq Require Import List ZArith Bool PArith.
Import ListNotations.
Open Scope Z_scope.

Definition group := positive.
Definition mid := positive.          (* identity of a sync.Mutex object *)

(** Go maps as association lists: [ins] replaces, [del] removes the key. *)
Fixpoint lookup {V} (k : positive) (m : list (positive * V)) : option V :=
  match m with
  | [] => None
  | (k', v) :: r => if Pos.eqb k k' then Some v else lookup k r
  end.
Fixpoint del {V} (k : positive) (m : list (positive * V)) : list (positive * V) :=
  match m with
  | [] => []
  | (k', v) :: r => if Pos.eqb k k' then del k r else (k', v) :: del k r
  end.
Definition ins {V} (k : positive) (v : V) (m : list (positive * V)) : list (positive * V) :=
  (k, v) :: del k m.

(** [m[k]] on a [map[string]int]: zero value when the key is missing *)
Definition zget (k : positive) (m : list (positive * Z)) : Z :=
  match lookup k m with Some v => v | None => 0 end.

Definition mem_mid (m : mid) (l : list mid) : bool := existsb (Pos.eqb m) l.
Definition rem_mid (m : mid) (l : list mid) : list mid := filter (fun x => negb (Pos.eqb m x)) l.

Record gmutex := mkGM {
  gm_map : list (group * mid);       (* mutexMap *)
  gm_refs : list (group * Z);        (* mutexRefsMap *)
  gm_locked : list mid;              (* mutex objects that are currently locked *)
  gm_fresh : mid;                    (* next mutex identity *)
  gm_panic : bool                    (* a thread unlocked an unlocked mutex (Go: fatal error) *)
}.

Inductive pc :=
| PIdle                      (* outside; next: A1 of the next section, if any *)
| PWait (m : mid)            (* A1 done, about to run / blocked in  m.Lock() *)
| PHold (m : mid)            (* inside the critical section; next: R1 *)
| PRel (m : option mid).     (* R1 done (returned mutex or nil); next: R2 *)

Record thread := mkT {
  t_pc : pc;
  t_grp : group;             (* group of the current section (meaningless when idle) *)
  t_todo : list group        (* sections still to run *)
}.

Record config := mkC { c_gm : gmutex; c_thr : list thread }.

(** A1: acquireWithRefcountIncrease *)
Definition acquire_inc (x : group) (g : gmutex) : mid * gmutex :=
  let '(m, map', fresh') :=
    match lookup x (gm_map g) with
    | Some m => (m, gm_map g, gm_fresh g)
    | None => (gm_fresh g, ins x (gm_fresh g) (gm_map g), Pos.succ (gm_fresh g))
    end in
  (m, mkGM map' (ins x (zget x (gm_refs g) + 1) (gm_refs g)) (gm_locked g) fresh' (gm_panic g)).

(** R1: acquireWithRefcountDecrease *)
Definition acquire_dec (x : group) (g : gmutex) : option mid * gmutex :=
  match lookup x (gm_map g) with
  | None => (None, g)
  | Some m =>
      let r := zget x (gm_refs g) - 1 in
      if r =? 0
      then (Some m, mkGM (del x (gm_map g)) (del x (gm_refs g)) (gm_locked g) (gm_fresh g) (gm_panic g))
      else (Some m, mkGM (gm_map g) (ins x r (gm_refs g)) (gm_locked g) (gm_fresh g) (gm_panic g))
  end.

(** one atomic step of one thread *)
Definition step_thread (g : gmutex) (t : thread) : gmutex * thread :=
  match t_pc t with
  | PIdle =>
      match t_todo t with
      | [] => (g, t)
      | x :: rest => let (m, g') := acquire_inc x g in (g', mkT (PWait m) x rest)
      end
  | PWait m =>
      if mem_mid m (gm_locked g) then (g, t)     (* blocked in Lock() *)
      else (mkGM (gm_map g) (gm_refs g) (m :: gm_locked g) (gm_fresh g) (gm_panic g),
            mkT (PHold m) (t_grp t) (t_todo t))
  | PHold _ =>
      let (r, g') := acquire_dec (t_grp t) g in (g', mkT (PRel r) (t_grp t) (t_todo t))
  | PRel None => (g, mkT PIdle (t_grp t) (t_todo t))
  | PRel (Some m) =>
      if mem_mid m (gm_locked g)
      then (mkGM (gm_map g) (gm_refs g) (rem_mid m (gm_locked g)) (gm_fresh g) (gm_panic g),
            mkT PIdle (t_grp t) (t_todo t))
      else (mkGM (gm_map g) (gm_refs g) (gm_locked g) (gm_fresh g) true,
            mkT PIdle (t_grp t) (t_todo t))
  end.

Fixpoint upd {A} (i : nat) (x : A) (l : list A) : list A :=
  match l, i with
  | [], _ => []
  | _ :: r, O => x :: r
  | y :: r, S j => y :: upd j x r
  end.

Definition step (c : config) (i : nat) : config :=
  match nth_error (c_thr c) i with
  | None => c
  | Some t => let (g', t') := step_thread (c_gm c) t in mkC g' (upd i t' (c_thr c))
  end.

Definition run (sched : list nat) (c : config) : config := fold_left step sched c.

Definition gm_empty : gmutex := mkGM [] [] [] 1%positive false.
Definition init (progs : list (list group)) : config :=
  mkC gm_empty (map (fun p => mkT PIdle 1%positive p) progs).

(** observations *)
Definition in_cs (x : group) (t : thread) : Prop :=
  t_grp t = x /\ exists m, t_pc t = PHold m.
Definition done (t : thread) : Prop := t_pc t = PIdle /\ t_todo t = [].

Definition in_cs_b (x : group) (t : thread) : bool :=
  match t_pc t with PHold _ => Pos.eqb (t_grp t) x | _ => false end.
Definition done_b (t : thread) : bool :=
  match t_pc t, t_todo t with PIdle, [] => true | _, _ => false end.
