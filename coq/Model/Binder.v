(** Executable model of the binder's BindRequest reconcile (C11), AS IT IS in /repo.

    An abstract API store (the consumer pod, other pods incl. GPU reservation
    pods, the two GPU-sharing config maps of the consumer, the bind request's
    status, the node) and the reconcile as a PROGRAM: a value of the free monad
    [prog] whose instructions are the API calls the Go code makes, in the order it
    makes them, plus reads / writes of the IN-MEMORY pod object ([mem]) exactly
    where the code mutates [pod.Labels] / [pod.Spec.NodeName] / [pod.Status]
    (the same pointer is later handed to Rollback).  [exec] runs a program
    against the store under a fault oracle [faults : nat -> fault] indexed by the
    API-call number: [Fail k] = that call returns an error OF KIND [k] (the kinds
    the API server answers with: InternalError, ServerTimeout, NotFound, Conflict,
    AlreadyExists, Forbidden) and does not reach the store, [Crash] = that call and
    every later one fail (InternalError).  The program sees the kind: a response is
    [RErr k], whether the error was injected or is the API's own answer (a missing
    object is [RErr ENotFound], an existing one on create [RErr EExists], a refused
    binding [RErr EConflict]), exactly as the Go code sees an [error] value it can
    only classify with [apierrors.IsNotFound] etc.

    Concurrent actors: an environment oracle [env : nat -> list estep] lists the
    changes other actors make to the store right before API call number k of the
    reconcile: the consumer pod is bound to another node by a direct binding, it is
    deleted (terminating: deletionTimestamp set, held by a finalizer; or removed),
    it is removed and re-created under the same name with another UID, the
    BindRequest is deleted, the reservation pods of a group are deleted.

    Go functions modelled
      pkg/binder/controllers/bindrequest_controller.go
        Reconcile ([reconcile]), UpdateStatus + updatePodCondition ([deferred])
      pkg/binder/binding/binder.go
        Bind ([bind_prog]; its reaction to the binding call's answer is the parameter [on_bind]: the code is
        [bind_result_code] - every error, 409 Conflict included, fails the bind and Rollback follows; the
        variant [bind_result_conflict_is_success] is NOT the code, it exists to show what the theorems exclude),
        reserveGPUs ([reserve_gpus]), patchResourceReceivedTypeAnnotation, Rollback ([rollback])
      pkg/binder/binding/resourcereservation/resource_reservation.go
        SyncForNode / SyncForPodsList ([sync_for_node]), syncForGpuGroupWithLock / syncForPods
        ([sync_group], [sync_for_pods]), deleteNonReservedPods, deleteReservationPod,
        ReserveGpuDevice / acquireGPUIndexByGroup / findGPUIndexByGroup /
        createGPUReservationPodAndGetIndex / waitForGPUReservationPodAllocation ([reserve_gpu],
        [create_and_wait]), updatePodGPUGroup ([label_consumer]), RemovePodGpuGroupsConnection
      pkg/binder/plugins/plugins.go  PreBind / Rollback order (k8s-plugins, then gpusharing)
      pkg/binder/plugins/gpusharing/gpu_sharing.go  PreBind ([gpusharing_prebind]), Rollback
      pkg/binder/common/gpusharingconfigmap/config_map.go  UpsertJobConfigMap / patchConfigMap ([upsert_cm])
      pkg/binder/common/gpu_access.go  SetNvidiaVisibleDevices, SetGPUPortion,
        UpdateConfigMapEnvironmentVariable ([update_cm])
      pkg/common/resources/gpu_sharing.go  GetGpuGroups ([gpu_groups]), IsMultiFraction (static: [sc_multi])
      pkg/binder/plugins/k8s-plugins/k8s_plugins.go  PreBind: only the in-memory
        [pod.Spec.NodeName] writes; volume binding and DRA are an ORACLE ([sc_k8s_ok]).

    API semantics ([do_call]) follow controller-runtime's fake client as the
    harness uses it: a successful Patch of the pod overwrites the in-memory
    object with the server's; a merge patch that nulls a missing label is not an
    error; Get/Delete/Patch of a missing object is NotFound; the pods/binding
    sub-resource behaves like the API server's BindingREST (assignPod /
    setPodNodeAndMetadata): NotFound for a missing pod, 409 Conflict when the
    Binding's UID precondition does not match the stored pod, when the pod is being
    deleted, or when it already has a node name (whichever node); otherwise it
    assigns spec.nodeName.

    Environment oracles: [faults] (injected API errors), [env] (concurrent store changes), [dp] (the GPU device
    plugin: answers the k-th wait with a device index or stays silent until the
    reservation service times out), [ord] (Go map iteration order of
    SyncForPodsList: the order in which the groups of the k-th SyncForNode are
    visited), [sc_k8s_ok], [sc_same_msg] (the new PodBound message equals the old one).

    Left out: BindRequest deletionTimestamp, scale-adjust pods (the scaling
    namespace is empty), CDI device names, gpu-fraction-container-name (container
    0), ParseInt failure of gpu-fraction-num-devices, an empty device-index
    annotation, events, status.reason, log output, GroupMutex (one reconcile at a
    time), RetryOnConflict of the DRA plugin.  Ghost state (does not influence
    behaviour): [s_nfail], [s_mark], [s_log], [s_hist].
    No proofs in this file. *)
From Coq Require Import List Arith Bool PeanoNat.
Import ListNotations.

Definition gid := nat.

(** ** Observable vocabulary (shared with the harness) *)
Inductive pref := PSelf | PRsv (g : gid) | PSharer (g : gid) | POther.
Inductive cmref := CmCap | CmEvar | CmOther.
Inductive rtype := RRegular | RFraction | ROtherType.
Inductive brphase := BPending | BSucceeded | BFailed.
Inductive pphase := PhPending | PhRunning | PhOther.
Inductive envkey := ENumGpusBC | EPortion | EVisible | EVisibleBC | EOther.
Inductive kop := KSet (k : envkey) | KDel (k : envkey).
Inductive cval := VList (l : list nat) | VPortion | VOther.
Inductive lsel := LNode | LScaling | LRsv (g : gid) | LGroup (g : gid) | LMulti (g : gid) | LOther.
Inductive ekind := EInternal | ETimeout | ENotFound | EConflict | EExists | EForbidden.
Inductive fault := Ok | Fail (k : ekind) | Crash.
(** what another actor does to the store between two API calls of the reconcile *)
Inductive estep :=
| EvBindElsewhere        (* a direct binding assigns the consumer to another node *)
| EvTerminate            (* the consumer is deleted but held by a finalizer: deletionTimestamp set *)
| EvRemove               (* the consumer is deleted and gone *)
| EvRecreate             (* the consumer is removed and re-created under the same name: new UID, no labels, unbound *)
| EvDeleteBR             (* the BindRequest is deleted *)
| EvDeleteRsv (g : gid). (* the reservation pods of group g are deleted *)
Inductive outcome := OkO | ErrO | FailO | CrashO.

Inductive cobs :=
| CGetBR | CGetPod (r : pref) | CGetNode | CGetCM (c : cmref)
| CList (l : lsel)
| CCreateRsv (g : gid) | CCreateCM (c : cmref) (owner : nat)   (* owner: UID number of the consumer it names as only owner, 0 otherwise *)
| CDeletePod (r : pref) | CDeleteCM (c : cmref) | CDeleteBR
| CWatchRsv (g : gid)
| CPatchLabels (plain : option gid) (multi : list gid)
| CRemoveLabels (plain : bool) (multi : list gid)        (* merge patch nulling the labels *)
| CRemoveLabelsJson (plain : bool) (multi : list gid)    (* JSON patch, one remove per label: never issued by the code as it is *)
| CPatchRecv (t : rtype)
| CPatchCM (c : cmref) (owner clear : bool) (keys : list kop)
| CBind (selected : bool)
| CPatchBRStatus (ph : option brphase) (att : option nat)   (* the fields present in the merge patch *)
| CPatchPodCond (b : bool)
| CPatchOther | COther.

(** ** The API store *)
Record pod := mkPod {
  p_name : nat;            (* 0 = the consumer; 100+g sharer of group g; 200+g / 1000+g reservation pods *)
  p_rsv : bool;            (* lives in the reservation namespace *)
  p_node : nat;            (* spec.nodeName: 0 = "", 1 = the request's SelectedNode, 2 = another node *)
  p_phase : pphase;
  p_plain : option gid;    (* label runai-gpu-group *)
  p_multi : list gid;      (* labels runai-gpu-group/<g> *)
  p_idx : option nat;      (* annotation run.ai/reserve_for_gpu_index *)
  p_recv : option rtype;   (* annotation received-resource-type *)
  p_cond : option bool;    (* status condition PodBound *)
  p_uid : nat;             (* metadata.uid of the consumer: 1 = the pod the scenario starts with, +1 per re-creation; 0 for other pods *)
  p_term : bool            (* metadata.deletionTimestamp set *)
}.

(** the four keys the binder reads or writes; other keys of a config map are not modelled *)
Record cdata := mkData {
  d_num : option cval;      (* RUNAI_NUM_OF_GPUS *)
  d_portion : option cval;  (* GPU_PORTION *)
  d_vis : option cval;      (* NVIDIA_VISIBLE_DEVICES *)
  d_visbc : option cval     (* RUNAI-VISIBLE-DEVICES *)
}.
Definition data_empty : cdata := mkData None None None None.

Record cm := mkCM {
  cm_owner : nat;           (* u > 0: the only owner reference is the consumer pod with UID number u; 0: anything else *)
  cm_data : cdata
}.

Record brst := mkBR { b_phase : brphase; b_attempts : nat }.

Record store := mkStore {
  self : pod;
  self_alive : bool;
  others : list pod;
  cm_cap : option cm;       (* <prefix>-<container>       : capabilities / portion *)
  cm_evar : option cm;      (* <prefix>-<container>-evar  : directly injected env vars *)
  br : option brst;
  node_ok : bool
}.

(** Static inputs: the request's spec and what the code reads from the pod's
    immutable parts. *)
Record scen := mkScen {
  sc_fraction : bool;        (* spec.receivedResourceType = Fraction *)
  sc_groups : list gid;      (* spec.selectedGPUGroups *)
  sc_backoff : option nat;   (* spec.backoffLimit *)
  sc_multi : bool;           (* IsMultiFraction(pod) *)
  sc_cmann : bool;           (* annotation runai/shared-gpu-configmap present *)
  sc_vis_in_spec : bool;     (* NVIDIA_VISIBLE_DEVICES env of the container comes from a config-map key *)
  sc_k8s_ok : bool;          (* oracle: k8s-plugins PreBind succeeds *)
  sc_same_msg : bool         (* oracle: a new PodBound=False message equals the stored one *)
}.

(** ** Small helpers *)
Definition opt_is_some {A} (o : option A) : bool := match o with Some _ => true | None => false end.
Definition mem_nat (x : nat) (l : list nat) : bool := existsb (Nat.eqb x) l.
Fixpoint dedup (l : list nat) : list nat :=
  match l with
  | [] => []
  | x :: r => if mem_nat x r then dedup r else x :: dedup r
  end.
Fixpoint insert_nat (x : nat) (l : list nat) : list nat :=
  match l with
  | [] => [x]
  | y :: r => if x <=? y then x :: l else y :: insert_nat x r
  end.
Definition sort_nat (l : list nat) : list nat := fold_right insert_nat [] l.
Definition add_set (x : nat) (l : list nat) : list nat := if mem_nat x l then l else l ++ [x].
Definition remove_nat (x : nat) (l : list nat) : list nat := filter (fun y => negb (y =? x)) l.

Definition pref_eqb (a b : pref) : bool :=
  match a, b with
  | PSelf, PSelf | POther, POther => true
  | PRsv x, PRsv y | PSharer x, PSharer y => x =? y
  | _, _ => false
  end.
Definition cmref_eqb (a b : cmref) : bool :=
  match a, b with CmCap, CmCap | CmEvar, CmEvar | CmOther, CmOther => true | _, _ => false end.
Definition rtype_eqb (a b : rtype) : bool :=
  match a, b with RRegular, RRegular | RFraction, RFraction | ROtherType, ROtherType => true | _, _ => false end.
Definition brphase_eqb (a b : brphase) : bool :=
  match a, b with BPending, BPending | BSucceeded, BSucceeded | BFailed, BFailed => true | _, _ => false end.
Definition pphase_eqb (a b : pphase) : bool :=
  match a, b with PhPending, PhPending | PhRunning, PhRunning | PhOther, PhOther => true | _, _ => false end.
Definition envkey_rank (k : envkey) : nat :=
  match k with ENumGpusBC => 0 | EPortion => 1 | EVisible => 2 | EVisibleBC => 3 | EOther => 4 end.
Definition envkey_eqb (a b : envkey) : bool := envkey_rank a =? envkey_rank b.
Fixpoint list_nat_eqb (a b : list nat) : bool :=
  match a, b with
  | [], [] => true
  | x :: r, y :: s => (x =? y) && list_nat_eqb r s
  | _, _ => false
  end.
Definition cval_eqb (a b : cval) : bool :=
  match a, b with
  | VList x, VList y => list_nat_eqb x y
  | VPortion, VPortion | VOther, VOther => true
  | _, _ => false
  end.
Definition opt_nat_eqb (a b : option nat) : bool :=
  match a, b with Some x, Some y => x =? y | None, None => true | _, _ => false end.

Definition ref_of (p : pod) : pref :=
  if p_name p =? 0 then PSelf
  else if p_rsv p then match p_plain p with Some g => PRsv g | None => POther end
  else PSharer (p_name p - 100).

(** config-map data *)
Definition opt_cval_eqb (a b : option cval) : bool :=
  match a, b with Some x, Some y => cval_eqb x y | None, None => true | _, _ => false end.
Definition data_get (k : envkey) (d : cdata) : option cval :=
  match k with
  | ENumGpusBC => d_num d | EPortion => d_portion d | EVisible => d_vis d | EVisibleBC => d_visbc d
  | EOther => None
  end.
Definition data_set (k : envkey) (v : cval) (d : cdata) : cdata :=
  match k with
  | ENumGpusBC => mkData (Some v) (d_portion d) (d_vis d) (d_visbc d)
  | EPortion => mkData (d_num d) (Some v) (d_vis d) (d_visbc d)
  | EVisible => mkData (d_num d) (d_portion d) (Some v) (d_visbc d)
  | EVisibleBC => mkData (d_num d) (d_portion d) (d_vis d) (Some v)
  | EOther => d
  end.
Definition data_apply (sets : list (envkey * cval)) (d : cdata) : cdata :=
  fold_left (fun acc kv => data_set (fst kv) (snd kv) acc) sets d.
Definition data_is_empty (d : cdata) : bool :=
  negb (opt_is_some (d_num d) || opt_is_some (d_portion d) || opt_is_some (d_vis d) || opt_is_some (d_visbc d)).
(** merge-patch content going from [old] to [new] (no key is ever dropped): the
    keys whose value is new or changed, in key order *)
Definition diff_key (k : envkey) (old new : cdata) : list (envkey * cval) :=
  match data_get k new with
  | Some v => if opt_cval_eqb (data_get k old) (Some v) then [] else [(k, v)]
  | None => []
  end.
Definition data_diff (old new : cdata) : list (envkey * cval) :=
  diff_key ENumGpusBC old new ++ diff_key EPortion old new ++ diff_key EVisible old new ++ diff_key EVisibleBC old new.

(** ** Semantic API calls (the observable projection is [obs_of]) *)
Inductive call :=
| AGetBR | AGetPod | AGetNode | AGetCM (c : cmref)
| AList (l : lsel)
| ACreateRsv (g : gid) | ACreateCM (c : cmref) (u : nat)
| ADeletePod (n : nat) (r : pref) | ADeleteCM (c : cmref) | ADeleteBR
| AWatchRsv (n : nat) (g : gid)
| APatchLabels (plain : option gid) (multi : option gid)
| ARemoveLabels (plain : bool) (multi : list gid)
| APatchRecv (t : rtype)
| APatchCM (c : cmref) (owner : option nat) (clear : bool) (sets : list (envkey * cval))
| ABind (selected : bool) (uid : nat)      (* uid: the Binding's UID precondition (the in-memory pod's UID) *)
| APatchBRStatus (ph : option brphase) (att : option nat)
| APatchPodCond (b : bool).

Definition obs_of (c : call) : cobs :=
  match c with
  | AGetBR => CGetBR | AGetPod => CGetPod PSelf | AGetNode => CGetNode | AGetCM x => CGetCM x
  | AList l => CList l
  | ACreateRsv g => CCreateRsv g | ACreateCM x u => CCreateCM x u
  | ADeletePod _ r => CDeletePod r | ADeleteCM x => CDeleteCM x | ADeleteBR => CDeleteBR
  | AWatchRsv _ g => CWatchRsv g
  | APatchLabels p m => CPatchLabels p (match m with Some g => [g] | None => [] end)
  | ARemoveLabels p m => CRemoveLabels p (sort_nat m)
  | APatchRecv t => CPatchRecv t
  | APatchCM x o cl sets => CPatchCM x (opt_is_some o) cl (map (fun kv => KSet (fst kv)) sets)
  | ABind s _ => CBind s
  | APatchBRStatus ph a => CPatchBRStatus ph a
  | APatchPodCond b => CPatchPodCond b
  end.

(** [RErr k]: the call returned an error of kind [k] (injected or the API's own
    answer - the code cannot tell); [RRefused]: the wait for the device index got
    no answer (timeout of the reservation service, not an API error) *)
Inductive resp :=
| ROk | RErr (k : ekind) | RRefused
| RPods (l : list pod) | RPod (p : pod) | RCM (c : cm) | RBr (b : brst) | RName (n : nat) | RIdx (i : nat).
Notation RNotFound := (RErr ENotFound).

(** outcome of a call that reached the API *)
Definition resp_outcome (r : resp) : outcome :=
  match r with RErr _ | RRefused => ErrO | _ => OkO end.
Definition resp_ok (r : resp) : bool :=
  match r with RErr _ | RRefused => false | _ => true end.

(** pods in the order lists return them: reservation namespace first *)
Definition all_pods (s : store) : list pod :=
  filter p_rsv (others s) ++ (if self_alive s then [self s] else []) ++ filter (fun p => negb (p_rsv p)) (others s).

Definition selects (l : lsel) (p : pod) : bool :=
  match l with
  | LNode => opt_is_some (p_plain p) && (p_node p =? 1)
  | LScaling => false
  | LRsv g => p_rsv p && opt_nat_eqb (p_plain p) (Some g)
  | LGroup g => opt_nat_eqb (p_plain p) (Some g)
  | LMulti g => mem_nat g (p_multi p)
  | LOther => false
  end.

Definition set_self (s : store) (p : pod) : store :=
  mkStore p (self_alive s) (others s) (cm_cap s) (cm_evar s) (br s) (node_ok s).
Definition set_others (s : store) (o : list pod) : store :=
  mkStore (self s) (self_alive s) o (cm_cap s) (cm_evar s) (br s) (node_ok s).
Definition cm_get (x : cmref) (s : store) : option cm :=
  match x with CmCap => cm_cap s | CmEvar => cm_evar s | CmOther => None end.
Definition cm_put (x : cmref) (v : option cm) (s : store) : store :=
  match x with
  | CmCap => mkStore (self s) (self_alive s) (others s) v (cm_evar s) (br s) (node_ok s)
  | CmEvar => mkStore (self s) (self_alive s) (others s) (cm_cap s) v (br s) (node_ok s)
  | CmOther => s
  end.
Definition set_br (s : store) (b : option brst) : store :=
  mkStore (self s) (self_alive s) (others s) (cm_cap s) (cm_evar s) b (node_ok s).
Definition set_alive (s : store) (a : bool) : store :=
  mkStore (self s) a (others s) (cm_cap s) (cm_evar s) (br s) (node_ok s).

Definition with_labels (p : pod) (plain : option gid) (multi : list gid) : pod :=
  mkPod (p_name p) (p_rsv p) (p_node p) (p_phase p) plain multi (p_idx p) (p_recv p) (p_cond p) (p_uid p) (p_term p).
Definition with_node (p : pod) (n : nat) : pod :=
  mkPod (p_name p) (p_rsv p) n (p_phase p) (p_plain p) (p_multi p) (p_idx p) (p_recv p) (p_cond p) (p_uid p) (p_term p).
Definition with_idx (p : pod) (i : option nat) : pod :=
  mkPod (p_name p) (p_rsv p) (p_node p) (p_phase p) (p_plain p) (p_multi p) i (p_recv p) (p_cond p) (p_uid p) (p_term p).
Definition with_recv (p : pod) (t : option rtype) : pod :=
  mkPod (p_name p) (p_rsv p) (p_node p) (p_phase p) (p_plain p) (p_multi p) (p_idx p) t (p_cond p) (p_uid p) (p_term p).
Definition with_cond (p : pod) (c : option bool) : pod :=
  mkPod (p_name p) (p_rsv p) (p_node p) (p_phase p) (p_plain p) (p_multi p) (p_idx p) (p_recv p) c (p_uid p) (p_term p).
Definition with_term (p : pod) (t : bool) : pod :=
  mkPod (p_name p) (p_rsv p) (p_node p) (p_phase p) (p_plain p) (p_multi p) (p_idx p) (p_recv p) (p_cond p) (p_uid p) t.

Definition has_pod (n : nat) (l : list pod) : bool := existsb (fun p => p_name p =? n) l.
Definition del_pod (n : nat) (l : list pod) : list pod := filter (fun p => negb (p_name p =? n)) l.
Definition upd_pod (n : nat) (f : pod -> pod) (l : list pod) : list pod :=
  map (fun p => if p_name p =? n then f p else p) l.

Definition rsv_name (g : gid) : nat := 1000 + g.

(** [do_call c ans s]: what the API does with call [c] when it is reached
    ([ans] = the device plugin's answer, used by the wait only). *)
Definition do_call (c : call) (ans : option nat) (s : store) : store * resp :=
  match c with
  | AGetBR => (s, match br s with Some b => RBr b | None => RNotFound end)
  | AGetPod => (s, if self_alive s then RPod (self s) else RNotFound)
  | AGetNode => (s, if node_ok s then ROk else RNotFound)
  | AGetCM x => (s, match cm_get x s with Some v => RCM v | None => RNotFound end)
  | AList l => (s, RPods (filter (selects l) (all_pods s)))
  | ACreateRsv g =>
      if has_pod (rsv_name g) (others s) then (s, RErr EExists)
      else (set_others s (others s ++ [mkPod (rsv_name g) true 1 PhOther (Some g) [] None None None 0 false]),
            RName (rsv_name g))
  | ACreateCM x u =>
      match cm_get x s, x with
      | Some _, _ => (s, RErr EExists)
      | None, CmOther => (s, RErr EExists)
      | None, _ => (cm_put x (Some (mkCM u data_empty)) s, ROk)
      end
  | ADeletePod n _ =>
      if n =? 0 then (if self_alive s
                      then (set_alive (set_self s (mkPod 0 false 0 PhOther None [] None None None (p_uid (self s)) false)) false, ROk)
                      else (s, RNotFound))
      else if has_pod n (others s) then (set_others s (del_pod n (others s)), ROk) else (s, RNotFound)
  | ADeleteCM x =>
      match cm_get x s with
      | Some _ => (cm_put x None s, ROk)
      | None => (s, RNotFound)
      end
  | ADeleteBR =>
      match br s with Some _ => (set_br s None, ROk) | None => (s, RNotFound) end
  | AWatchRsv n g =>
      match ans with
      | Some i => if has_pod n (others s)
                  then (set_others s (upd_pod n (fun p => with_idx p (Some i)) (others s)), RIdx i)
                  else (s, RRefused)
      | None => (s, RRefused)
      end
  | APatchLabels plain multi =>
      if self_alive s then
        let p := self s in
        let p' := with_labels p (match plain with Some g => Some g | None => p_plain p end)
                              (match multi with Some g => add_set g (p_multi p) | None => p_multi p end) in
        (set_self s p', RPod p')
      else (s, RNotFound)
  | ARemoveLabels plain multi =>
      (* a merge patch that nulls the labels: a missing label is not an error *)
      if self_alive s then
        let p := self s in
        let p' := with_labels p (if plain then None else p_plain p)
                              (filter (fun g => negb (mem_nat g multi)) (p_multi p)) in
        (set_self s p', RPod p')
      else (s, RNotFound)
  | APatchRecv t =>
      if self_alive s then let p' := with_recv (self s) (Some t) in (set_self s p', RPod p')
      else (s, RNotFound)
  | APatchCM x owner clear sets =>
      match cm_get x s with
      | Some v =>
          let v' := mkCM (match owner with Some u => u | None => cm_owner v end)
                         (data_apply sets (if clear then data_empty else cm_data v)) in
          (cm_put x (Some v') s, ROk)
      | None => (s, RNotFound)
      end
  | ABind sel uid =>
      (* BindingREST.Create -> assignPod -> setPodNodeAndMetadata: a missing pod is NotFound; a failed UID
         precondition, a pod that is being deleted and a pod that already has a node name are 409 Conflict *)
      if self_alive s then
        if negb (uid =? p_uid (self s)) then (s, RErr EConflict)
        else if p_term (self s) then (s, RErr EConflict)
        else if p_node (self s) =? 0 then (set_self s (with_node (self s) (if sel then 1 else 2)), ROk)
        else (s, RErr EConflict)
      else (s, RNotFound)
  | APatchBRStatus ph att =>
      match br s with
      | Some b => (set_br s (Some (mkBR (match ph with Some x => x | None => b_phase b end)
                                        (match att with Some a => a | None => b_attempts b end))), ROk)
      | None => (s, RNotFound)
      end
  | APatchPodCond b =>
      if self_alive s then let p' := with_cond (self s) (Some b) in (set_self s p', RPod p')
      else (s, RNotFound)
  end.

(** ** The in-memory pod object *)
Record mem := mkMem {
  m_plain : option gid;
  m_multi : list gid;
  m_cond : option bool;
  m_node : nat;
  m_uid : nat               (* pod.UID: what the Binding's precondition and the config maps' owner reference are built from *)
}.
Definition mem_of (p : pod) : mem := mkMem (p_plain p) (p_multi p) (p_cond p) (p_node p) (p_uid p).
Definition mem_shell : mem := mkMem None [] None 0 0.
Definition mem_with_node (m : mem) (n : nat) : mem := mkMem (m_plain m) (m_multi m) (m_cond m) n (m_uid m).
Definition mem_with_labels (m : mem) (pl : option gid) (mu : list gid) : mem :=
  mkMem pl mu (m_cond m) (m_node m) (m_uid m).

(** ** What other actors do to the store *)
(** the consumer's record once it is gone *)
Definition dead_pod (u : nat) : pod := mkPod 0 false 0 PhOther None [] None None None u false.
(** the consumer as its controller re-creates it: same name, new UID, Pending, unbound, none of the binder's labels / annotations *)
Definition fresh_pod (u : nat) : pod := mkPod 0 false 0 PhPending None [] None None None u false.

Definition env_step (e : estep) (s : store) : store :=
  match e with
  | EvBindElsewhere =>
      (* goes through the same pods/binding handler: only an existing, not terminating, unbound pod can be bound *)
      if self_alive s && negb (p_term (self s)) && (p_node (self s) =? 0)
      then set_self s (with_node (self s) 2) else s
  | EvTerminate => if self_alive s then set_self s (with_term (self s) true) else s
  | EvRemove => if self_alive s then set_alive (set_self s (dead_pod (p_uid (self s)))) false else s
  | EvRecreate => set_alive (set_self s (fresh_pod (S (p_uid (self s))))) true
  | EvDeleteBR => set_br s None
  | EvDeleteRsv g =>
      set_others s (filter (fun p => negb (p_rsv p && opt_nat_eqb (p_plain p) (Some g))) (others s))
  end.
Definition apply_env (l : list estep) (s : store) : store := fold_left (fun a e => env_step e a) l s.
Definition no_env : nat -> list estep := fun _ => [].

(** ** Programs *)
Inductive prog (A : Type) : Type :=
| Ret (a : A)
| Api (c : call) (k : resp -> prog A)
| GetMem (k : mem -> prog A)
| SetMem (m : mem) (k : prog A)
| Order (gs : list gid) (k : list gid -> prog A)   (* Go map iteration order *)
| Mark (b : bool) (k : prog A).                    (* ghost: Rollback begins (true) / ends (false) *)
Arguments Ret {A} a.
Arguments Api {A} c k.
Arguments GetMem {A} k.
Arguments SetMem {A} m k.
Arguments Order {A} gs k.
Arguments Mark {A} b k.

Fixpoint bind {A B} (m : prog A) (f : A -> prog B) : prog B :=
  match m with
  | Ret a => f a
  | Api c k => Api c (fun r => bind (k r) f)
  | GetMem k => GetMem (fun x => bind (k x) f)
  | SetMem x k => SetMem x (bind k f)
  | Order gs k => Order gs (fun o => bind (k o) f)
  | Mark b k => Mark b (bind k f)
  end.
Notation "x <- m ;; k" := (bind m (fun x => k)) (at level 61, m at next level, right associativity).

(** ** Execution under faults *)
Record state := mkState {
  s_store : store;
  s_mem : mem;
  s_idx : nat;              (* number of API calls issued so far *)
  s_crashed : bool;
  s_watches : nat;          (* waits that reached the device plugin *)
  s_syncs : nat;            (* SyncForNode instances that listed their groups *)
  s_nfail : nat;            (* ghost: injected failures so far *)
  s_mark : option (nat * nat);   (* ghost: (call index, injected failures) when Rollback began *)
  s_mark_end : option nat;       (* ghost: injected failures when Rollback returned *)
  s_log : list (cobs * outcome); (* ghost, newest first *)
  s_hist : list nat              (* ghost, newest first: the consumer's server-side node after each call; 3 = deleted *)
}.

Definition init_state (st : store) : state := mkState st mem_shell 0 false 0 0 0 None None [] [].

Definition node_obs (st : store) : nat := if self_alive st then p_node (self st) else 3.

Section Exec.
  Variable faults : nat -> fault.
  Variable env : nat -> list estep.
  Variable dp : nat -> option nat.
  Variable ord : nat -> list gid.

  Definition is_watch (c : call) : bool := match c with AWatchRsv _ _ => true | _ => false end.

  (** API call number [s_idx s]: first the other actors' changes scheduled right
      before it, then the call itself - reaching the store, or failing with the
      injected kind without reaching it *)
  Definition step (c : call) (s : state) : state * resp :=
    let st0 := apply_env (env (s_idx s)) (s_store s) in
    let o := if s_crashed s then Fail EInternal else faults (s_idx s) in
    match o with
    | Ok =>
        let '(st', r) := do_call c (if is_watch c then dp (s_watches s) else None) st0 in
        (mkState st' (s_mem s) (S (s_idx s)) (s_crashed s)
                 (if is_watch c then S (s_watches s) else s_watches s) (s_syncs s)
                 (s_nfail s) (s_mark s) (s_mark_end s)
                 ((obs_of c, resp_outcome r) :: s_log s) (node_obs st' :: s_hist s), r)
    | Fail k =>
        (mkState st0 (s_mem s) (S (s_idx s)) (s_crashed s) (s_watches s) (s_syncs s)
                 (S (s_nfail s)) (s_mark s) (s_mark_end s)
                 ((obs_of c, FailO) :: s_log s) (node_obs st0 :: s_hist s), RErr k)
    | Crash =>
        (mkState st0 (s_mem s) (S (s_idx s)) true (s_watches s) (s_syncs s)
                 (S (s_nfail s)) (s_mark s) (s_mark_end s)
                 ((obs_of c, CrashO) :: s_log s) (node_obs st0 :: s_hist s), RErr EInternal)
    end.

  (** the iteration order of the k-th SyncForNode: the oracle's order restricted
      to the groups actually found, then whatever it left out *)
  Definition apply_order (o gs : list gid) : list gid :=
    let o' := dedup (filter (fun g => mem_nat g gs) o) in
    o' ++ filter (fun g => negb (mem_nat g o')) gs.

  Fixpoint exec {A} (p : prog A) (s : state) : state * A :=
    match p with
    | Ret a => (s, a)
    | Api c k => let '(s', r) := step c s in exec (k r) s'
    | GetMem k => exec (k (s_mem s)) s
    | SetMem m k =>
        exec k (mkState (s_store s) m (s_idx s) (s_crashed s) (s_watches s) (s_syncs s)
                        (s_nfail s) (s_mark s) (s_mark_end s) (s_log s) (s_hist s))
    | Order gs k =>
        exec (k (apply_order (ord (s_syncs s)) gs))
             (mkState (s_store s) (s_mem s) (s_idx s) (s_crashed s) (s_watches s) (S (s_syncs s))
                      (s_nfail s) (s_mark s) (s_mark_end s) (s_log s) (s_hist s))
    | Mark b k =>
        exec k (mkState (s_store s) (s_mem s) (s_idx s) (s_crashed s) (s_watches s) (s_syncs s)
                        (s_nfail s)
                        (if b then Some (s_idx s, s_nfail s) else s_mark s)
                        (if b then s_mark_end s else Some (s_nfail s))
                        (s_log s) (s_hist s))
    end.
End Exec.

(** ** The reconcile *)
Inductive err := ENone | EErr | EInvalid.   (* nil | an error | an error wrapping InvalidCrdWarning *)

(** resources.GetGpuGroups *)
Definition gpu_groups (p : pod) : list gid :=
  match p_plain p with
  | None => []
  | Some g => g :: p_multi p
  end.

Definition active_phase (p : pod) : bool :=
  match p_phase p with PhRunning | PhPending => true | PhOther => false end.

Definition last_rsv (ps : list pod) : option pod :=
  fold_left (fun acc p => if p_rsv p then Some p else acc) ps None.

(** deleteNonReservedPods: true = error *)
Fixpoint delete_running (ps : list pod) : prog bool :=
  match ps with
  | [] => Ret false
  | p :: r =>
      match p_phase p with
      | PhRunning =>
          Api (ADeletePod (p_name p) (ref_of p)) (fun x =>
            match x with ROk => delete_running r | _ => Ret true end)
      | _ => delete_running r
      end
  end.

(** deleteReservationPod: NotFound is not an error *)
Definition delete_rsv (n : nat) (r : pref) : prog bool :=
  Api (ADeletePod n r) (fun x => match x with ROk | RNotFound => Ret false | _ => Ret true end).   (* apierrors.IsNotFound *)

(** syncForPods *)
Definition sync_for_pods (ps : list pod) : prog bool :=
  let fr := filter (fun p => negb (p_rsv p) && active_phase p) ps in
  match fr, last_rsv ps with
  | _ :: _, None => delete_running fr
  | [], Some r => delete_rsv (p_name r) (ref_of r)
  | _, _ => Ret false
  end.

(** syncForGpuGroupWithLock *)
Definition sync_group (g : gid) : prog bool :=
  Api (AList (LGroup g)) (fun r1 =>
    match r1 with
    | RPods ps1 =>
        Api (AList (LMulti g)) (fun r2 =>
          match r2 with
          | RPods ps2 => sync_for_pods (ps1 ++ ps2)
          | _ => Ret true
          end)
    | _ => Ret true
    end).

Fixpoint sync_each (gs : list gid) : prog bool :=
  match gs with
  | [] => Ret false
  | g :: r => e <- sync_group g ;; if (e : bool) then Ret true else sync_each r
  end.

(** SyncForNode + SyncForPodsList *)
Definition sync_for_node : prog bool :=
  Api (AList LNode) (fun r =>
    match r with
    | RPods ps => Order (dedup (flat_map gpu_groups ps)) (fun gs => sync_each gs)
    | _ => Ret true
    end).

Section Reconcile.
  Variable sc : scen.
  (** how Bind treats the answer of the binding call (the code as it is: [bind_result_code]) *)
  Variable on_bind : resp -> err.
  (** where Bind takes the Binding's UID precondition from: [false] = the pod as it was when Bind started
      (the code as it is, since d9da4f6); [true] = the in-memory pod at the end of Bind, after its patches
      have overwritten it with the server's answers (the code BEFORE d9da4f6) *)
  Variable uid_at_end : bool.

  (** updatePodGPUGroup (+ the sync ReserveGpuDevice runs when the patch fails) *)
  Definition label_consumer (g : gid) (i : nat) : prog (option nat) :=
    GetMem (fun m =>
      let m' := if sc_multi sc then mem_with_labels m (m_plain m) (add_set g (m_multi m))
                else mem_with_labels m (Some g) (m_multi m) in
      let dplain := if sc_multi sc then None
                    else if opt_nat_eqb (m_plain m) (Some g) then None else Some g in
      let dmulti := if sc_multi sc then (if mem_nat g (m_multi m) then None else Some g) else None in
      SetMem m' (
        Api (APatchLabels dplain dmulti) (fun r =>
          match r with
          | RPod p => SetMem (mem_of p) (Ret (Some i))
          | _ => _ <- sync_group g ;; Ret None
          end))).

  (** createGPUReservationPodAndGetIndex *)
  Definition create_and_wait (g : gid) : prog (option nat) :=
    Api (AList LScaling) (fun _ =>
      Api (ACreateRsv g) (fun r =>
        match r with
        | RName n =>
            Api (AWatchRsv n g) (fun r2 =>
              match r2 with
              | RIdx i => Ret (Some i)
              | _ => Api (ADeletePod n (PRsv g)) (fun _ => Ret None)
              end)
        | _ => Ret None
        end)).

  (** ReserveGpuDevice *)
  Definition reserve_gpu (g : gid) : prog (option nat) :=
    Api (AList (LRsv g)) (fun r =>
      match r with
      | RPods [] =>
          oi <- create_and_wait g ;;
          match oi with Some i => label_consumer g i | None => Ret None end
      | RPods (p :: _) =>
          match p_idx p with
          | Some i => label_consumer g i
          | None => Ret None
          end
      | _ => Ret None
      end).

  Fixpoint reserve_loop (gs : list gid) (acc : list nat) : prog (option (list nat)) :=
    match gs with
    | [] => Ret (Some acc)
    | g :: r =>
        oi <- reserve_gpu g ;;
        match oi with
        | Some i => reserve_loop r (acc ++ [i])
        | None => Ret None
        end
    end.

  (** reserveGPUs *)
  Definition reserve_gpus : prog (err * list nat) :=
    match sc_groups sc with
    | [] => Ret (EInvalid, [])
    | gs => r <- reserve_loop gs [] ;;
            match r with Some idxs => Ret (ENone, idxs) | None => Ret (EErr, []) end
    end.

  (** UpsertJobConfigMap with empty data: true = error *)
  Definition upsert_cm (x : cmref) : prog bool :=
    GetMem (fun m =>
    Api (AGetCM x) (fun r =>
      match r with
      | RNotFound => Api (ACreateCM x (m_uid m)) (fun r2 => Ret (negb (resp_ok r2)))   (* errors.IsNotFound *)
      | RCM v =>
          if cm_owner v =? m_uid m       (* compareObjectOwners: the existing owner reference is this pod (name and UID) *)
          then Api (APatchCM x None false []) (fun r2 => Ret (negb (resp_ok r2)))
          else Api (APatchCM x (Some (m_uid m)) (negb (data_is_empty (cm_data v))) [])
                   (fun r2 => Ret (negb (resp_ok r2)))
      | _ => Ret true
      end)).

  (** UpdateConfigMapEnvironmentVariable *)
  Definition update_cm (x : cmref) (f : cdata -> cdata) : prog bool :=
    Api (AGetCM x) (fun r =>
      match r with
      | RCM v => Api (APatchCM x None false (data_diff (cm_data v) (f (cm_data v))))
                     (fun r2 => Ret (negb (resp_ok r2)))
      | _ => Ret true
      end).

  Definition set_visible (idxs : list nat) (d : cdata) : cdata :=
    let d1 := match data_get EVisibleBC d with
              | Some _ => data_set EVisibleBC (VList idxs) d
              | None => d
              end in
    data_set EVisible (VList idxs) d1.
  Definition set_portion (d : cdata) : cdata :=
    data_set EPortion VPortion (data_set ENumGpusBC VPortion d).

  (** gpusharing.PreBind for a shared-GPU request: true = error *)
  Definition gpusharing_prebind (idxs : list nat) : prog bool :=
    if negb (sc_cmann sc) then Ret true
    else
      e1 <- upsert_cm CmCap ;;
      if (e1 : bool) then Ret true else
      e2 <- upsert_cm CmEvar ;;
      if (e2 : bool) then Ret true else
      e3 <- update_cm (if sc_vis_in_spec sc then CmCap else CmEvar) (set_visible idxs) ;;
      if (e3 : bool) then Ret true else
      update_cm CmCap set_portion.

  Definition recv_type : rtype := if sc_fraction sc then RFraction else RRegular.

  (** Binder.Bind *)
  Definition bind_prog : prog err :=
    GetMem (fun m0 =>          (* podUID := pod.UID *)
    e0 <- sync_for_node ;;
    if (e0 : bool) then Ret EErr else
    r <- (if sc_fraction sc then reserve_gpus else Ret (ENone, [])) ;;
    match fst r with
    | ENone =>
        (* k8s-plugins PreBind writes pod.Spec.NodeName in memory; volume binding / DRA are an oracle *)
        GetMem (fun m => SetMem (mem_with_node m 1) (
          if negb (sc_k8s_ok sc)
          then GetMem (fun m2 => SetMem (mem_with_node m2 0) (Ret EErr))
          else
            e1 <- (if sc_fraction sc then gpusharing_prebind (snd r) else Ret false) ;;
            if (e1 : bool) then Ret EErr else
            Api (APatchRecv recv_type) (fun r1 =>
              match r1 with
              | RPod p =>
                  SetMem (mem_of p) (
                    Api (ABind true (if uid_at_end then p_uid p else m_uid m0)) (fun r2 => Ret (on_bind r2)))
              | _ => Ret EErr
              end)))
    | e => Ret e
    end).

  (** Binder.Rollback (its error is only logged) *)
  Definition rollback : prog unit :=
    Mark true (
      _ <- (_ <- (if sc_fraction sc && sc_cmann sc
            then Api (ADeleteCM CmCap) (fun _ => Api (ADeleteCM CmEvar) (fun _ => Ret tt))
            else Ret tt) ;;
      if sc_fraction sc then
        GetMem (fun m =>
          match m_plain m, m_multi m with
          | None, [] => _ <- sync_for_node ;; Ret tt          (* no GPU-group label in memory: no patch *)
          | _, _ =>
              Api (ARemoveLabels (opt_is_some (m_plain m)) (m_multi m)) (fun r =>
                match r with
                | RPod p => SetMem (mem_of p) (_ <- sync_for_node ;; Ret tt)
                | _ => _ <- sync_for_node ;; Ret tt
                end)
          end)
      else Ret tt) ;;
      Mark false (Ret tt)).

  (** the deferred UpdateStatus + updatePodCondition; result = (RequeueAfter seconds, error returned) *)
  Definition deferred (b : brst) (e : bool) : prog (nat * bool) :=
    let ph' := if e then BFailed else BSucceeded in
    let bump := e && match sc_backoff sc with Some l => b_attempts b <? l | None => false end in
    let requeue := if bump then 2 ^ b_attempts b else 0 in
    e' <- (if brphase_eqb (b_phase b) ph' && negb bump then Ret false
           else Api (APatchBRStatus (if brphase_eqb (b_phase b) ph' then None else Some ph')
                                    (if bump then Some (S (b_attempts b)) else None)) (fun _ => Ret e)) ;;
    (* updatePodCondition(ctx, bindRequest, pod, ctrl.Result{}, bindErr): the outcome of the bind itself
       (since 5e8c8c9), not what UpdateStatus returned nor the requeue delay *)
    let c := negb e in
    GetMem (fun m =>
      let changed := match m_cond m with
                     | None => true
                     | Some old => if Bool.eqb old c then (if c then false else negb (sc_same_msg sc)) else true
                     end in
      if changed then Api (APatchPodCond c) (fun _ => Ret (requeue, e')) else Ret (requeue, e')).

  (** BindRequestReconciler.Reconcile *)
  Definition reconcile : prog (nat * bool) :=
    Api AGetBR (fun r =>
      match r with
      | RBr b =>
          match b_phase b with
          | BSucceeded => Ret (0, false)
          | _ =>
              SetMem mem_shell (
                Api AGetPod (fun r1 =>
                  match r1 with
                  | RPod p =>
                      SetMem (mem_of p) (
                        if negb (p_node p =? 0) then deferred b false
                        else
                          Api AGetNode (fun r2 =>
                            match r2 with
                            | ROk =>
                                e <- bind_prog ;;
                                e2 <- match e with
                                      | ENone => Ret false
                                      | EErr => Ret true
                                      | EInvalid => Api ADeleteBR (fun r3 => Ret (negb (resp_ok r3)))
                                      end ;;
                                _ <- (if (e2 : bool) then rollback else Ret tt) ;;
                                deferred b e2
                            | _ => deferred b true
                            end))
                  | _ => deferred b true
                  end))
          end
      | RNotFound => Ret (0, false)      (* client.IgnoreNotFound *)
      | _ => Ret (0, true)
      end).
End Reconcile.

(** Bind as it is: every error of the binding call - Conflict included - fails the bind (Rollback follows) *)
Definition bind_result_code (r : resp) : err := match r with ROk => ENone | _ => EErr end.
(** the VARIANT that takes a 409 Conflict of the binding call for "the pod is already bound": not the code *)
Definition bind_result_conflict_is_success (r : resp) : err :=
  match r with ROk | RErr EConflict => ENone | _ => EErr end.

(** one reconcile from a store *)
Definition run_with (on_bind : resp -> err) (uid_at_end : bool) (sc : scen) (faults : nat -> fault)
  (env : nat -> list estep) (dp : nat -> option nat) (ord : nat -> list gid) (st : store) : state * (nat * bool) :=
  exec faults env dp ord (reconcile sc on_bind uid_at_end) (init_state st).
Definition run := run_with bind_result_code false.
(** the variants, named for what they are *)
Definition run_conflict_is_success := run_with bind_result_conflict_is_success false.
(** Bind before d9da4f6: the Binding's UID precondition is read from the in-memory pod at the end of Bind *)
Definition run_uid_at_end := run_with bind_result_code true.
