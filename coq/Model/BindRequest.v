(** Executable model of the BindRequest hand-off between scheduler and binder (C12).

    An abstract API store (pods, nodes, bind requests) and the code of both
    components that reads / writes bind requests, AS IT IS in /repo:

    scheduler
      - [commit]                 pkg/scheduler/cache/cache.go  SchedulerCache.Bind / createBindRequest
                                 (the request is named after the pod, so there is at most one per pod;
                                 phase empty, failedAttempts 0; createBindRequest itself leaves
                                 spec.backoffLimit nil -- [Commit] carries the limit so that requests
                                 with a limit written by someone else are covered too)
      - [is_failed]              pkg/scheduler/api/bindrequest_info/binrequest_info.go  BindRequestInfo.IsFailed
      - [get_bind_request_for_pod]   ... BindRequestMap.GetBindRequestForPod
      - [task_status]            pkg/scheduler/api/pod_info/pod_info.go  getTaskStatus
      - [new_task_info]          ... NewTaskInfoWithBindRequest (NodeName, Status) + updatePodAdditionalFields (GPUGroups)
      - [snapshot_bind_requests] pkg/scheduler/cache/cluster_info/cluster_info.go  snapshotBindRequests
      - [snapshot_view]          ... Snapshot / getNodeToPodInfosMap / addTasksToNodes +
                                 node_info.AddTasksToNode (a task is charged to node n iff its NodeName is n,
                                 n is in the snapshot and its status is an active-used one)
      - [clean_stale]            pkg/scheduler/cache/cache.go  SchedulerCache.Snapshot / cleanStaleBindRequest
    binder
      - [reconcile], [attempt]   pkg/binder/controllers/bindrequest_controller.go  BindRequestReconciler.Reconcile
      - [next_status], [update_status_v0]   ... UpdateStatus (in-memory update; patch decision; returned result)
    environment: pod bound without the request being updated, node deletion / creation,
      request deletion, pod creation / deletion / phase change / deletion timestamp.

    Left out: the binder's Bind itself (an oracle: [outcome]), Rollback, pod conditions and
    events, status.reason (an error string), API errors on Get/Patch/Delete (C11), the
    InvalidCrdWarning path, BindRequest deletionTimestamp / finalizers, node-pool label
    selector (empty selector: every request matches), DRA resource claims, received
    resource type, overflow of [1 << FailedAttempts] as a time.Duration (attempts < 33).
    No proofs in this file. *)
From Coq Require Import List ZArith Bool PArith.
Import ListNotations.
Open Scope Z_scope.

Inductive pod_phase := PPending | PRunning | PSucceeded | PFailed | PUnknown.
Inductive br_phase := BPending | BSucceeded | BFailed.
Inductive task_status :=
  TPending | TGated | TBinding | TBound | TRunning | TReleasing | TSucceeded | TFailed | TUnknown.

Record pod := mkPod {
  p_id : positive;
  p_node : option positive;      (* spec.nodeName, None = "" *)
  p_phase : pod_phase;           (* status.phase; anything but the four named phases is PUnknown *)
  p_deleting : bool;             (* deletionTimestamp != nil *)
  p_gated : bool;                (* len(spec.schedulingGates) > 0 *)
  p_groups : list positive;      (* GPU groups read from the pod's own labels (resources.GetGpuGroups) *)
  p_req : Z                      (* cpu request in millis: the resource the accounting is observed on *)
}.

Record bindreq := mkBR {
  b_pod : positive;              (* metadata.name = spec.podName *)
  b_node : positive;             (* spec.selectedNode *)
  b_groups : list positive;      (* spec.selectedGPUGroups *)
  b_limit : option Z;            (* spec.backoffLimit *)
  b_phase : br_phase;            (* status.phase; "" and "Pending" are BPending *)
  b_attempts : Z                 (* status.failedAttempts *)
}.

Record store := mkStore {
  pods : list pod;
  nodes : list positive;
  brs : list bindreq
}.

Definition br_phase_eqb (a b : br_phase) : bool :=
  match a, b with
  | BPending, BPending | BSucceeded, BSucceeded | BFailed, BFailed => true
  | _, _ => false
  end.

Definition find_pod (ps : list pod) (p : positive) : option pod :=
  find (fun x => Pos.eqb (p_id x) p) ps.
Definition find_br (bs : list bindreq) (p : positive) : option bindreq :=
  find (fun b => Pos.eqb (b_pod b) p) bs.
Definition memp (n : positive) (ns : list positive) : bool := existsb (Pos.eqb n) ns.

(** * Scheduler side *)

(** BindRequestInfo.IsFailed *)
Definition is_failed (b : bindreq) : bool :=
  match b_phase b with
  | BFailed =>
      match b_limit b with
      | None => true
      | Some l => b_attempts b >=? l
      end
  | _ => false
  end.

(** snapshotBindRequests: requests whose selected node is not in the snapshot go to
    the "for deleted nodes" list and are not attached to pods. *)
Definition snapshot_bind_requests (s : store) : list bindreq * list bindreq :=
  (filter (fun b => memp (b_node b) (nodes s)) (brs s),
   filter (fun b => negb (memp (b_node b) (nodes s))) (brs s)).

(** BindRequestMap.GetBindRequestForPod *)
Definition get_bind_request_for_pod (live : list bindreq) (p : positive) : option bindreq :=
  match find_br live p with
  | Some b => if is_failed b then None else Some b
  | None => None
  end.

(** getTaskStatus *)
Definition task_status_of (p : pod) (br : option bindreq) : task_status :=
  match p_phase p with
  | PRunning => if p_deleting p then TReleasing else TRunning
  | PPending =>
      if p_deleting p then TReleasing
      else match p_node p with
           | Some _ => TBound
           | None =>
               match br with
               | Some _ => TBinding
               | None => if p_gated p then TGated else TPending
               end
           end
  | PUnknown => TUnknown
  | PSucceeded => TSucceeded
  | PFailed => TFailed
  end.

Record task := mkTask {
  t_node : option positive;
  t_status : task_status;
  t_groups : list positive
}.

(** NewTaskInfoWithBindRequest + updatePodAdditionalFields (node, status, GPU groups) *)
Definition new_task_info (p : pod) (br : option bindreq) : task :=
  {| t_node := match p_node p with
               | Some n => Some n
               | None => match br with Some b => Some (b_node b) | None => None end
               end;
     t_status := task_status_of p br;
     t_groups := match br with
                 | Some b => match b_groups b with [] => p_groups p | _ :: _ => b_groups b end
                 | None => p_groups p
                 end |}.

(** pod_status.IsActiveUsedStatus restricted to the statuses a snapshot produces *)
Definition active_used (st : task_status) : bool :=
  match st with
  | TBinding | TBound | TRunning | TReleasing => true
  | _ => false
  end.

Record view := mkView {
  v_failed : list (positive * bool);            (* IsFailed of every request in the store *)
  v_tasks : list (positive * task);             (* one task per pod *)
  v_charged : list (positive * list positive);  (* per node of the snapshot: pods in node.PodInfos *)
  v_used : list (positive * Z)                  (* per node: used cpu millis *)
}.

Definition on_node (n : positive) (t : task) : bool :=
  match t_node t with Some m => Pos.eqb m n | None => false end.

Definition pod_tasks (s : store) : list (pod * task) :=
  let live := fst (snapshot_bind_requests s) in
  map (fun p => (p, new_task_info p (get_bind_request_for_pod live (p_id p)))) (pods s).

Definition charged_pods (pts : list (pod * task)) (n : positive) : list pod :=
  map fst (filter (fun pt => on_node n (snd pt) && active_used (t_status (snd pt))) pts).

Definition snapshot_view (s : store) : view :=
  let pts := pod_tasks s in
  {| v_failed := map (fun b => (b_pod b, is_failed b)) (brs s);
     v_tasks := map (fun pt => (p_id (fst pt), snd pt)) pts;
     v_charged := map (fun n => (n, map p_id (charged_pods pts n))) (nodes s);
     v_used := map (fun n => (n, fold_right Z.add 0 (map p_req (charged_pods pts n)))) (nodes s) |}.

(** cleanStaleBindRequest: every request for a deleted node and every failed request is deleted *)
Definition clean_stale (s : store) : store :=
  {| pods := pods s; nodes := nodes s;
     brs := filter (fun b => negb (is_failed b)) (fst (snapshot_bind_requests s)) |}.

(** createBindRequest (Create fails with AlreadyExists when a request of that name exists) *)
Definition commit (s : store) (p n : positive) (gs : list positive) (lim : option Z) : store :=
  match find_br (brs s) p with
  | Some _ => s
  | None =>
      {| pods := pods s; nodes := nodes s;
         brs := brs s ++ [ {| b_pod := p; b_node := n; b_groups := gs; b_limit := lim;
                              b_phase := BPending; b_attempts := 0 |} ] |}
  end.

(** * Binder side *)

Inductive outcome := Fail | Succeed.      (* what binder.Bind returns when it is reached *)

(** what Reconcile returns: a panic, or (result.RequeueAfter in seconds, err != nil) *)
Inductive rresult := RPanic | RDone (requeue_after : Z) (err : bool).

Inductive upd_result :=
| UPanic                                               (* 1 << negative count *)
| UDone (patch : option bindreq) (requeue_after : Z) (err : bool).

Definition with_status (b : bindreq) (ph : br_phase) (fa : Z) : bindreq :=
  {| b_pod := b_pod b; b_node := b_node b; b_groups := b_groups b; b_limit := b_limit b;
     b_phase := ph; b_attempts := fa |}.

(** UpdateStatus, first half: the in-memory status and the requested delay *)
Definition next_status (b : bindreq) (err : bool) : bindreq * Z :=
  if err then
    match b_limit b with
    | Some l =>
        if l >? b_attempts b
        then (with_status b BFailed (b_attempts b + 1), 2 ^ b_attempts b)
        else (with_status b BFailed (b_attempts b), 0)
    | None => (with_status b BFailed (b_attempts b), 0)
    end
  else (with_status b BSucceeded (b_attempts b), 0).

Definition shift_panics (b : bindreq) (err : bool) : bool :=
  err && match b_limit b with Some l => (l >? b_attempts b) && (b_attempts b <? 0) | None => false end.

(** UpdateStatus, second half: [changed old new] decides whether the status is patched.
    Not patched: the error is swallowed (return result, nil). *)
Definition update_status_with (changed : bindreq -> bindreq -> bool) (b : bindreq) (err : bool)
  : upd_result :=
  if shift_panics b err then UPanic
  else
    let (nb, rq) := next_status b err in
    if changed b nb then UDone (Some nb) rq err else UDone None rq false.

(** the code as it is: [if originalBindRequest.Status.Phase == bindRequest.Status.Phase { return result, nil }] *)
Definition changed_v0 (old new : bindreq) : bool :=
  negb (br_phase_eqb (b_phase old) (b_phase new)).
(** the repaired rule: patch when the phase or the attempt count changed *)
Definition changed_fixed (old new : bindreq) : bool :=
  negb (br_phase_eqb (b_phase old) (b_phase new)) || negb (b_attempts old =? b_attempts new).

Definition update_status_v0 := update_status_with changed_v0.
Definition update_status_fixed := update_status_with changed_fixed.

(** THE SWITCH: the rule the correspondence check (Run/C12.v) runs against /repo. *)
Definition update_status := update_status_fixed.

Definition set_pod_node (s : store) (p n : positive) : store :=
  {| pods := map (fun x => if Pos.eqb (p_id x) p
                           then {| p_id := p_id x; p_node := Some n; p_phase := p_phase x;
                                   p_deleting := p_deleting x; p_gated := p_gated x;
                                   p_groups := p_groups x; p_req := p_req x |}
                           else x) (pods s);
     nodes := nodes s; brs := brs s |}.

Definition set_br (s : store) (nb : bindreq) : store :=
  {| pods := pods s; nodes := nodes s;
     brs := map (fun x => if Pos.eqb (b_pod x) (b_pod nb) then nb else x) (brs s) |}.

(** Reconcile between the early returns and the deferred UpdateStatus:
    returns the store (the pod is bound when Bind succeeds) and whether err != nil *)
Definition attempt (s : store) (b : bindreq) (o : outcome) : store * bool :=
  match find_pod (pods s) (b_pod b) with
  | None => (s, true)                                   (* Get pod: not found *)
  | Some pd =>
      match p_node pd with
      | Some _ => (s, false)                            (* already bound *)
      | None =>
          if memp (b_node b) (nodes s)
          then match o with
               | Succeed => (set_pod_node s (b_pod b) (b_node b), false)
               | Fail => (s, true)                      (* Bind failed; Rollback *)
               end
          else (s, true)                                (* Get node: not found *)
      end
  end.

Definition reconcile (upd : bindreq -> bool -> upd_result) (s : store) (p : positive) (o : outcome)
  : store * rresult :=
  match find_br (brs s) p with
  | None => (s, RDone 0 false)                          (* not found: IgnoreNotFound *)
  | Some b =>
      match b_phase b with
      | BSucceeded => (s, RDone 0 false)
      | _ =>
          let (s1, err) := attempt s b o in
          match upd b err with
          | UPanic => (s1, RPanic)
          | UDone (Some nb) rq e => (set_br s1 nb, RDone rq e)
          | UDone None rq e => (s1, RDone rq e)
          end
      end
  end.

(** * Transitions *)

Inductive event :=
| Commit (p n : positive) (gs : list positive) (lim : option Z)   (* scheduler: Bind *)
| Snapshot                                                        (* scheduler: Snapshot (+ cleanup) *)
| Reconcile (p : positive) (o : outcome)                          (* binder *)
| EnvBindPod (p n : positive)        (* pod bound, request not (yet) updated *)
| EnvDeleteNode (n : positive)
| EnvAddNode (n : positive)
| EnvDeleteBR (p : positive)
| EnvAddPod (pd : pod)
| EnvDeletePod (p : positive)
| EnvPodPhase (p : positive) (ph : pod_phase)
| EnvPodDeleting (p : positive).

Definition env_bind_pod (s : store) (p n : positive) : store :=
  match find_pod (pods s) p with
  | Some pd => match p_node pd with None => set_pod_node s p n | Some _ => s end
  | None => s
  end.

Definition map_pod (s : store) (p : positive) (f : pod -> pod) : store :=
  {| pods := map (fun x => if Pos.eqb (p_id x) p then f x else x) (pods s);
     nodes := nodes s; brs := brs s |}.

Definition step (upd : bindreq -> bool -> upd_result) (s : store) (e : event) : store :=
  match e with
  | Commit p n gs lim => commit s p n gs lim
  | Snapshot => clean_stale s
  | Reconcile p o => fst (reconcile upd s p o)
  | EnvBindPod p n => env_bind_pod s p n
  | EnvDeleteNode n =>
      {| pods := pods s; nodes := filter (fun m => negb (Pos.eqb m n)) (nodes s); brs := brs s |}
  | EnvAddNode n =>
      if memp n (nodes s) then s else {| pods := pods s; nodes := nodes s ++ [n]; brs := brs s |}
  | EnvDeleteBR p =>
      {| pods := pods s; nodes := nodes s;
         brs := filter (fun b => negb (Pos.eqb (b_pod b) p)) (brs s) |}
  | EnvAddPod pd =>
      match find_pod (pods s) (p_id pd) with
      | Some _ => s
      | None => {| pods := pods s ++ [pd]; nodes := nodes s; brs := brs s |}
      end
  | EnvDeletePod p =>
      {| pods := filter (fun x => negb (Pos.eqb (p_id x) p)) (pods s); nodes := nodes s; brs := brs s |}
  | EnvPodPhase p ph =>
      map_pod s p (fun x => {| p_id := p_id x; p_node := p_node x; p_phase := ph;
                               p_deleting := p_deleting x; p_gated := p_gated x;
                               p_groups := p_groups x; p_req := p_req x |})
  | EnvPodDeleting p =>
      map_pod s p (fun x => {| p_id := p_id x; p_node := p_node x; p_phase := p_phase x;
                               p_deleting := true; p_gated := p_gated x;
                               p_groups := p_groups x; p_req := p_req x |})
  end.

Fixpoint run (upd : bindreq -> bool -> upd_result) (s : store) (tr : list event) : store :=
  match tr with
  | [] => s
  | e :: tr' => run upd (step upd s e) tr'
  end.

(** what the step lets the outside see *)
Inductive observation :=
| ONone
| OView (v : view)
| OResult (r : rresult).

Definition observe (upd : bindreq -> bool -> upd_result) (s : store) (e : event) : observation :=
  match e with
  | Snapshot => OView (snapshot_view s)
  | Reconcile p o => OResult (snd (reconcile upd s p o))
  | _ => ONone
  end.
