(** Workload (pod group) accounting of the scheduler core (property C14, workload clause):
      pkg/scheduler/api/podgroup_info/job_info.go
        AddTaskInfo, addTaskIndex, UpdateTaskStatus, resetTaskState, deleteTaskIndex,
        GetActiveAllocatedTasksCount, GetNumPendingTasks, GetNumGatedTasks, GetNumActiveUsedTasks,
        GetNumAllocatedTasks, GetNumAliveTasks, GetActivelyRunningTasksCount, IsGangSatisfied,
        IsReadyForScheduling, IsStale, ShouldPipelineJob, IsElastic
      pkg/scheduler/api/podgroup_info/subgroup_info/podset.go
        AssignTask, clearOldStatus and the counters numActiveAllocatedTasks / numActiveUsedTasks /
        numAliveTasks, podStatusIndex (GetNumPendingTasks, GetNumGatedTasks), IsGangSatisfied,
        IsReadyForScheduling, IsElastic.

    What the real PodGroupInfo keeps INCREMENTALLY and this model keeps the same way:
      Allocated / AllocatedVector      sum of ResReq / ResReqVector of the pods in an allocated status
      PodStatusIndex                   per status, the set of pod UIDs ([ix]: a duplicate free list of
                                       (status, uid) entries; sizes and members are both observable)
      activeAllocatedCount             +1 in addTaskIndex when the pod ENTERS an active-allocated status,
                                       -1 in deleteTaskIndex when it LEAVES one
      per pod set                      numActiveAllocatedTasks, numActiveUsedTasks, numAliveTasks,
                                       podStatusIndex
    and what it recomputes from the pods on every call (GetNumActiveUsedTasks, GetNumAllocatedTasks,
    GetNumAliveTasks, GetActivelyRunningTasksCount, ShouldPipelineJob) is a function of the pod table here too.

    Faithfulness notes.
    - deleteTaskIndex is keyed by the status of the PASSED object ([passed]), resetTaskState gives the
      resources back according to the status of the job's OWN object, the pod set forgets the status IT
      remembers (podStatusMap): the three coincide when the caller passes the job's own object (every call
      site of the scheduler does, or passes a copy with the same status), and the model has all three so that
      the refutations below can show what a stale copy does.  The decrement test of deleteTaskIndex is a
      parameter ([dec]); the code is [dec := active_allocated]; [allocated_status] is the one-line variant that
      forgets Pipelined.
    - deleteTaskIndex does nothing at all when PodStatusIndex has no map for the passed status ([ix_found]).
    - AddTaskInfo of a pod whose sub group is not a pod set of the job logs a warning and does nothing.
    - The pods live in the pod sets (PodSet.podInfos); GetAllPodsMap is their union.  A pod's pod set is
      fixed by its label, so the model keeps one table [jb_pods] and a pod set's pods are the entries
      with that [jp_pset]; podStatusMap (the status the pod set remembers) is the status of the stored
      pod, because nothing but UpdateTaskStatus writes PodInfo.Status.
    - The code has no "remove pod" entry point at workload level (a snapshot is rebuilt every cycle);
      [jremove_task] is the un-index half of UpdateTaskStatus (resetTaskState + PodSet.clearOldStatus, what
      PodSet.WithPodInfos does per pod) so that histories with removals are covered;
      UpdateTaskStatus is shown to be remove-then-add (Proofs/JobBooks.v).
    - len(AllocatedVector) > 0 and len(ResReqVector) > 0 (vectors are always built by the snapshot). *)
From Coq Require Import List ZArith PArith Bool.
From KaiV Require Import Model.Res Model.Status Model.AMap Model.NodeSpec.
Import ListNotations.
Open Scope Z_scope.

Record jpod := mkJP {
  jp_id : positive;
  jp_status : status;
  jp_pset : positive;      (* SubGroupName (DefaultSubGroup when empty) *)
  jp_req : res;            (* what Resource.AddResourceRequirements(ResReq) adds: structured form *)
  jp_reqv : res;           (* ResReqVector *)
}.
Definition jp_with (p : jpod) (s : status) : jpod := mkJP (jp_id p) s (jp_pset p) (jp_req p) (jp_reqv p).

Definition bz (b : bool) : Z := if b then 1 else 0.
Definition cnt {A} (f : A -> bool) (l : list A) : Z := Z.of_nat (List.length (filter f l)).

(** * PodStatusIndex: status -> set of UIDs *)
Definition ikey := (status * positive)%type.
Definition ikey_eqb (a b : ikey) : bool := status_eqb (fst a) (fst b) && Pos.eqb (snd a) (snd b).
Definition ix := list ikey.
Definition ix_mem (k : ikey) (i : ix) : bool := existsb (ikey_eqb k) i.
(** [m[status][uid] = pod] *)
Definition ix_add (k : ikey) (i : ix) : ix := if ix_mem k i then i else k :: i.
(** [delete(m[status], uid)] *)
Definition ix_del (k : ikey) (i : ix) : ix := filter (fun e => negb (ikey_eqb k e)) i.
Definition in_status (s : status) (e : ikey) : bool := status_eqb s (fst e).
(** [_, found := m[status]] (a map that became empty is deleted) *)
Definition ix_found (s : status) (i : ix) : bool := existsb (in_status s) i.
(** [len(m[status])] *)
Definition ix_size (s : status) (i : ix) : Z := cnt (in_status s) i.
Definition ix_ids (s : status) (i : ix) : list positive := map snd (filter (in_status s) i).

Definition pkey (p : jpod) : ikey := (jp_status p, jp_id p).

(** * subgroup_info.PodSet *)
Record psetb := mkPSB { pb_min : Z; pb_idx : ix; pb_aa : Z; pb_au : Z; pb_alive : Z }.

(** clearOldStatus: [old] is the pod set's own entry for the UID (None: not found, nothing happens) *)
Definition ps_clear (old : option jpod) (ps : psetb) : psetb :=
  match old with
  | None => ps
  | Some o =>
      let s := jp_status o in
      mkPSB (pb_min ps) (ix_del (pkey o) (pb_idx ps))
            (pb_aa ps - bz (active_allocated s)) (pb_au ps - bz (active_used s)) (pb_alive ps - bz (alive s))
  end.
Definition ps_insert (p : jpod) (ps : psetb) : psetb :=
  let s := jp_status p in
  mkPSB (pb_min ps) (ix_add (pkey p) (pb_idx ps))
        (pb_aa ps + bz (active_allocated s)) (pb_au ps + bz (active_used s)) (pb_alive ps + bz (alive s)).
(** AssignTask *)
Definition ps_assign (old : option jpod) (p : jpod) (ps : psetb) : psetb := ps_insert p (ps_clear old ps).

Definition ps_num_pending (ps : psetb) : Z := ix_size Pending (pb_idx ps).
Definition ps_num_gated (ps : psetb) : Z := ix_size Gated (pb_idx ps).
Definition ps_gang_satisfied (ps : psetb) : bool := pb_min ps <=? pb_au ps.
Definition ps_ready (ps : psetb) : bool := pb_min ps <=? pb_alive ps - ps_num_gated ps.

(** * podgroup_info.PodGroupInfo *)
Record jobb := mkJB {
  jb_pods : amap jpod;       (* GetAllPodsMap *)
  jb_psets : amap psetb;     (* PodSets *)
  jb_alloc : res;            (* Allocated *)
  jb_allocv : res;           (* AllocatedVector *)
  jb_idx : ix;               (* PodStatusIndex *)
  jb_active : Z;             (* activeAllocatedCount *)
}.

Definition jb_init (mins : amap Z) : jobb :=
  mkJB [] (map (fun kv => (fst kv, mkPSB (snd kv) [] 0 0 0)) mins) rzero rzero [] 0.

(** the pod set's own entry for a UID *)
Definition ps_entry (j : jobb) (k id : positive) : option jpod :=
  match alookup id (jb_pods j) with
  | Some o => if Pos.eqb (jp_pset o) k then Some o else None
  | None => None
  end.

(** AddTaskInfo: podSet.AssignTask, addTaskIndex, Allocated += ResReq when the status is an allocated one *)
Definition add_task_info (p : jpod) (j : jobb) : jobb :=
  match alookup (jp_pset p) (jb_psets j) with
  | None => j
  | Some ps =>
      let s := jp_status p in
      mkJB (aset (jp_id p) p (adel (jp_id p) (jb_pods j)))
           (aset (jp_pset p) (ps_assign (ps_entry j (jp_pset p) (jp_id p)) p ps) (jb_psets j))
           (if allocated_status s then radd (jb_alloc j) (jp_req p) else jb_alloc j)
           (if allocated_status s then radd (jb_allocv j) (jp_reqv p) else jb_allocv j)
           (ix_add (pkey p) (jb_idx j))
           (jb_active j + bz (active_allocated s))
  end.

(** deleteTaskIndex with the decrement test [dec] (the code: [active_allocated]) *)
Definition delete_task_index (dec : status -> bool) (passed : status) (id : positive) (i : ix) (active : Z) : ix * Z :=
  if ix_found passed i then (ix_del (passed, id) i, active - bz (dec passed)) else (i, active).

(** resetTaskState(ti): [None] = "failed to find task" *)
Definition reset_task_state (dec : status -> bool) (id : positive) (passed : status) (j : jobb) : option jobb :=
  match alookup id (jb_pods j) with
  | None => None
  | Some cur =>
      let '(i, a) := delete_task_index dec passed id (jb_idx j) (jb_active j) in
      Some (mkJB (jb_pods j) (jb_psets j)
                 (if allocated_status (jp_status cur) then rsub (jb_alloc j) (jp_req cur) else jb_alloc j)
                 (if allocated_status (jp_status cur) then rsub (jb_allocv j) (jp_reqv cur) else jb_allocv j)
                 i a)
  end.

(** UpdateTaskStatus(obj, new) where obj.UID = id and obj.Status = passed; second component: an error was returned *)
Definition update_task_status_g (dec : status -> bool) (id : positive) (passed new : status) (j : jobb) : jobb * bool :=
  match alookup id (jb_pods j), reset_task_state dec id passed j with
  | Some cur, Some j1 => (add_task_info (jp_with cur new) j1, false)
  | _, _ => (j, true)
  end.

(** resetTaskState + PodSet.clearOldStatus *)
Definition remove_task_g (dec : status -> bool) (id : positive) (passed : status) (j : jobb) : jobb * bool :=
  match alookup id (jb_pods j), reset_task_state dec id passed j with
  | Some cur, Some j1 =>
      (mkJB (adel id (jb_pods j1))
            (match alookup (jp_pset cur) (jb_psets j1) with
             | Some ps => aset (jp_pset cur) (ps_clear (Some cur) ps) (jb_psets j1)
             | None => jb_psets j1
             end)
            (jb_alloc j1) (jb_allocv j1) (jb_idx j1) (jb_active j1), false)
  | _, _ => (j, true)
  end.

Inductive jop :=
| JAdd (p : jpod)                                  (* AddTaskInfo(p) *)
| JUpdate (id : positive) (passed new : status)    (* UpdateTaskStatus(obj{UID id, Status passed}, new) *)
| JRemove (id : positive) (passed : status).

Definition apply_g (dec : status -> bool) (j : jobb) (o : jop) : jobb * bool :=
  match o with
  | JAdd p => (add_task_info p j, false)
  | JUpdate id passed new => update_task_status_g dec id passed new j
  | JRemove id passed => remove_task_g dec id passed j
  end.
Definition run_g (dec : status -> bool) (j : jobb) (ops : list jop) : jobb :=
  fold_left (fun s o => fst (apply_g dec s o)) ops j.

(** the code *)
Definition update_task_status := update_task_status_g active_allocated.
Definition jremove_task := remove_task_g active_allocated.
Definition japply := apply_g active_allocated.
Definition jrun := run_g active_allocated.

(** Histories the scheduler issues: a pod is added once (snapshot construction adds every pod of the pod
    group once; Clone / CloneWithTasks build a fresh PodGroupInfo), and UpdateTaskStatus is handed the job's own
    object or a copy carrying the same status. *)
Definition legal_op (j : jobb) (o : jop) : bool :=
  match o with
  | JAdd p => negb (amem (jp_id p) (jb_pods j))
  | JUpdate id passed _ | JRemove id passed =>
      match alookup id (jb_pods j) with
      | Some cur => status_eqb passed (jp_status cur)
      | None => true
      end
  end.
Fixpoint legal_g (dec : status -> bool) (j : jobb) (ops : list jop) : bool :=
  match ops with
  | [] => true
  | o :: r => legal_op j o && legal_g dec (fst (apply_g dec j o)) r
  end.
Definition legal := legal_g active_allocated.

(** * Recomputation from scratch from the pods and their statuses *)
Definition pods_of (j : jobb) : list jpod := map snd (jb_pods j).
Definition st_is (s : status) (p : jpod) : bool := status_eqb s (jp_status p).
Definition in_pset (k : positive) (p : jpod) : bool := Pos.eqb (jp_pset p) k.
Definition is_aa (p : jpod) := active_allocated (jp_status p).
Definition is_au (p : jpod) := active_used (jp_status p).
Definition is_alive (p : jpod) := alive (jp_status p).
Definition is_alloc (p : jpod) := allocated_status (jp_status p).

Definition rc_active (l : list jpod) : Z := cnt is_aa l.
Definition rc_used (l : list jpod) : Z := cnt is_au l.
Definition rc_alive (l : list jpod) : Z := cnt is_alive l.
Definition rc_size (s : status) (l : list jpod) : Z := cnt (st_is s) l.
Definition rc_alloc (l : list jpod) : res := rsum (map jp_req (filter is_alloc l)).
Definition rc_allocv (l : list jpod) : res := rsum (map jp_reqv (filter is_alloc l)).
Definition rc_ids (s : status) (l : list jpod) : list positive := map jp_id (filter (st_is s) l).

Definition pset_books_okb (ps : psetb) (l : list jpod) : bool :=
  (pb_aa ps =? rc_active l) && (pb_au ps =? rc_used l) && (pb_alive ps =? rc_alive l)
  && forallb (fun s => ix_size s (pb_idx ps) =? rc_size s l) all_statuses.

(** every incremental counter of the workload equals its recomputation *)
Definition books_okb (j : jobb) : bool :=
  let l := pods_of j in
  (jb_active j =? rc_active l)
  && forallb (fun s => ix_size s (jb_idx j) =? rc_size s l) all_statuses
  && req (jb_alloc j) (rc_alloc l) && req (jb_allocv j) (rc_allocv l)
  && forallb (fun k => match alookup k (jb_psets j) with
                       | Some ps => pset_books_okb ps (filter (in_pset k) l)
                       | None => true
                       end) (akeys (jb_psets j)).

(** * Getters and gang predicates *)
Definition num_pending (j : jobb) : Z := ix_size Pending (jb_idx j).
Definition num_gated (j : jobb) : Z := ix_size Gated (jb_idx j).
Definition num_active_used (j : jobb) : Z := rc_used (pods_of j).
Definition num_allocated (j : jobb) : Z := cnt is_alloc (pods_of j).
Definition num_alive (j : jobb) : Z := rc_alive (pods_of j).
Definition is_gang_satisfied (j : jobb) : bool := forallb (fun kv => ps_gang_satisfied (snd kv)) (jb_psets j).
Definition is_ready (j : jobb) : bool := forallb (fun kv => ps_ready (snd kv)) (jb_psets j).
Definition is_stale (j : jobb) : bool :=
  if ix_found Succeeded (jb_idx j) then false
  else if num_active_used j =? 0 then false
  else existsb (fun kv => negb (ps_gang_satisfied (snd kv))) (jb_psets j).
(** ShouldPipelineJob of one pod set, from its pods *)
Definition should_pipeline_l (mn : Z) (l : list jpod) : bool :=
  existsb (st_is Pipelined) l && (cnt (fun p => negb (st_is Pipelined p) && is_aa p) l <? mn).
Definition should_pipeline (j : jobb) : bool :=
  existsb (fun kv => should_pipeline_l (pb_min (snd kv)) (filter (in_pset (fst kv)) (pods_of j))) (jb_psets j).
Definition is_elastic (j : jobb) : bool :=
  existsb (fun kv => pb_min (snd kv) <? Z.of_nat (List.length (filter (in_pset (fst kv)) (pods_of j)))) (jb_psets j).
