(** Per-container selection and what the binder materialises (property C19).
    - the container GetFractionContainerRef picks
        pkg/binder/common/gpu_access.go  GetFractionContainerRef
      (used by admission's Mutate and by the binder's PreBind / Rollback);
    - the binder's gpusharing plugin PreBind
        pkg/binder/plugins/gpusharing/gpu_sharing.go  PreBind
        pkg/binder/common/gpu_access.go  SetNvidiaVisibleDevices, SetGPUPortion
        pkg/binder/common/gpusharingconfigmap/config_map.go  UpsertJobConfigMap,
          ExtractCapabilitiesConfigMapName, ExtractDirectEnvVarsConfigMapName
      as a function over the config maps of the pod's namespace;
    - the environment a container starts with, the way the kubelet resolves it
      (envFrom config maps in order, then env entries; later entries win).
    Conventions of Model/GpuRequest.v: an env entry is (name, config map) with the
    key equal to the name; config map "" stands for a literal entry (the generated
    pods only carry the literal value ""). Config maps that exist before PreBind are
    owned by the pod itself (UpsertJobConfigMap then keeps their data); the
    "different owner" override is not modelled. *)
From Coq Require Import List ZArith NArith String Ascii Bool.
From KaiV Require Import Model.Strconv Model.GpuRequest.
Import ListNotations.
Open Scope string_scope.

(** * The selected container *)

Definition conts (ty : ctype) (p : gpod) : list container :=
  match ty with RegularC => containers p | InitC => inits p end.

Inductive selection :=
| Selected (ty : ctype) (i : nat) (c : container)
| SelNotFound      (* error: "container with name ... not found for fraction request" *)
| SelPanic.        (* &pod.Spec.Containers[0] on a pod without containers: index out of range *)

(** GetFractionContainerRef builds the default reference (regular container 0)
    before it looks at the annotation, so a pod without regular containers panics
    whatever the annotation says.  With the annotation: init containers first, then
    regular containers, first match by name; no match is an error. *)
Definition selected_container (p : gpod) : selection :=
  match containers p with
  | [] => SelPanic
  | _ :: _ =>
      match fraction_container_ref p with
      | None => SelNotFound
      | Some (ty, i) =>
          match nth_error (conts ty p) i with
          | Some c => Selected ty i c
          | None => SelPanic   (* unreachable: Proofs/GpuMaterialise.v ref_in_range *)
          end
      end
  end.

(** Mutate returns an error (the mutating webhook then refuses the pod) exactly
    when a sharing pod names a fraction container that does not exist. *)
Definition mutate_fails (p : gpod) : bool :=
  match containers p with
  | [] => false
  | _ :: _ => requests_gpu_fraction p
              && match fraction_container_ref p with None => true | Some _ => false end
  end.

(** strconv.Itoa on a container index, "i" in front for init containers
    (SetGpuCapabilitiesConfigMapName / ExtractCapabilitiesConfigMapName) *)
Definition dig (n : nat) : string := String (ascii_of_nat (48 + n)) EmptyString.
Fixpoint itoa_fuel (fuel n : nat) : string :=
  match fuel with
  | O => dig (n mod 10)
  | S f => if Nat.ltb n 10 then dig n else (itoa_fuel f (n / 10) ++ dig (n mod 10))%string
  end.
Definition itoa (n : nat) : string := itoa_fuel 20 n.
Definition idx_str (t : ctype) (i : nat) : string :=
  match t with RegularC => itoa i | InitC => ("i" ++ itoa i)%string end.

(** * Config maps *)

Definition cmdata := list (string * string).
Definition cmstore := list (string * cmdata).

Fixpoint lookup {A} (k : string) (l : list (string * A)) : option A :=
  match l with
  | [] => None
  | (k', v) :: r => if String.eqb k' k then Some v else lookup k r
  end.

(** data[k] = v on a Go map / Patch of one object: replace in place, else add. *)
Fixpoint set_key {A} (k : string) (v : A) (l : list (string * A)) : list (string * A) :=
  match l with
  | [] => [(k, v)]
  | (k', v') :: r => if String.eqb k' k then (k, v) :: r else (k', v') :: set_key k v r
  end.

Definition cap_name (idx : ctype -> nat -> string) (prefix : string) (ty : ctype) (i : nat) : string :=
  prefix ++ "-" ++ idx ty i.
Definition evar_name (cap : string) : string := cap ++ "-evar".
Definition vol_name (cap : string) : string := cap ++ "-vol".

Definition visible_devices_bc : string := "RUNAI-VISIBLE-DEVICES".
Definition cdi_device (id : string) : string := "k8s.device-plugin.nvidia.com/gpu=" ++ id.

Fixpoint join_comma (l : list string) : string :=
  match l with
  | [] => ""
  | [x] => x
  | x :: r => x ++ "," ++ join_comma r
  end.

(** strings.Join(reservedGPUIds, ","), each id rendered as a CDI device name when
    the device plugin uses CDI *)
Definition visible_devices (cdi : bool) (ids : list string) : string :=
  join_comma (if cdi then map cdi_device ids else ids).

(** UpsertJobConfigMap with empty desired data: create when missing, keep otherwise. *)
Definition upsert_empty (name : string) (s : cmstore) : cmstore :=
  match lookup name s with
  | Some _ => s
  | None => (s ++ [(name, [])])%list
  end.

(** UpdateConfigMapEnvironmentVariable: Get (error when missing), change, Patch. *)
Definition update_map (name : string) (f : cmdata -> cmdata) (s : cmstore) : option cmstore :=
  match lookup name s with
  | None => None
  | Some d => Some (set_key name (f d) s)
  end.

(** SetNvidiaVisibleDevices: "NVIDIA_VISIBLE_DEVICES defined in spec" = some env entry
    of that name takes its value from a config map. *)
Definition has_nvd_ref (c : container) : bool :=
  existsb (fun e => String.eqb (fst e) nvidia_visible_devices && negb (String.eqb (snd e) "")) (c_env c).

Definition set_devices (d : string) (data : cmdata) : cmdata :=
  set_key nvidia_visible_devices d
    (match lookup visible_devices_bc data with
     | Some _ => set_key visible_devices_bc d data
     | None => data
     end).

Definition set_portion (portion : string) (data : cmdata) : cmdata :=
  set_key gpu_portion_env portion (set_key runai_num_of_gpus portion data).

(** PreBind of the binder's gpusharing plugin. [shared] = the bind request's received
    resource type is "Fraction"; [ids] = the reserved GPU indexes of the selected GPU
    groups; [portion] = the bind request's ReceivedGPU.Portion.  [None] = PreBind
    returns an error (or panics: no regular container); nothing is then promised about
    the config maps. *)
Definition prebind (idx : ctype -> nat -> string) (shared cdi : bool) (ids : list string)
           (portion : string) (p : gpod) (s : cmstore) : option cmstore :=
  if negb shared then Some s else
  match selected_container p with
  | Selected ty i c =>
      match a_cm p with
      | None => None            (* "no desired configmap name found in pod annotations" *)
      | Some prefix =>
          let cap := cap_name idx prefix ty i in
          let evar := evar_name cap in
          let s2 := upsert_empty evar (upsert_empty cap s) in
          let target := if has_nvd_ref c then cap else evar in
          match update_map target (set_devices (visible_devices cdi ids)) s2 with
          | None => None
          | Some s3 => update_map cap (set_portion portion) s3
          end
      end
  | SelNotFound | SelPanic => None
  end.

(** * The environment a container starts with *)

Inductive envval :=
| EVal (v : string)
| EUnset
| EError.   (* the variable's config map or key is missing: the kubelet refuses to start the container *)

(** config map ("" = literal) of the LAST env entry called [var] *)
Fixpoint last_env (var : string) (env : list (string * string)) (acc : option string) : option string :=
  match env with
  | [] => acc
  | e :: r => last_env var r (if String.eqb (fst e) var then Some (snd e) else acc)
  end.

(** value of [var] from the envFrom sources: the last source that defines it *)
Fixpoint envfrom_val (s : cmstore) (var : string) (l : list string) (acc : option string) : option string :=
  match l with
  | [] => acc
  | n :: r =>
      envfrom_val s var r
        (match lookup n s with
         | Some d => match lookup var d with Some v => Some v | None => acc end
         | None => acc
         end)
  end.

Definition eff_env (s : cmstore) (c : container) (var : string) : envval :=
  match last_env var (c_env c) None with
  | Some ref =>
      if String.eqb ref "" then EVal ""
      else match lookup ref s with
           | None => EError
           | Some d => match lookup var d with Some v => EVal v | None => EError end
           end
  | None =>
      match envfrom_val s var (c_envfrom c) None with
      | Some v => EVal v
      | None => EUnset
      end
  end.

Definition envval_eqb (a b : envval) : bool :=
  match a, b with
  | EVal x, EVal y => String.eqb x y
  | EUnset, EUnset | EError, EError => true
  | _, _ => false
  end.

Definition ostr_eqb (a b : option string) : bool :=
  match a, b with
  | Some x, Some y => String.eqb x y
  | None, None => true
  | _, _ => false
  end.

(** the config maps a container's environment can read *)
Definition references (c : container) (name : string) : bool :=
  existsb (fun e => String.eqb (snd e) name) (c_env c) || existsb (String.eqb name) (c_envfrom c).

(** * The property's per-container clause *)

(** Container [c] (position [ty], [i]) of pod [p] is wired to the pod's GPU-sharing config
    maps: its NVIDIA_VISIBLE_DEVICES / RUNAI_NUM_OF_GPUS / GPU_PORTION come from the
    capabilities map <prefix>-<idx>, the map <prefix>-<idx>-evar is an envFrom source, and the
    pod has the volume <prefix>-<idx>-vol over the capabilities map. *)
Definition carries_refs (idx : ctype -> nat -> string) (p : gpod) (ty : ctype) (i : nat) (c : container) : bool :=
  match a_cm p with
  | Some prefix =>
      let cap := cap_name idx prefix ty i in
      ostr_eqb (last_env nvidia_visible_devices (c_env c) None) (Some cap)
      && ostr_eqb (last_env runai_num_of_gpus (c_env c) None) (Some cap)
      && ostr_eqb (last_env gpu_portion_env (c_env c) None) (Some cap)
      && existsb (String.eqb (evar_name cap)) (c_envfrom c)
      && existsb (fun v => String.eqb (fst v) (vol_name cap) && String.eqb (snd v) cap) (volumes p)
  | None => false
  end.

(** ... for the selected container of the (admitted) pod *)
Definition carries_sharing_refs (idx : ctype -> nat -> string) (p : gpod) : bool :=
  match selected_container p with
  | Selected ty i c => carries_refs idx p ty i c
  | _ => false
  end.

(** Container [c] starts with exactly these devices and this portion. *)
Definition starts_with (s : cmstore) (c : container) (devices portion : string) : bool :=
  envval_eqb (eff_env s c nvidia_visible_devices) (EVal devices)
  && envval_eqb (eff_env s c gpu_portion_env) (EVal portion)
  && envval_eqb (eff_env s c runai_num_of_gpus) (EVal portion).

(** The selected container starts with exactly the granted devices and portion. *)
Definition materialised (p : gpod) (s : cmstore) (devices portion : string) : bool :=
  match selected_container p with
  | Selected _ _ c => starts_with s c devices portion
  | _ => false
  end.

(** * NOT the code: a resolver that hands out a copy of a named init container, so
    that admission edits the copy (seeded/C19-4).  The annotation and the volume are
    still set on the pod.  Used by the witness in Properties/C19.v only. *)
Definition mutate_editing_a_copy (idx_str : ctype -> nat -> string) (fresh : string) (p : gpod) : gpod :=
  match fraction_container_ref p with
  | Some (InitC, _) =>
      let q := mutate idx_str fresh p in
      {| a_fraction := a_fraction q; a_memory := a_memory q; a_numdev := a_numdev q; a_mps := a_mps q;
         a_cname := a_cname q; a_cm := a_cm q; p_name := p_name q;
         containers := containers q; inits := inits p; volumes := volumes q |}
  | _ => mutate idx_str fresh p
  end.

(** * The number of devices the binder reads, and the GPU-group labels it leaves on the pod
      pkg/common/resources/gpu_sharing.go  GetNumGPUFractionDevices, IsMultiFraction,
        GetMultiFractionGpuGroupLabel, GetGpuGroups
      pkg/binder/binding/binder.go  reserveGPUs (one ReserveGpuDevice per selected GPU group)
      pkg/binder/binding/resourcereservation  ReserveGpuDevice -> updatePodGPUGroup
    The reservation pod of every group exists and reports its device index (how group names
    become device indexes is C17's subject); what is modelled here is the label patch. *)

(** GetNumGPUFractionDevices: (n, nil) | fractionDevicesAnnotationNotFound | a ParseInt error *)
Inductive ndev :=
| NdOk (n : Z)
| NdNotFound
| NdParseError.

Definition binder_num_devices (p : gpod) : ndev :=
  match a_numdev p with
  | None => if requests_gpu_fraction p then NdOk 1%Z else NdNotFound
  | Some s => match parse_int s with
              | Some n => NdOk n
              | None => NdParseError
              end
  end.

(** IsMultiFraction: [None] = it returns an error (the count annotation does not parse). *)
Definition is_multi_fraction (p : gpod) : option bool :=
  match binder_num_devices p with
  | NdOk n => Some (1 <? n)%Z
  | NdNotFound => Some false
  | NdParseError => None
  end.
Definition binder_is_multi (p : gpod) : bool :=
  match is_multi_fraction p with Some b => b | None => false end.

Definition gpu_group_label : string := "runai-gpu-group".
Definition multi_group_prefix : string := "runai-gpu-group/".

Fixpoint has_prefix (pre s : string) : bool :=
  match pre, s with
  | EmptyString, _ => true
  | String a r, String b r' => Ascii.eqb a b && has_prefix r r'
  | String _ _, EmptyString => false
  end.

Definition labels := list (string * string).

(** updatePodGPUGroup for one group, on the labels the in-memory pod carries so far
    ([ism] = the answer of IsMultiFraction; [None] = error, nothing is patched). *)
Definition label_group (ism : option bool) (ls : labels) (g : string) : option labels :=
  match ism with
  | None => None
  | Some true => Some (set_key (multi_group_prefix ++ g) g ls)
  | Some false => Some (set_key gpu_group_label g ls)
  end.

(** reserveGPUs: the selected groups in order, on the same pod object; the first error ends the loop. *)
Fixpoint label_groups (ism : option bool) (ls : labels) (groups : list string) : option labels :=
  match groups with
  | [] => Some ls
  | g :: r => match label_group ism ls g with
              | Some ls' => label_groups ism ls' r
              | None => None
              end
  end.

Definition labels_after_binding_with (ism : gpod -> option bool) (groups : list string) (p : gpod) : option labels :=
  label_groups (ism p) [] groups.
Definition labels_after_binding (groups : list string) (p : gpod) : option labels :=
  labels_after_binding_with is_multi_fraction groups p.

(** GetGpuGroups (what NewTaskInfo reads at the next snapshot when there is no BindRequest any more):
    the plain label first, then the value of every label whose key starts with the multi prefix. *)
Definition groups_of_labels (ls : labels) : list string :=
  ((match lookup gpu_group_label ls with Some g => [g] | None => [] end)
   ++ map snd (filter (fun kv => has_prefix multi_group_prefix (fst kv)) ls))%list.

(** NOT the code: IsMultiFraction that first asks for the gpu-fraction annotation (seeded/C19-5).
    Used by the witness in Properties/C19.v only. *)
Definition is_multi_requiring_fraction (p : gpod) : option bool :=
  match a_fraction p with
  | None => Some false
  | Some _ => is_multi_fraction p
  end.
