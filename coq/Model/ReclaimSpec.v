(** Declarative side of C07: what "within quota", "protected queue", "remaining share
    just before a victim is taken" and "saturation order" mean, written without
    following the control flow of the reclaim code (no running maps, no division).
    Every notion has a Prop form (used by the theorems) and a boolean form (used by the
    monitor on the real verdicts). *)
From Coq Require Import List ZArith QArith Bool.
From KaiV Require Import Model.Reclaim.
Import ListNotations.
Open Scope Q_scope.

(** ** Quantities and bounds.  A bound of -1 means "no bound". *)

(** the (real) quantity [v] is above the bound [b] *)
Definition exceeds (v b : Q) : Prop := ~ b == unlimited /\ b < v.
Definition exceedsb (v b : Q) : bool := negb (Qeq_bool b unlimited) && negb (Qle_bool v b).

Definition within_all (v b : vec) : Prop := forall r, ~ exceeds (vget v r) (vget b r).
Definition above_some (v b : vec) : Prop := exists r, exceeds (vget v r) (vget b r).
Definition within_allb (v b : vec) : bool :=
  forallb (fun r => negb (exceedsb (vget v r) (vget b r))) all_res.

(** a vector of real quantities: no component collides with the sentinel -1 *)
Definition no_sentinel (v : vec) : Prop := forall r, ~ vget v r == unlimited.
Definition no_sentinelb (v : vec) : bool :=
  forallb (fun r => negb (Qeq_bool (vget v r) unlimited)) all_res.

(** A queue is protected when what it holds is within its deserved quota in every
    resource and within its allocatable (fair) share in every resource. *)
Definition protected (q : queue) (holding : vec) : Prop :=
  within_all holding (deserved_vec q) /\ within_all holding (allocatable_vec q).
Definition protectedb (q : queue) (holding : vec) : bool :=
  within_allb holding (deserved_vec q) && within_allb holding (allocatable_vec q).

(** ** The queue forest *)

(** [b] is the parent of [a] (and exists) *)
Definition parent_of (qs : list queue) (a b : qid) : Prop :=
  exists q, lookup qs a = Some q /\ q_parent q = Some b /\ lookup qs b <> None.

Inductive reaches (qs : list queue) : qid -> qid -> Prop :=
| reach_step a b : parent_of qs a b -> reaches qs a b
| reach_trans a b c : parent_of qs a b -> reaches qs b c -> reaches qs a c.

Definition Acyclic (qs : list queue) : Prop := forall a, ~ reaches qs a a.

(** decidable form: every parent walk ends within |qs|+1 steps *)
Definition acyclicb (qs : list queue) : bool :=
  forallb (fun q => match chain_of qs (q_id q) with Some _ => true | None => false end) qs.

(** [id] is [k] or one of its ancestors *)
Definition on_chain (qs : list queue) (k id : qid) : bool :=
  match chain_of qs k with
  | Some ch => existsb (fun x => Pos.eqb (q_id x) id) ch
  | None => false
  end.

Definition same_parent (a b : queue) : bool :=
  match q_parent a, q_parent b with
  | None, None => true
  | Some x, Some y => Pos.eqb x y
  | _, _ => false
  end.

(** ** Victims *)

(** the victims in the order they are examined *)
Definition flatten (victims : list (qid * list res)) : list (qid * res) :=
  flat_map (fun kv => map (fun v => (fst kv, v)) (snd kv)) victims.

(** what queue [q] still holds once the victims [done] have been taken: each victim is
    charged to its own queue and to every ancestor *)
Definition rem_before (qs : list queue) (done : list (qid * res)) (q : queue) : vec :=
  fold_left (fun acc kv => if on_chain qs (fst kv) (q_id q) then vsub acc (quantify (snd kv)) else acc)
            done (alloc_vec q).

(** no reclaimee queue is an ancestor of (or equal to) another one *)
Fixpoint antichain_keys (qs : list queue) (keys : list qid) : bool :=
  match keys with
  | [] => true
  | k :: r => forallb (fun k' => negb (on_chain qs k k') && negb (on_chain qs k' k)) r
              && antichain_keys qs r
  end.

(** resource [r] is involved in what was taken from below queue [sid] *)
Definition spec_involved (qs : list queue) (victims : list (qid * list res)) (sid : qid) (r : rname) : bool :=
  existsb (fun kv => on_chain qs (fst kv) sid
                     && existsb (fun v => imem (involved_one v) r) (snd kv)) victims.

(** queue [sid] lost something *)
Definition touched (qs : list queue) (victims : list (qid * list res)) (sid : qid) : bool :=
  existsb (fun kv => on_chain qs (fst kv) sid && negb (match snd kv with [] => true | _ => false end)) victims.

(** ** Saturation order (division free).
    A queue holding [ar] with fair share [fr] is above its fair share and, scaled by [m], at
    least as saturated as a sibling holding [sa] with positive fair share [sf]. *)
Definition sat_violation (m ar fr sa sf : Q) : Prop :=
  0 < sf /\
  ((fr == 0 /\ 0 < ar) \/ (0 < fr /\ fr < ar /\ sa * fr <= m * ar * sf)).
Definition sat_violationb (m ar fr sa sf : Q) : bool :=
  Qgtb sf 0 &&
  ((Qeq_bool fr 0 && Qgtb ar 0) || (Qgtb fr 0 && Qgtb ar fr && Qle_bool (sa * fr) (m * ar * sf))).

(** ** The property evaluated on a scenario and an examination order (booleans, for the monitor) *)

(** clause 1: every victim was taken from a queue that was not protected at that moment *)
Fixpoint victims_unprotected (qs : list queue) (rcq : qid) (done todo : list (qid * res)) : bool :=
  match todo with
  | [] => true
  | (k, v) :: r =>
      match leveled qs rcq k with
      | Ok (Some (_, eq)) =>
          let h := rem_before qs done eq in
          (if no_sentinelb h then negb (protectedb eq h) else true)
          && victims_unprotected qs rcq (done ++ [(k, v)]) r
      | _ => false
      end
  end.

(** clause 3 *)
Definition nonpreemptible_within_quota (qs : list queue) (rc : reclaimer) : bool :=
  rc_preemptible rc ||
  match chain_of qs (rc_queue rc) with
  | Some ch => forallb (fun a => within_allb (vadd (allocnp_vec a) (quantify (rc_res rc))) (deserved_vec a)) ch
  | None => false
  end.

(** clause 4 *)
Definition saturation_order (m : Q) (qs : list queue) (rc : reclaimer) (victims : list (qid * list res)) : bool :=
  match chain_of qs (rc_queue rc) with
  | Some ch =>
      forallb (fun a =>
        forallb (fun s =>
          negb (touched qs victims (q_id s) && same_parent s a && negb (Pos.eqb (q_id s) (q_id a))) ||
          forallb (fun r =>
            negb (spec_involved qs victims (q_id s) r || imem (involved_one (rc_res rc)) r) ||
            negb (sat_violationb m
                    (vget (vadd (rem_before qs (flatten victims) a) (quantify (rc_res rc))) r)
                    (vget (fair_vec a) r)
                    (vget (rem_before qs (flatten victims) s) r)
                    (vget (fair_vec s) r))) all_res) qs) ch
  | None => false
  end.
