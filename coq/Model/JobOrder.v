(** Executable model of the job ordering machinery of the scheduler, as it is.

    Modelled Go code (file : functions):
    - container/heap (Go standard library, heap.go): [up], [down], [Push], [Pop],
      [Remove], [Fix] over a slice — here [h_up], [h_down], [h_push], [h_pop],
      [h_remove], [h_fix] over a [list]; index arithmetic exactly as in Go
      (parent (j-1)/2, children 2i+1 / 2i+2, the right child is taken only when
      strictly less than the left one, [down] reports whether the element moved).
    - pkg/scheduler/scheduler_util/priority_queue.go : [PriorityQueue.Push] incl.
      the finite [maxQueueSize] branch ([heap.Remove(q, q.indexOfLast())]),
      [priorityQueue.indexOfLast], [Pop] (nil on empty), [Peek], [Fix],
      [Len]/[Empty] — [pq_push], [index_of_last], [pq_pop], [pq_peek], [pq_fix].
      [pq_push_v0] is [Push] before commit 4521da5 ([heap.Remove(q, maxQueueSize)]).
    - pkg/scheduler/plugins/priority/priority.go : [JobOrderFn] — [priority_cmp].
    - pkg/scheduler/plugins/elastic/elastic.go : [minAvailableState],
      [JobOrderFn] — [min_available_state], [elastic_cmp].
    - pkg/scheduler/framework/session_plugins.go : [Session.JobOrderFn] (chain of
      registered comparators, then creation timestamp, then UID) — [job_order_fn];
      [job_less] is the chain registered by the default configuration
      (priority, elastic).
    - pkg/scheduler/actions/utils/job_order_by_queue.go : [JobsOrderByQueues]
      with [VictimQueue = false]: [PushJob], [ensureAncestorChainForPush],
      [markAncestorsForReorder], [PopNextJob], [traverseToLeaf], [getNextNode]
      (lazy [Fix(0)] on [needsReorder]), [handlePopFromNode],
      [removeNodeFromParent], [buildNodeOrderFn], [getBestJobFromNode],
      [extractJobsForComparison], [IsEmpty] — [push_job], [ensure_chain],
      [mark_ancestors], [pop_next_job], [traverse], [get_next_node],
      [handle_pop], [node_less_of], [best_job], [is_empty].
    - pkg/scheduler/actions/utils/input_jobs.go : the queue filters of
      [InitializeWithJobs] — [initialize] with [queue_ok]: a job whose queue is
      missing, whose queue's parent is missing or whose queue is not a leaf is
      skipped on its own ([continue]); every other job of the iteration is pushed.
      [initialize_stop_at_missing_queue] is NOT the code (seeded change C16-4).
    - pkg/scheduler/actions/allocate/allocate.go : the loop of [Execute]
      (pop, attempt, commit or discard, re-push when tasks remain) — [alloc_loop];
      [attemptToAllocateJob] + [HasTasksToAllocate] are the oracle [attempt].

    Left out / oracles: [Session.QueueOrderFn] is the parameter [qord] (the
    proportion plugin's queue order is not modelled); the victim-queue mode
    ([VictimQueue = true], reversed orders, [poppedJobsByQueue]); the status
    filters of [InitializeWithJobs] (the input list holds the jobs that pass
    them, in Go's map iteration order, which is an explicit argument);
    [PriorityQueue] with a nil [lessFn]; integer overflow of heap indices.
    UIDs are strings in Go compared bytewise; here they are integers (the harness
    uses fixed-width decimal UIDs, for which both orders coincide). Pointers to
    queue nodes are queue ids looked up in the node map.

    Go panics are [Panic]; loops that follow parent links or re-push take fuel and
    yield [OutOfFuel]. Heap indices handed to [swap]/[lessi] are in range by
    construction of [h_up]/[h_down] (callers check the index first, returning
    [Panic] where Go would index out of range). No proofs here. *)
From Coq Require Import List ZArith Bool.
Import ListNotations.
Open Scope Z_scope.

Inductive res (A : Type) : Type :=
| Ok (a : A)
| Panic
| OutOfFuel.
Arguments Ok {A} a.
Arguments Panic {A}.
Arguments OutOfFuel {A}.

Definition bind {A B} (r : res A) (f : A -> res B) : res B :=
  match r with
  | Ok a => f a
  | Panic => Panic
  | OutOfFuel => OutOfFuel
  end.
Notation "x <- r ;; k" := (bind r (fun x => k)) (at level 61, r at next level, right associativity).

(** * container/heap over a slice *)
Section Heap.
  Context {A : Type}.
  Variable less : A -> A -> bool.

  Fixpoint upd (l : list A) (i : nat) (x : A) : list A :=
    match l, i with
    | [], _ => []
    | _ :: r, O => x :: r
    | y :: r, S i' => y :: upd r i' x
    end.

  (** [h.Swap(i, j)] *)
  Definition swap (l : list A) (i j : nat) : list A :=
    match nth_error l i, nth_error l j with
    | Some a, Some b => upd (upd l i b) j a
    | _, _ => l
    end.

  (** [h.Less(i, j)] *)
  Definition lessi (l : list A) (i j : nat) : bool :=
    match nth_error l i, nth_error l j with
    | Some a, Some b => less a b
    | _, _ => false
    end.

  (** [up(h, j)]; [None] = out of fuel *)
  Fixpoint h_up (fuel : nat) (l : list A) (j : nat) : option (list A) :=
    match fuel with
    | O => None
    | S f =>
        let i := ((j - 1) / 2)%nat in
        if (i =? j)%nat || negb (lessi l j i) then Some l
        else h_up f (swap l i j) i
    end.

  (** [down(h, i0, n)]; returns the slice and the final position of the element *)
  Fixpoint h_down (fuel : nat) (l : list A) (i n : nat) : option (list A * nat) :=
    match fuel with
    | O => None
    | S f =>
        let j1 := (2 * i + 1)%nat in
        if (n <=? j1)%nat then Some (l, i)
        else
          let j := if ((j1 + 1 <? n)%nat && lessi l (j1 + 1) j1) then (j1 + 1)%nat else j1 in
          if negb (lessi l j i) then Some (l, i)
          else h_down f (swap l i j) j n
    end.

  Definition of_opt {B} (o : option B) : res B :=
    match o with Some b => Ok b | None => OutOfFuel end.

  (** [heap.Push]: append, sift up *)
  Definition h_push (l : list A) (x : A) : res (list A) :=
    of_opt (h_up (S (length l)) (l ++ [x]) (length l)).

  (** [heap.Pop]: swap first and last, sift down over the prefix, remove the last *)
  Definition h_pop (l : list A) : res (A * list A) :=
    match length l with
    | O => Panic
    | S n =>
        r <- of_opt (h_down (S (length l)) (swap l 0 n) 0 n) ;;
        match nth_error (fst r) n with
        | Some x => Ok (x, firstn n (fst r))
        | None => Panic
        end
    end.

  (** [heap.Fix(h, i)] *)
  Definition h_fix (l : list A) (i : nat) : res (list A) :=
    r <- of_opt (h_down (S (length l)) l i (length l)) ;;
    if (i <? snd r)%nat then Ok (fst r)
    else if (i =? 0)%nat then of_opt (h_up (S i) (fst r) i)
    else if (i <? length l)%nat then of_opt (h_up (S i) (fst r) i)
    else Panic.

  (** [heap.Remove(h, i)] *)
  Definition h_remove (l : list A) (i : nat) : res (A * list A) :=
    match length l with
    | O => Panic
    | S n =>
        if (n <? i)%nat then Panic
        else
          l1 <- (if (n =? i)%nat then Ok l
                 else
                   r <- of_opt (h_down (S (length l)) (swap l i n) i n) ;;
                   if (i <? snd r)%nat then Ok (fst r)
                   else of_opt (h_up (S i) (fst r) i)) ;;
          match nth_error l1 n with
          | Some x => Ok (x, firstn n l1)
          | None => Panic
          end
    end.

  (** * scheduler_util.PriorityQueue *)
  (** [priorityQueue.indexOfLast]: the loop [for i := last + 1; i < n; i++] with
      [last] starting at [n / 2]; [steps] = the number of iterations left *)
  Fixpoint iol_scan (l : list A) (last i steps : nat) : nat :=
    match steps with
    | O => last
    | S s => iol_scan l (if lessi l last i then i else last) (S i) s
    end.

  Definition index_of_last (l : list A) : nat :=
    let n := length l in
    let last := (n / 2)%nat in
    iol_scan l last (S last) (n - S last).

  (** [Push]; [maxsize = -1] is QueueCapacityInfinite. On overflow the item at
      [indexOfLast()] is removed (the first maximal one among the leaves of the
      heap). A negative [maxsize] other than -1 overflows on every push. *)
  Definition pq_push (maxsize : Z) (l : list A) (x : A) : res (list A) :=
    l1 <- h_push l x ;;
    if negb (maxsize =? -1) && (maxsize <? Z.of_nat (length l1)) then
      r <- h_remove l1 (index_of_last l1) ;; Ok (snd r)
    else Ok l1.

  (** [Push] as it was before commit 4521da5: on overflow [heap.Remove(q, maxsize)],
      i.e. whatever sits at slice index [maxsize] (an arbitrary leaf). Kept only
      for the documented refutation (C16_finite_depth_v0_refuted); nothing in the
      model below uses it. *)
  Definition pq_push_v0 (maxsize : Z) (l : list A) (x : A) : res (list A) :=
    l1 <- h_push l x ;;
    if negb (maxsize =? -1) && (maxsize <? Z.of_nat (length l1)) then
      if maxsize <? 0 then Panic
      else r <- h_remove l1 (Z.to_nat maxsize) ;; Ok (snd r)
    else Ok l1.

  (** [Pop]: nil on an empty queue *)
  Definition pq_pop (l : list A) : res (option A * list A) :=
    match l with
    | [] => Ok (None, [])
    | _ => r <- h_pop l ;; Ok (Some (fst r), snd r)
    end.

  Definition pq_peek (l : list A) : option A :=
    match l with [] => None | x :: _ => Some x end.

  Definition pq_fix (l : list A) (i : nat) : res (list A) := h_fix l i.
End Heap.

(** * Jobs and the comparator chain *)
(** v2alpha2.Preemptibility: "" (not set), "preemptible", "non-preemptible" *)
Inductive preemptibility := PUnset | PPreemptible | PNonPreemptible.

Record job := {
  j_uid : Z;
  j_queue : Z;
  j_prio : Z;
  j_subgroups : list (Z * Z);  (* per pod set: (active allocated tasks, minAvailable) *)
  j_ctime : Z;                 (* creation timestamp *)
  j_shape : Z;                 (* class of identical pod template / gang shape;
                                  not read by any ordering function *)
  j_pre : preemptibility;      (* PodGroupInfo.Preemptibility: what the snapshot resolved from the pod group's
                                  spec.preemptibility and its priority (CalculatePreemptibility);
                                  not read by any ordering function, read by the capacity gate (Model/QuotaGate.v) *)
  j_req : list Z;              (* what the tasks to allocate ask for, per resource of rs.AllResources
                                  (cpu, memory, gpu), in thousandths; read by the capacity gate only *)
  j_last_start : option Z;     (* PodGroupInfo.LastStartTimestamp (restored by SetPodGroup from the annotation
                                  kai.scheduler/last-start-timestamp; None = nil): the last time the scheduler
                                  started the job. NOT read by any ordering function (Session.JobOrderFn compares
                                  CreationTimestamp, then UID), nor by the gate; only the minruntime plugin reads it *)
}.

(** the job with another last-start stamp (nothing else changes) *)
Definition set_last_start (j : job) (ls : option Z) : job :=
  {| j_uid := j_uid j; j_queue := j_queue j; j_prio := j_prio j; j_subgroups := j_subgroups j;
     j_ctime := j_ctime j; j_shape := j_shape j; j_pre := j_pre j; j_req := j_req j; j_last_start := ls |}.

(** priority.JobOrderFn *)
Definition priority_cmp (l r : job) : Z :=
  if j_prio r <? j_prio l then -1
  else if j_prio l <? j_prio r then 1
  else 0.

(** elastic.minAvailableState: (below, above, exactly) *)
Fixpoint mas_go (sgs : list (Z * Z)) (exact : bool) : bool * bool * bool :=
  match sgs with
  | [] => (false, negb exact, exact)
  | (a, m) :: r =>
      if a <? m then (true, false, false)
      else mas_go r (if m <? a then false else exact)
  end.
Definition min_available_state (j : job) : bool * bool * bool := mas_go (j_subgroups j) true.

(** elastic.JobOrderFn *)
Definition elastic_cmp (l r : job) : Z :=
  let '(lb, la, le) := min_available_state l in
  let '(rb, ra, re) := min_available_state r in
  if lb && negb rb then -1
  else if le && ra then -1
  else if negb lb && rb then 1
  else if la && re then 1
  else 0.

(** Session.JobOrderFn *)
Fixpoint job_order_fn (fns : list (job -> job -> Z)) (l r : job) : bool :=
  match fns with
  | f :: rest =>
      let c := f l r in
      if c =? 0 then job_order_fn rest l r else c <? 0
  | [] =>
      if j_ctime l =? j_ctime r then j_uid l <? j_uid r
      else j_ctime l <? j_ctime r
  end.

Definition default_job_order_fns : list (job -> job -> Z) := [priority_cmp; elastic_cmp].
Definition job_less : job -> job -> bool := job_order_fn default_job_order_fns.

(** Session.JobOrderFn with the FIFO fallback reading "in line since" instead of the
    creation time: a job that was started once ([j_last_start] later than its
    creation) and holds no active allocated pod queues from its last start. NOT the
    code; it is the shape of seeded change C16-5. Kept only for the documented
    refutation (C16_in_line_since_refuted); nothing in the model uses it. *)
Definition active_allocated (j : job) : Z := fold_right (fun s acc => fst s + acc) 0 (j_subgroups j).
Definition in_line_since (j : job) : Z :=
  match j_last_start j with
  | Some ls => if (active_allocated j =? 0) && (j_ctime j <? ls) then ls else j_ctime j
  | None => j_ctime j
  end.
Fixpoint job_order_fn_in_line_since (fns : list (job -> job -> Z)) (l r : job) : bool :=
  match fns with
  | f :: rest =>
      let c := f l r in
      if c =? 0 then job_order_fn_in_line_since rest l r else c <? 0
  | [] =>
      if in_line_since l =? in_line_since r then j_uid l <? j_uid r
      else in_line_since l <? in_line_since r
  end.
Definition job_less_in_line_since : job -> job -> bool := job_order_fn_in_line_since default_job_order_fns.

(** * JobsOrderByQueues *)
Record qinfo := {
  qi_id : Z;
  qi_parent : option Z;   (* ParentQueue; "" is None *)
  qi_leaf : bool;         (* IsLeafQueue: no child queues *)
}.

Record node := {
  n_leaf : bool;
  n_jobs : list job;       (* children of a leaf node (heap) *)
  n_kids : list Z;         (* children of a non-leaf node (heap of queue ids) *)
  n_reorder : bool;
  n_parent : option Z;
}.

Record jo := {
  jo_nodes : list (Z * node);     (* queueNodes *)
  jo_roots : option (list Z);     (* rootNodes; None = nil *)
}.

Definition jo_empty : jo := {| jo_nodes := []; jo_roots := None |}.

Fixpoint lookup {B} (k : Z) (m : list (Z * B)) : option B :=
  match m with
  | [] => None
  | (k', v) :: r => if k =? k' then Some v else lookup k r
  end.

Fixpoint remove_key {B} (k : Z) (m : list (Z * B)) : list (Z * B) :=
  match m with
  | [] => []
  | (k', v) :: r => if k =? k' then remove_key k r else (k', v) :: remove_key k r
  end.

Definition set_key {B} (k : Z) (v : B) (m : list (Z * B)) : list (Z * B) :=
  (k, v) :: remove_key k m.

Fixpoint lookup_q (qs : list qinfo) (k : Z) : option qinfo :=
  match qs with
  | [] => None
  | q :: r => if k =? qi_id q then Some q else lookup_q r k
  end.

Definition get_node (st : jo) (q : Z) : option node := lookup q (jo_nodes st).
Definition set_node (st : jo) (q : Z) (n : node) : jo :=
  {| jo_nodes := set_key q n (jo_nodes st); jo_roots := jo_roots st |}.
Definition del_node (st : jo) (q : Z) : jo :=
  {| jo_nodes := remove_key q (jo_nodes st); jo_roots := jo_roots st |}.
Definition set_roots (st : jo) (r : list Z) : jo :=
  {| jo_nodes := jo_nodes st; jo_roots := Some r |}.

Definition with_jobs (n : node) (js : list job) : node :=
  {| n_leaf := n_leaf n; n_jobs := js; n_kids := n_kids n; n_reorder := n_reorder n; n_parent := n_parent n |}.
Definition with_kids (n : node) (ks : list Z) : node :=
  {| n_leaf := n_leaf n; n_jobs := n_jobs n; n_kids := ks; n_reorder := n_reorder n; n_parent := n_parent n |}.
Definition with_reorder (n : node) (b : bool) : node :=
  {| n_leaf := n_leaf n; n_jobs := n_jobs n; n_kids := n_kids n; n_reorder := b; n_parent := n_parent n |}.
Definition with_parent (n : node) (p : option Z) : node :=
  {| n_leaf := n_leaf n; n_jobs := n_jobs n; n_kids := n_kids n; n_reorder := n_reorder n; n_parent := p |}.

(** [node.children.Len()] *)
Definition n_len (n : node) : nat := if n_leaf n then length (n_jobs n) else length (n_kids n).

(** the jobs held for leaf queue [q] (projection used by the theorems) *)
Definition leaf_items (st : jo) (q : Z) : list job :=
  match get_node st q with
  | Some n => if n_leaf n then n_jobs n else []
  | None => []
  end.

(** [IsEmpty] *)
Definition is_empty (st : jo) : bool :=
  match jo_roots st with
  | None => true
  | Some [] => true
  | Some _ => false
  end.

Section Order.
  Variable qs : list qinfo.
  (** Session.QueueOrderFn(lQ, rQ, lJob, rJob, nil, nil); a nil job is [None] *)
  Variable qord : Z -> Z -> option job -> option job -> bool.
  Variable depth : Z.   (* MaxJobsQueueDepth *)

  (** what the node comparator reads of a node *)
  Inductive nkey := KEmpty | KBest (j : option job).

  (** getBestJobFromNode / extractJobsForComparison; a queue id that is not in the
      node map cannot arise from Go pointers: [Panic] *)
  Fixpoint best_job (fuel : nat) (st : jo) (q : Z) : res (option job) :=
    match fuel with
    | O => OutOfFuel
    | S f =>
        match get_node st q with
        | None => Panic
        | Some n =>
            if n_leaf n then Ok (pq_peek (n_jobs n))
            else match pq_peek (n_kids n) with
                 | None => Panic          (* Peek() = nil, asserted to *queueNode *)
                 | Some c => best_job f st c
                 end
        end
    end.

  Definition node_key (fuel : nat) (st : jo) (q : Z) : res nkey :=
    match get_node st q with
    | None => Panic
    | Some n =>
        if (n_len n =? 0)%nat then Ok KEmpty
        else j <- best_job fuel st q ;; Ok (KBest j)
    end.

  Fixpoint node_keys (fuel : nat) (st : jo) (ids : list Z) : res (list (Z * nkey)) :=
    match ids with
    | [] => Ok []
    | q :: r => k <- node_key fuel st q ;; ks <- node_keys fuel st r ;; Ok ((q, k) :: ks)
    end.

  (** buildNodeOrderFn(false), reading the keys computed from the current tree *)
  Definition node_less_of (keys : list (Z * nkey)) (l r : Z) : bool :=
    match lookup l keys, lookup r keys with
    | Some KEmpty, _ => true
    | Some (KBest _), Some KEmpty => false
    | Some (KBest a), Some (KBest b) => qord l r a b
    | _, _ => false
    end.

  Definition tree_fuel (st : jo) : nat := S (length (jo_nodes st)).

  (** a heap of queue nodes: rootNodes or the children of a non-leaf node *)
  Inductive href := HRoot | HKids (q : Z).

  Definition get_heap (st : jo) (h : href) : res (list Z) :=
    match h with
    | HRoot => match jo_roots st with Some r => Ok r | None => Panic end
    | HKids q => match get_node st q with
                 | Some n => if n_leaf n then Panic else Ok (n_kids n)
                 | None => Panic
                 end
    end.

  Definition set_heap (st : jo) (h : href) (l : list Z) : res jo :=
    match h with
    | HRoot => Ok (set_roots st l)
    | HKids q => match get_node st q with
                 | Some n => Ok (set_node st q (with_kids n l))
                 | None => Panic
                 end
    end.

  (** push a node id into a heap of nodes (unlimited size) *)
  Definition push_node (st : jo) (h : list Z) (c : Z) : res (list Z) :=
    keys <- node_keys (tree_fuel st) st (c :: h) ;;
    pq_push (node_less_of keys) (-1) h c.

  (** markAncestorsForReorder *)
  Fixpoint mark_ancestors (fuel : nat) (st : jo) (q : Z) : res jo :=
    match fuel with
    | O => OutOfFuel
    | S f =>
        match get_node st q with
        | None => Panic
        | Some n =>
            let st1 := set_node st q (with_reorder n true) in
            match n_parent n with
            | None => Ok st1
            | Some p => mark_ancestors f st1 p
            end
        end
    end.

  Definition new_leaf : node :=
    {| n_leaf := true; n_jobs := []; n_kids := []; n_reorder := false; n_parent := None |}.
  Definition new_nonleaf : node :=
    {| n_leaf := false; n_jobs := []; n_kids := []; n_reorder := false; n_parent := None |}.

  (** ensureAncestorChainForPush(childNode, childQueue) *)
  Fixpoint ensure_chain (fuel : nat) (st : jo) (c : Z) (cq : qinfo) : res jo :=
    match fuel with
    | O => OutOfFuel
    | S f =>
        match get_node st c with
        | None => Panic
        | Some cn =>
            match qi_parent cq with
            | None =>
                match n_parent cn with
                | None =>
                    let roots := match jo_roots st with Some r => r | None => [] end in
                    r' <- push_node st roots c ;; Ok (set_roots st r')
                | Some _ => Ok st
                end
            | Some p =>
                match lookup_q qs p with
                | None => Ok st
                | Some pq =>
                    let isnew := match get_node st p with None => true | Some _ => false end in
                    let pn := match get_node st p with None => new_nonleaf | Some n => n end in
                    let st1 := if isnew then set_node st p pn else st in
                    st2 <- match n_parent cn with
                           | None =>
                               if n_leaf pn then Panic   (* node pushed into a heap of jobs *)
                               else
                                 let st1' := set_node st1 c (with_parent cn (Some p)) in
                                 k' <- push_node st1' (n_kids pn) c ;;
                                 Ok (set_node st1' p (with_kids pn k'))
                           | Some _ => Ok st1
                           end ;;
                    if isnew then ensure_chain f st2 p pq else Ok st2
                end
            end
        end
    end.

  (** PushJob *)
  Definition push_job (st : jo) (j : job) : res jo :=
    let q := j_queue j in
    match lookup_q qs q with
    | None => Panic                     (* nil QueueInfo dereferenced *)
    | Some qi =>
        if negb (qi_leaf qi) then Ok st
        else
          let found := get_node st q in
          let ln := match found with Some n => n | None => new_leaf end in
          if negb (n_leaf ln) then Panic  (* job pushed into a heap of nodes *)
          else
            js <- pq_push job_less depth (n_jobs ln) j ;;
            let st1 := set_node st q (with_jobs ln js) in
            st2 <- match found with
                   | None => ensure_chain (S (length qs)) st1 q qi
                   | Some _ => Ok st1
                   end ;;
            mark_ancestors (tree_fuel st2) st2 q
    end.

  (** getNextNode *)
  Fixpoint get_next_node (fuel : nat) (st : jo) (h : href) : res (jo * option Z) :=
    match fuel with
    | O => OutOfFuel
    | S f =>
        hp <- get_heap st h ;;
        match hp with
        | [] => Ok (st, None)
        | top :: _ =>
            match get_node st top with
            | None => Panic
            | Some n =>
                if n_reorder n then
                  keys <- node_keys (tree_fuel st) st hp ;;
                  hp' <- pq_fix (node_less_of keys) hp 0 ;;
                  st1 <- set_heap st h hp' ;;
                  match get_node st1 top with
                  | None => Panic
                  | Some n1 => get_next_node f (set_node st1 top (with_reorder n1 false)) h
                  end
                else if (n_len n =? 0)%nat then Ok (st, None)
                else Ok (st, Some top)
            end
        end
    end.

  (** traverseToLeaf *)
  Fixpoint traverse (fuel : nat) (st : jo) (h : href) : res (jo * option Z) :=
    match fuel with
    | O => OutOfFuel
    | S f =>
        r <- get_next_node (S (tree_fuel st)) st h ;;
        match snd r with
        | None => Ok r
        | Some q =>
            match get_node (fst r) q with
            | None => Panic
            | Some n => if n_leaf n then Ok r else traverse f (fst r) (HKids q)
            end
        end
    end.

  (** handlePopFromNode (with removeNodeFromParent) *)
  Fixpoint handle_pop (fuel : nat) (st : jo) (q : Z) : res jo :=
    match fuel with
    | O => OutOfFuel
    | S f =>
        match get_node st q with
        | None => Panic
        | Some n =>
            if (n_len n =? 0)%nat then
              let h := match n_parent n with Some p => HKids p | None => HRoot end in
              hp <- get_heap st h ;;
              keys <- node_keys (tree_fuel st) st hp ;;
              r <- pq_pop (node_less_of keys) hp ;;
              st1 <- set_heap st h (snd r) ;;
              let st2 := del_node st1 q in
              match n_parent n with
              | Some p => handle_pop f st2 p
              | None => Ok st2
              end
            else mark_ancestors (tree_fuel st) st q
        end
    end.

  (** PopNextJob *)
  Definition pop_next_job (st : jo) : res (option job * jo) :=
    if is_empty st then Ok (None, st)
    else
      r <- traverse (tree_fuel st) st HRoot ;;
      match snd r with
      | None => Ok (None, fst r)
      | Some q =>
          let st1 := fst r in
          match get_node st1 q with
          | None => Panic
          | Some n =>
              p <- pq_pop job_less (n_jobs n) ;;
              match fst p with
              | None => Panic               (* nil asserted to *PodGroupInfo *)
              | Some j =>
                  st2 <- handle_pop (tree_fuel st1) (set_node st1 q (with_jobs n (snd p))) q ;;
                  Ok (Some j, st2)
              end
          end
      end.

  (** the queue filters of InitializeWithJobs *)
  Definition queue_ok (q : Z) : bool :=
    match lookup_q qs q with
    | None => false
    | Some qi =>
        match qi_parent qi with
        | None => qi_leaf qi
        | Some p => match lookup_q qs p with None => false | Some _ => qi_leaf qi end
        end
    end.

  Fixpoint initialize (st : jo) (jobs : list job) : res jo :=
    match jobs with
    | [] => Ok st
    | j :: r =>
        if queue_ok (j_queue j) then st1 <- push_job st j ;; initialize st1 r
        else initialize st r
    end.

  (** InitializeWithJobs with the "queue does not exist" guard ending the whole
      collection loop (a [return] where the code has [continue]): the first job of
      a missing queue met in the iteration order abandons every job visited after
      it. NOT the code; it is the shape of seeded change C16-4. Kept only for the
      documented refutation (C16_stop_at_first_ghost_refuted); nothing in the
      model uses it. *)
  Fixpoint initialize_stop_at_missing_queue (st : jo) (jobs : list job) : res jo :=
    match jobs with
    | [] => Ok st
    | j :: r =>
        match lookup_q qs (j_queue j) with
        | None => Ok st
        | Some _ =>
            if queue_ok (j_queue j) then st1 <- push_job st j ;; initialize_stop_at_missing_queue st1 r
            else initialize_stop_at_missing_queue st r
        end
    end.

  (** the loop of allocateAction.Execute. [attempt j c] is attemptToAllocateJob
      with the remaining capacity [c]: [None] = could not allocate (statement
      discarded), [Some (c', again)] = committed, remaining capacity [c'],
      [again] = the job as it is re-pushed when it still has tasks to allocate.
      The result is the list of (job, placed) decisions in the order taken. *)
  Section Alloc.
    Context {C : Type}.
    Variable attempt : job -> C -> option (C * option job).

    Fixpoint alloc_loop (fuel : nat) (st : jo) (c : C) (log : list (job * bool)) : res (list (job * bool)) :=
      match fuel with
      | O => OutOfFuel
      | S f =>
          if is_empty st then Ok log
          else
            r <- pop_next_job st ;;
            match fst r with
            | None => Panic                 (* nil job dereferenced *)
            | Some j =>
                match attempt j c with
                | None => alloc_loop f (snd r) c (log ++ [(j, false)])
                | Some (c', again) =>
                    st' <- match again with
                           | Some j' => push_job (snd r) j'
                           | None => Ok (snd r)
                           end ;;
                    alloc_loop f st' c' (log ++ [(j, true)])
                end
            end
      end.

    Definition allocate (fuel : nat) (jobs : list job) (c : C) : res (list (job * bool)) :=
      st <- initialize jo_empty jobs ;; alloc_loop fuel st c [].

    (** the action over [initialize_stop_at_missing_queue] (not the code; documentation only) *)
    Definition allocate_stop_at_missing_queue (fuel : nat) (jobs : list job) (c : C) : res (list (job * bool)) :=
      st <- initialize_stop_at_missing_queue jo_empty jobs ;; alloc_loop fuel st c [].
  End Alloc.
End Order.
