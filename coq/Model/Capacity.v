(** Model of the queue capacity gates and of the queue usage counters
    (property C08).

    Go code modelled (as it is):
    - pkg/scheduler/plugins/proportion/capacity_policy/capacity_policy.go:
        IsJobOverQueueCapacity, IsNonPreemptibleJobOverQuota,
        IsTaskAllocationOnNodeOverCapacity, isJobOverCapacity, getRequiredQuota
    - .../capacity_policy/max_allowed_check.go: resultsOverLimit, isOverLimit
    - .../capacity_policy/quota_check.go: resultsWithNonPreemptibleOverQuota,
        isAllocatedNonPreemptibleOverQuota
      (both walk  for q, ok := queues[job.Queue]; ok; q, ok = queues[q.ParentQueue];
       a resource is skipped when its limit / deserved is -1 or when the
       requested quantity is 0)
    - pkg/scheduler/plugins/proportion/proportion.go: allocateHandlerFn,
        deallocateHandlerFn (walk up the parent chain, then dereference the
        leaf queue for the log call: nil dereference when the job's queue is
        unknown), updateQueuesCurrentResourceUsage (the session-open pass over
        job.PodStatusIndex of every job of the snapshot: [snapshot_class],
        [snapshot_pod], [load_init], [load_requests]: a pod whose status is in
        pod_status.AllocatedStatus -- Allocated, Binding, Bound, Running -- is
        charged with its AcceptedResource by
        updateQueuesResourceUsageForAllocatedJob to Allocated, Request and, for
        a non-preemptible job, AllocatedNotPreemptible of its queue and of every
        ancestor; a Pending pod is charged with its ResReq (plus devices x
        gpu-memory / MinNodeGPUMemory for a gpu-memory request) by
        updateQueuesResourceUsageForPendingJob to Request only; pods in any
        other status -- Gated, Pipelined, Releasing, Succeeded, Failed,
        Unknown, Deleted -- are charged nowhere)
    - pkg/scheduler/plugins/proportion/utils: QuantifyResourceRequirements
    - pkg/scheduler/api/node_info: GetRequiredInitQuota, GetResourceGpuMemory,
        getResourceGpuPortion, getGpuMemoryFractionalOnNode, setAcceptedResources
    - pkg/scheduler/api/resource_info/gpu_resource_requirment.go: GetGpusQuota,
        getExtendedResourceGpus, NewGpuResourceRequirementWithGpus
    - pkg/scheduler/actions/common/allocate.go: AllocateJob = job-level gate on
        the sum of tasksToAllocate, then per task the node-level gate (predicates
        plugin, evaluateTaskOnPredicates) in the running state followed by
        Statement.Allocate/Pipeline, which fires the allocate handler with the
        task's AcceptedResource; a refused task rolls the job back.  Its
        isPipelineOnly argument ([allocate_job], [op_of]): the same gates in
        both modes; in pipeline-only mode (scenario solvers of preempt /
        reclaim / consolidation) tasks are nominated, never bound; the
        fit-error report of the other mode is left out.
    - pkg/scheduler/framework/statement.go: Commit / commitAllocate /
        cleanupFailedAllocation / unallocate, as far as the usage counters are
        concerned ([event], [do_event]): a successful Cache.Bind fires no
        handler; a failing Cache.Bind makes the deferred
        cleanupFailedAllocation un-allocate that one task (the deallocate
        handlers fire once for it), after which Commit clears its operations
        and returns -- the tasks bound before the failure and the tasks whose
        operations come after it stay charged.

    Quantities are exact rationals ([Q]); Go computes in float64. Rounding of
    float64 arithmetic is not modelled (the correspondence check uses inputs on
    which it is exact).  The [FairShare] and [Usage] fields of ResourceShare are
    left out, and [Request] is modelled only as seeded at session open, in a map
    of its own ([reqmap]; no gate of C08 reads it and the handlers' updates of it
    are left out).  The status classes are those of Model/Status.v, which
    Proofs/StatusTables.v proves equal to the tables of the running code.  MIG resource names
    arrive already parsed as (gpu slices, count) pairs; unparsable names (which
    GetGpusQuota skips with an error log) are not modelled.  DRA GPU counts
    arrive as their total. Which resource exceeded (only present in the
    message text) is not part of the verdict. *)
From Coq Require Import List ZArith QArith Qround Qreduction Bool.
From KaiV Require Import Model.Status.
Import ListNotations.
Open Scope Q_scope.

(** * Resource quantities: rs.ResourceQuantities over rs.AllResources *)

Inductive res := CPU | MEM | GPU.
Definition all_resources : list res := [CPU; MEM; GPU].

Record rq := { r_cpu : Q; r_mem : Q; r_gpu : Q }.
Definition rget (x : rq) (r : res) : Q :=
  match r with CPU => r_cpu x | MEM => r_mem x | GPU => r_gpu x end.
Definition rq_zero : rq := {| r_cpu := 0; r_mem := 0; r_gpu := 0 |}.
Definition rq_add (a b : rq) : rq :=
  {| r_cpu := Qred (r_cpu a + r_cpu b); r_mem := Qred (r_mem a + r_mem b); r_gpu := Qred (r_gpu a + r_gpu b) |}.
Definition rq_sub (a b : rq) : rq :=
  {| r_cpu := Qred (r_cpu a - r_cpu b); r_mem := Qred (r_mem a - r_mem b); r_gpu := Qred (r_gpu a - r_gpu b) |}.

(** constants.UnlimitedResourceQuantity *)
Definition unlimited : Q := -1.

Definition Qltb (a b : Q) : bool := negb (Qle_bool b a).

(** * Queues: rs.QueueAttributes restricted to what the gates read *)

Record queue := {
  q_id : positive;        (* UID *)
  q_parent : positive;    (* ParentQueue; the id of "" (or of any unknown queue) is simply absent from the map *)
  q_limit : rq;           (* MaxAllowed *)
  q_deserved : rq;        (* Deserved *)
  q_alloc : rq;           (* Allocated *)
  q_np : rq;              (* AllocatedNotPreemptible *)
}.

(** map[QueueID]*QueueAttributes as an association list (keys are unique in Go) *)
Definition find_queue (qs : list queue) (id : positive) : option queue :=
  find (fun q => Pos.eqb (q_id q) id) qs.
Definition update (qs : list queue) (id : positive) (f : queue -> queue) : list queue :=
  map (fun q => if Pos.eqb (q_id q) id then f q else q) qs.

Inductive result (A : Type) :=
| Done (a : A)
| OutOfFuel            (* the Go loop does not terminate (cycle of parent links) *)
| Panic.               (* nil dereference *)
Arguments Done {A} a.
Arguments OutOfFuel {A}.
Arguments Panic {A}.

(** * Requests of a task *)

Inductive rtype := Regular | Fraction | GpuMemory | MigInstance.   (* pod_info.ResourceRequestType *)

(** resource_info.GpuResourceRequirement *)
Record greq := {
  g_count : Z;                 (* count *)
  g_portion : Q;               (* portion *)
  g_memory : Z;                (* gpuMemory (MiB) *)
  g_dra : Z;                   (* sum of draGpuCounts *)
  g_mig : list (Z * Z);        (* migResources: (gpu slices of the profile, instances) *)
}.

Record task := {
  t_id : positive;
  t_type : rtype;
  t_cpu : Q;                   (* ResReq.Cpu(), milli-CPU *)
  t_memory : Q;                (* ResReq.Memory(), bytes *)
  t_gpu : greq;                (* ResReq.GpuResourceRequirement *)
}.

(** math.Round: half away from zero; int64(): truncation *)
Definition round_half_away (x : Q) : Z :=
  if Qle_bool 0 x then Qfloor (x + (1#2)) else (- Qfloor (- x + (1#2)))%Z.
Definition Qtrunc (x : Q) : Z := if Qle_bool 0 x then Qfloor x else Qceiling x.

(** getExtendedResourceGpus *)
Definition ext_gpus (portion : Q) (count : Z) : Q :=
  inject_Z (round_half_away (portion * 100) * count) / 100.

Definition mig_quota (l : list (Z * Z)) : Z :=
  fold_right (fun p acc => (fst p * snd p + acc)%Z) 0%Z l.

(** GpuResourceRequirement.GetGpusQuota *)
Definition gpus_quota (g : greq) : Q :=
  Qred (inject_Z (mig_quota (g_mig g)) + inject_Z (g_dra g) + ext_gpus (g_portion g) (g_count g)).

(** getRequiredQuota: what the job-level gate sums per task *)
Definition job_task_request (t : task) : rq :=
  {| r_cpu := t_cpu t; r_mem := t_memory t; r_gpu := gpus_quota (t_gpu t) |}.
Definition job_request (ts : list task) : rq :=
  fold_left (fun acc t => rq_add acc (job_task_request t)) ts rq_zero.

(** NodeInfo.getGpuMemoryFractionalOnNode; [nm] = MemoryOfEveryGpuOnNode > 0 *)
Definition frac_on_node (nm : positive) (m : Z) : Q :=
  inject_Z (Qceiling (inject_Z m / inject_Z (Zpos nm) * 100)) / 100.

(** NodeInfo.GetResourceGpuMemory / getResourceGpuPortion *)
Definition resource_gpu_memory (nm : positive) (g : greq) : Z :=
  if (0 <? g_memory g)%Z then g_memory g else Qtrunc (g_portion g * inject_Z (Zpos nm)).
Definition resource_gpu_portion (nm : positive) (g : greq) : Q :=
  if (0 <? g_memory g)%Z then frac_on_node nm (g_memory g) else g_portion g.

(** NodeInfo.GetRequiredInitQuota: what the node-level gate checks *)
Definition node_task_request (nm : positive) (t : task) : rq :=
  let g := t_gpu t in
  {| r_cpu := t_cpu t; r_mem := t_memory t;
     r_gpu := match g_mig g with
              | [] => frac_on_node nm (resource_gpu_memory nm g)
              | _ :: _ => gpus_quota g
              end |}.

(** NewGpuResourceRequirementWithGpus(gpus, 0) *)
Definition with_gpus (gpus : Q) : greq :=
  if Qle_bool 1 gpus then {| g_count := Qtrunc gpus; g_portion := 1; g_memory := 0; g_dra := 0; g_mig := [] |}
  else if Qltb 0 gpus then {| g_count := 1; g_portion := gpus; g_memory := 0; g_dra := 0; g_mig := [] |}
  else {| g_count := 0; g_portion := gpus; g_memory := 0; g_dra := 0; g_mig := [] |}.

(** NodeInfo.setAcceptedResources: AcceptedResource.GpuResourceRequirement *)
Definition accepted (nm : positive) (t : task) : greq :=
  let g := t_gpu t in
  match t_type t with
  | MigInstance => {| g_count := 0; g_portion := 0; g_memory := 0; g_dra := 0; g_mig := g_mig g |}
  | Fraction | GpuMemory =>
      {| g_count := g_count g; g_portion := resource_gpu_portion nm g;
         g_memory := resource_gpu_memory nm g; g_dra := 0; g_mig := [] |}
  | Regular =>
      let a := with_gpus (ext_gpus (g_portion g) (g_count g)) in
      {| g_count := g_count a; g_portion := g_portion a; g_memory := 0; g_dra := g_dra g; g_mig := [] |}
  end.

(** QuantifyResourceRequirements(task.AcceptedResource): what the handlers charge *)
Definition charge (nm : positive) (t : task) : rq :=
  {| r_cpu := t_cpu t; r_mem := t_memory t; r_gpu := gpus_quota (accepted nm t) |}.

(** * Gates *)

(** isOverLimit / isAllocatedNonPreemptibleOverQuota share this shape *)
Definition exceeds (cap cnt req : rq) : bool :=
  existsb (fun r =>
    if Qeq_bool (rget cap r) unlimited then false
    else if Qeq_bool (rget req r) 0 then false
    else Qltb (rget cap r) (rget cnt r + rget req r)) all_resources.

Definition is_over_limit (q : queue) (req : rq) : bool := exceeds (q_limit q) (q_alloc q) req.
Definition is_np_over_quota (q : queue) (req : rq) : bool := exceeds (q_deserved q) (q_np q) req.

(** the parent-chain walk of both checks: the first queue for which [chk] holds *)
Fixpoint walk_check (fuel : nat) (qs : list queue) (id : positive) (chk : queue -> bool)
  : result (option positive) :=
  match fuel with
  | O => OutOfFuel
  | S n => match find_queue qs id with
           | None => Done None
           | Some q => if chk q then Done (Some (q_id q)) else walk_check n qs (q_parent q) chk
           end
  end.

Inductive verdict :=
| Schedulable
| OverLimit (q : positive)                 (* Reason OverLimit, Details.QueueDetails.Name *)
| NonPreemptibleOverQuota (q : positive).  (* Reason NonPreemptibleOverQuota *)

Definition results_over_limit (fuel : nat) (qs : list queue) (jq : positive) (req : rq) : result verdict :=
  match walk_check fuel qs jq (fun q => is_over_limit q req) with
  | Done None => Done Schedulable
  | Done (Some q) => Done (OverLimit q)
  | OutOfFuel => OutOfFuel
  | Panic => Panic
  end.

Definition results_np_over_quota (fuel : nat) (qs : list queue) (jq : positive) (preemptible : bool) (req : rq)
  : result verdict :=
  if preemptible then Done Schedulable
  else match walk_check fuel qs jq (fun q => is_np_over_quota q req) with
       | Done None => Done Schedulable
       | Done (Some q) => Done (NonPreemptibleOverQuota q)
       | OutOfFuel => OutOfFuel
       | Panic => Panic
       end.

(** isJobOverCapacity with checkFns = [resultsOverLimit; resultsWithNonPreemptibleOverQuota] *)
Definition both_checks (fuel : nat) (qs : list queue) (jq : positive) (preemptible : bool) (req : rq)
  : result verdict :=
  match results_over_limit fuel qs jq req with
  | Done Schedulable => results_np_over_quota fuel qs jq preemptible req
  | other => other
  end.

Definition is_job_over_queue_capacity fuel qs jq preemptible (ts : list task) : result verdict :=
  both_checks fuel qs jq preemptible (job_request ts).
Definition is_non_preemptible_job_over_quota fuel qs jq preemptible (ts : list task) : result verdict :=
  results_np_over_quota fuel qs jq preemptible (job_request ts).
Definition is_task_allocation_on_node_over_capacity fuel qs jq preemptible (t : task) (nm : positive)
  : result verdict :=
  both_checks fuel qs jq preemptible (node_task_request nm t).

(** * Handlers *)

Definition bump (add : bool) (np : bool) (c : rq) (q : queue) : queue :=
  let op := if add then rq_add else rq_sub in
  {| q_id := q_id q; q_parent := q_parent q; q_limit := q_limit q; q_deserved := q_deserved q;
     q_alloc := op (q_alloc q) c;
     q_np := if np then op (q_np q) c else q_np q |}.

Fixpoint walk_update (fuel : nat) (qs : list queue) (id : positive) (f : queue -> queue)
  : result (list queue) :=
  match fuel with
  | O => OutOfFuel
  | S n => match find_queue qs id with
           | None => Done qs
           | Some q => walk_update n (update qs id f) (q_parent q) f
           end
  end.

(** allocateHandlerFn / deallocateHandlerFn: the loop up the parent chain. A job
    whose queue is not in the plugin's map charges nothing (since /repo 0ac7c83
    the handlers return before the log line that dereferenced the missing leaf
    queue; before that commit this case was a nil dereference). *)
Definition handler (add : bool) (fuel : nat) (qs : list queue) (jq : positive) (preemptible : bool) (c : rq)
  : result (list queue) :=
  walk_update fuel qs jq (bump add (negb preemptible) c).
Definition alloc_handler := handler true.
Definition dealloc_handler := handler false.

(** updateQueuesResourceUsageForAllocatedJob (one allocated pod of the snapshot;
    Allocated and AllocatedNotPreemptible of the queue and every ancestor): no leaf dereference *)
Definition snapshot_charge (fuel : nat) (qs : list queue) (jq : positive) (preemptible : bool) (c : rq)
  : result (list queue) :=
  walk_update fuel qs jq (bump true (negb preemptible) c).

(** * Decisions *)

(** one charged task: what the deallocate handler will later subtract *)
Record entry := { e_task : positive; e_queue : positive; e_preempt : bool; e_charge : rq }.

Record state := { s_queues : list queue; s_ledger : list entry }.

Record job := { j_queue : positive; j_preempt : bool; j_tasks : list (task * positive) }.
   (* tasksToAllocate, each with MemoryOfEveryGpuOnNode of the node it is placed on *)

Inductive outcome :=
| Accepted (qs : list queue) (es : list entry)
| Refused (v : verdict).

(** allocateTasksOnNodeSet: per task the node-level gate in the running state,
    then the handler. [acc]: the entries of this job so far, most recent first. *)
Fixpoint admit_tasks (fuel : nat) (qs : list queue) (jq : positive) (preemptible : bool)
         (ts : list (task * positive)) (acc : list entry) : result outcome :=
  match ts with
  | [] => Done (Accepted qs acc)
  | (t, nm) :: rest =>
      match is_task_allocation_on_node_over_capacity fuel qs jq preemptible t nm with
      | Done Schedulable =>
          match alloc_handler fuel qs jq preemptible (charge nm t) with
          | Done qs1 =>
              admit_tasks fuel qs1 jq preemptible rest
                ({| e_task := t_id t; e_queue := jq; e_preempt := preemptible; e_charge := charge nm t |} :: acc)
          | OutOfFuel => OutOfFuel
          | Panic => Panic
          end
      | Done v => Done (Refused v)
      | OutOfFuel => OutOfFuel
      | Panic => Panic
      end
  end.

(** AllocateJob: a refused job leaves the state as it was (statement rollback) *)
Definition admit_job (fuel : nat) (qs : list queue) (j : job) : result outcome :=
  match is_job_over_queue_capacity fuel qs (j_queue j) (j_preempt j) (map fst (j_tasks j)) with
  | Done Schedulable => admit_tasks fuel qs (j_queue j) (j_preempt j) (j_tasks j) []
  | Done v => Done (Refused v)
  | OutOfFuel => OutOfFuel
  | Panic => Panic
  end.

(** ** The two modes of AllocateJob

    common.AllocateJob(ssn, stmt, nodes, job, isPipelineOnly) is called in two
    modes: isPipelineOnly = false by the allocate action (a real allocation:
    a task that fits idle resources is allocated with Statement.Allocate and
    bound at commit, one that only fits releasing resources is nominated with
    Statement.Pipeline), isPipelineOnly = true by the scenario solvers of the
    preempt, reclaim and consolidation actions (tasks are only ever nominated).
    Both operations fire the same allocate handler.  The capacity gates are
    the same in both modes: the job-level gate ssn.IsJobOverQueueCapacityFn on
    the sum of tasksToAllocate runs first (the `if !isPipelineOnly` inside its
    refusal branch guards only job.AddJobFitError, the fit-error report, which
    is left out here), then per task the node-level gate.  [allocate_job] is
    that function with its mode; [admit_job] above is the same text without the
    mode argument (Proofs/CapacityModes.v: equal for both modes). *)
Inductive op_kind := OpAllocate | OpPipeline.

(** allocateTask: the statement operation a placed task is recorded with.
    [fits_idle]: the node has the resources idle (node books: C01 / C02; an
    oracle here). *)
Definition op_of (pipeline_only fits_idle : bool) : op_kind :=
  if pipeline_only then OpPipeline else if fits_idle then OpAllocate else OpPipeline.

Definition allocate_job (pipeline_only : bool) (fuel : nat) (qs : list queue) (j : job) : result outcome :=
  match is_job_over_queue_capacity fuel qs (j_queue j) (j_preempt j) (map fst (j_tasks j)) with
  | Done Schedulable => admit_tasks fuel qs (j_queue j) (j_preempt j) (j_tasks j) []
  | Done v => Done (Refused v)   (* in both modes; only the fit-error report depends on pipeline_only *)
  | OutOfFuel => OutOfFuel
  | Panic => Panic
  end.

(** NOT the code -- two variants named for the theorems that say why the
    job-level gate is there.  [admit_job_node_gate_only]: AllocateJob without
    the job-level gate, the per-task node-level gates alone.
    [allocate_job_gate_skipped_when_pipeline_only]: the `if !isPipelineOnly`
    guard wrapped around the whole job-level check instead of around the
    report, so that the solver actions run the node-level gates alone. *)
Definition admit_job_node_gate_only (fuel : nat) (qs : list queue) (j : job) : result outcome :=
  admit_tasks fuel qs (j_queue j) (j_preempt j) (j_tasks j) [].

Definition allocate_job_gate_skipped_when_pipeline_only
    (pipeline_only : bool) (fuel : nat) (qs : list queue) (j : job) : result outcome :=
  if pipeline_only then admit_job_node_gate_only fuel qs j else admit_job fuel qs j.

Inductive step :=
| AdmitJob (j : job)
| Release (tid : positive).     (* evict / undo of a charged task: deallocate handler *)

Fixpoint take_entry (tid : positive) (l : list entry) : option (entry * list entry) :=
  match l with
  | [] => None
  | e :: r => if Pos.eqb (e_task e) tid then Some (e, r)
              else match take_entry tid r with
                   | Some (x, r') => Some (x, e :: r')
                   | None => None
                   end
  end.

Definition do_step (fuel : nat) (s : state) (x : step) : result state :=
  match x with
  | AdmitJob j =>
      match admit_job fuel (s_queues s) j with
      | Done (Accepted qs es) => Done {| s_queues := qs; s_ledger := es ++ s_ledger s |}
      | Done (Refused _) => Done s
      | OutOfFuel => OutOfFuel
      | Panic => Panic
      end
  | Release tid =>
      match take_entry tid (s_ledger s) with
      | None => Done s
      | Some (e, rest) =>
          match dealloc_handler fuel (s_queues s) (e_queue e) (e_preempt e) (e_charge e) with
          | Done qs => Done {| s_queues := qs; s_ledger := rest |}
          | OutOfFuel => OutOfFuel
          | Panic => Panic
          end
      end
  end.

Fixpoint run (fuel : nat) (s : state) (xs : list step) : result state :=
  match xs with
  | [] => Done s
  | x :: r => match do_step fuel s x with
              | Done s1 => run fuel s1 r
              | OutOfFuel => OutOfFuel
              | Panic => Panic
              end
  end.

(** * Statement.Commit

    What an action does with the statement that holds its decisions, seen from
    the usage counters. [Decide x]: a decision simulated in a statement (the
    steps above). [CommitOk]: Commit with every Cache.Bind succeeding
    (Session.BindPod only moves the task to Binding; no handler fires).
    [BindFail tid]: Commit in which Cache.Bind fails for task [tid]:
    commitAllocate's deferred cleanupFailedAllocation calls unallocate, which
    fires the deallocate handlers once for that task; Commit then does
    clearOperations and returns the error, so nothing else is undone: tasks
    bound earlier stay Binding, tasks of later operations stay Allocated, and
    all of them stay in the ledger. *)
Inductive event :=
| Decide (x : step)
| CommitOk
| BindFail (tid : positive).

Definition do_event (fuel : nat) (s : state) (e : event) : result state :=
  match e with
  | Decide x => do_step fuel s x
  | CommitOk => Done s
  | BindFail tid => do_step fuel s (Release tid)
  end.

Fixpoint run_events (fuel : nat) (s : state) (es : list event) : result state :=
  match es with
  | [] => Done s
  | e :: r => match do_event fuel s e with
              | Done s1 => run_events fuel s1 r
              | OutOfFuel => OutOfFuel
              | Panic => Panic
              end
  end.

(** the decisions an event list amounts to *)
Definition steps_of_event (e : event) : list step :=
  match e with
  | Decide x => [x]
  | CommitOk => []
  | BindFail tid => [Release tid]
  end.
Definition steps_of (es : list event) : list step := flat_map steps_of_event es.

(** the fuel used by the correspondence check and sufficient on every acyclic forest *)
Definition default_fuel (qs : list queue) : nat := S (length qs).

(** * The snapshot: updateQueuesCurrentResourceUsage

    One pod of the snapshot as the session-open pass sees it: the queue and
    preemptibility of its job, its status (the key of job.PodStatusIndex it is
    filed under), QuantifyResourceRequirements(t.AcceptedResource) and the
    quantities a pending pod asks for ([pending_request]). *)
Record spod := {
  sp_task : positive;
  sp_queue : positive;       (* job.Queue *)
  sp_preempt : bool;         (* job.IsPreemptibleJob() *)
  sp_status : status;
  sp_accepted : rq;          (* QuantifyResourceRequirements(t.AcceptedResource) *)
  sp_request : rq;           (* QuantifyResourceRequirements(t.ResReq) [+ gpu-memory term] *)
}.

(** which branch of the loop body a status takes:
      if pod_status.AllocatedStatus(status) {...} else if status == pod_status.Pending {...} *)
Inductive snap_class := SnapAllocated | SnapPending | SnapIgnored.
Definition snapshot_class (st : status) : snap_class :=
  if allocated_status st then SnapAllocated
  else if status_eqb st Pending then SnapPending
  else SnapIgnored.

(** the Pending branch: QuantifyResourceRequirements(t.ResReq), to which a
    gpu-memory request adds devices * (gpuMemory / ClusterInfo.MinNodeGPUMemory) GPUs *)
Definition pending_request (min_node_mem : positive) (t : task) : rq :=
  let b := job_task_request t in
  match t_type t with
  | GpuMemory =>
      {| r_cpu := r_cpu b; r_mem := r_mem b;
         r_gpu := Qred (r_gpu b + inject_Z (g_count (t_gpu t)) * (inject_Z (g_memory (t_gpu t)) / inject_Z (Zpos min_node_mem))) |}
  | _ => b
  end.

Definition entry_of (p : spod) : entry :=
  {| e_task := sp_task p; e_queue := sp_queue p; e_preempt := sp_preempt p; e_charge := sp_accepted p |}.

(** Allocated / AllocatedNotPreemptible, and the tasks charged *)
Definition snapshot_pod (fuel : nat) (s : state) (p : spod) : result state :=
  match snapshot_class (sp_status p) with
  | SnapAllocated =>
      match snapshot_charge fuel (s_queues s) (sp_queue p) (sp_preempt p) (sp_accepted p) with
      | Done qs => Done {| s_queues := qs; s_ledger := entry_of p :: s_ledger s |}
      | OutOfFuel => OutOfFuel
      | Panic => Panic
      end
  | SnapPending | SnapIgnored => Done s
  end.

Fixpoint load_init (fuel : nat) (s : state) (ps : list spod) : result state :=
  match ps with
  | [] => Done s
  | p :: r => match snapshot_pod fuel s p with
              | Done s1 => load_init fuel s1 r
              | OutOfFuel => OutOfFuel
              | Panic => Panic
              end
  end.

(** Request, as seeded by the same pass (map[QueueID] -> ResourceShare.Request; a queue without entry has 0) *)
Definition reqmap := list (positive * rq).
Definition req_get (m : reqmap) (id : positive) : rq :=
  match find (fun x => Pos.eqb (fst x) id) m with Some x => snd x | None => rq_zero end.
Definition req_add (m : reqmap) (id : positive) (c : rq) : reqmap :=
  (id, rq_add (req_get m id) c) :: filter (fun x => negb (Pos.eqb (fst x) id)) m.

Fixpoint walk_request (fuel : nat) (qs : list queue) (id : positive) (c : rq) (m : reqmap) : result reqmap :=
  match fuel with
  | O => OutOfFuel
  | S n => match find_queue qs id with
           | None => Done m
           | Some q => walk_request n qs (q_parent q) c (req_add m id c)
           end
  end.

Definition snapshot_request (fuel : nat) (qs : list queue) (m : reqmap) (p : spod) : result reqmap :=
  match snapshot_class (sp_status p) with
  | SnapAllocated => walk_request fuel qs (sp_queue p) (sp_accepted p) m   (* ...ForAllocatedJob: Request += *)
  | SnapPending => walk_request fuel qs (sp_queue p) (sp_request p) m      (* ...ForPendingJob *)
  | SnapIgnored => Done m
  end.

Fixpoint load_requests (fuel : nat) (qs : list queue) (m : reqmap) (ps : list spod) : result reqmap :=
  match ps with
  | [] => Done m
  | p :: r => match snapshot_request fuel qs m p with
              | Done m1 => load_requests fuel qs m1 r
              | OutOfFuel => OutOfFuel
              | Panic => Panic
              end
  end.

(** * One allocation attempt over the candidate nodes

    common.allocateTask: the node-order plugins rank the nodes
    (ssn.OrderedNodesByTask -- an oracle here: the candidates arrive as a list
    in the order they are tried); for each candidate ssn.FittingNode runs the
    predicates, the FIRST of which (predicates plugin, evaluateTaskOnPredicates)
    is the node-level capacity gate IsTaskAllocationOnNodeOverCapacity(task,
    job, node): what it adds to the queues' allocation is
    node.GetRequiredInitQuota(task) ([node_task_request]), which for a
    gpu-memory request is ceil(100 * gpuMemory / MemoryOfEveryGpuOnNode) / 100 of
    THAT node.  A candidate that passes the gate can still be dropped by what
    comes after it on the same node: PredicateByNodeResourcesType, the
    gpu-memory-synced check, max pods, node conditions, the upstream filters
    (node affinity / selector, taints, pod affinity, ports, volumes, DRA), and
    finally the placement itself (allocateTaskToNode: no device to share, ...).
    All of that is the oracle [cn_rest]; the theorems quantify over it.  The
    task goes to the first candidate that passes both, and the allocate
    handler charges [charge] of THAT node (NodeInfo.setAcceptedResources). *)
Record cnode := {
  cn_id : positive;      (* the node *)
  cn_mem : positive;     (* MemoryOfEveryGpuOnNode *)
  cn_rest : bool;        (* oracle: every later predicate and the placement succeed on this node *)
}.

(** [reuse = false] is the code: the gate is evaluated for every candidate.
    [reuse = true] is NOT the code (the variant seeded/C08-4 introduces): the
    verdict obtained for the first candidate evaluated is kept in [memo] and
    reused for the other candidates of the same attempt.
    Result: the verdicts in the order the candidates were visited, and the
    candidate chosen. *)
Fixpoint place_task_gen (reuse : bool) (fuel : nat) (qs : list queue) (jq : positive) (preemptible : bool)
         (t : task) (memo : option verdict) (cs : list cnode) : result (list verdict * option cnode) :=
  match cs with
  | [] => Done ([], None)
  | c :: r =>
      let rv := match (if reuse then memo else None) with
                | Some v => Done v
                | None => is_task_allocation_on_node_over_capacity fuel qs jq preemptible t (cn_mem c)
                end in
      match rv with
      | Done v =>
          if match v with Schedulable => cn_rest c | _ => false end
          then Done ([v], Some c)
          else match place_task_gen reuse fuel qs jq preemptible t (Some v) r with
               | Done (vs, o) => Done (v :: vs, o)
               | OutOfFuel => OutOfFuel
               | Panic => Panic
               end
      | OutOfFuel => OutOfFuel
      | Panic => Panic
      end
  end.

Definition place_task := place_task_gen false.

(** a job whose tasks come with their candidate nodes instead of with the node they end up on *)
Record ajob := { aj_queue : positive; aj_preempt : bool; aj_tasks : list (task * list cnode) }.

Inductive aoutcome :=
| APlaced (qs : list queue) (es : list entry) (where_ : list (task * cnode)) (trace : list (list verdict))
    (* every task placed: the queues, the entries (most recent first), each task with the node chosen, and per
       task the verdicts of the node-level gate on the candidates visited *)
| ARefusedJob (v : verdict)          (* the job-level gate *)
| ANoNode (tid : positive).          (* no candidate passed for this task: the statement is rolled back *)

Fixpoint attempt_tasks (reuse : bool) (fuel : nat) (qs : list queue) (jq : positive) (preemptible : bool)
         (ts : list (task * list cnode)) (acc : list entry) (chosen : list (task * cnode))
         (trace : list (list verdict)) : result aoutcome :=
  match ts with
  | [] => Done (APlaced qs acc (rev chosen) (rev trace))
  | (t, cs) :: rest =>
      match place_task_gen reuse fuel qs jq preemptible t None cs with
      | Done (vs, Some c) =>
          match alloc_handler fuel qs jq preemptible (charge (cn_mem c) t) with
          | Done qs1 =>
              attempt_tasks reuse fuel qs1 jq preemptible rest
                ({| e_task := t_id t; e_queue := jq; e_preempt := preemptible; e_charge := charge (cn_mem c) t |} :: acc)
                ((t, c) :: chosen) (vs :: trace)
          | OutOfFuel => OutOfFuel
          | Panic => Panic
          end
      | Done (_, None) => Done (ANoNode (t_id t))
      | OutOfFuel => OutOfFuel
      | Panic => Panic
      end
  end.

(** AllocateJob with the node search spelled out *)
Definition attempt_job_gen (reuse : bool) (fuel : nat) (qs : list queue) (j : ajob) : result aoutcome :=
  match is_job_over_queue_capacity fuel qs (aj_queue j) (aj_preempt j) (map fst (aj_tasks j)) with
  | Done Schedulable => attempt_tasks reuse fuel qs (aj_queue j) (aj_preempt j) (aj_tasks j) [] [] []
  | Done v => Done (ARefusedJob v)
  | OutOfFuel => OutOfFuel
  | Panic => Panic
  end.

Definition attempt_job := attempt_job_gen false.                      (* the code *)
Definition attempt_job_first_verdict_reused := attempt_job_gen true.   (* NOT the code: seeded/C08-4 *)

(** the job of [admit_job] that an attempt's choices amount to *)
Definition resolved (j : ajob) (where_ : list (task * cnode)) : job :=
  {| j_queue := aj_queue j; j_preempt := aj_preempt j;
     j_tasks := map (fun tc => (fst tc, cn_mem (snd tc))) where_ |}.

(** sequences of attempts and releases *)
Inductive astep :=
| AttemptJob (j : ajob)
| AReleaseTask (tid : positive).

Definition do_astep_gen (reuse : bool) (fuel : nat) (s : state) (x : astep) : result state :=
  match x with
  | AttemptJob j =>
      match attempt_job_gen reuse fuel (s_queues s) j with
      | Done (APlaced qs es _ _) => Done {| s_queues := qs; s_ledger := es ++ s_ledger s |}
      | Done (ARefusedJob _) | Done (ANoNode _) => Done s
      | OutOfFuel => OutOfFuel
      | Panic => Panic
      end
  | AReleaseTask tid => do_step fuel s (Release tid)
  end.

Fixpoint arun_gen (reuse : bool) (fuel : nat) (s : state) (xs : list astep) : result state :=
  match xs with
  | [] => Done s
  | x :: r => match do_astep_gen reuse fuel s x with
              | Done s1 => arun_gen reuse fuel s1 r
              | OutOfFuel => OutOfFuel
              | Panic => Panic
              end
  end.

Definition do_astep := do_astep_gen false.
Definition arun := arun_gen false.
