(** Declarative side of C18: which pods are meant to share a PodGroup, written
    from docs/developer/pod-grouper.md and independent of the control flow of
    the grouper (no owner walk, no plugin table).

    A pod's [chain] lists the kinds of its owners from the direct owner up to
    the top owner. The grouping owner is the top owner, or — "skip top owner" —
    the owner below it when the top owner is an orchestration kind. Pods are
    grouped one PodGroup per pod when the grouping owner is the pod itself (no
    readable owner left), a
    Deployment ("A Pod Group is created per pod of the deployment") or a batch
    Job (pkg/podgrouper/podgrouper/plugins/job: the name is derived from the
    pod name; the unit test asserts distinct names for two pods of one Job);
    every other kind yields one PodGroup for all pods of the grouping owner. *)
From Coq Require Import List String Bool.
From KaiV Require Import Model.Grouper.
Import ListNotations.
Open Scope string_scope.

Inductive gclass := Shared | PerPod.

Definition gclass_eqb (a b : gclass) : bool :=
  match a, b with Shared, Shared => true | PerPod, PerPod => true | _, _ => false end.

Definition is_kind (group kind : string) (g : gvk) : bool :=
  String.eqb (g_group g) group && String.eqb (g_kind g) kind.

Definition per_pod_kind (g : gvk) : bool :=
  is_kind "apps" "Deployment" g || is_kind "batch" "Job" g.

Definition skip_kind (g : gvk) : bool :=
  is_kind "argoproj.io" "Workflow" g
  || is_kind "run.ai" "InferenceWorkload" g || is_kind "run.ai" "TrainingWorkload" g
  || is_kind "run.ai" "DistributedWorkload" g || is_kind "run.ai" "InteractiveWorkload" g
  || is_kind "run.ai" "DistributedInferenceWorkload" g
  || is_kind "trainer.kubeflow.org" "TrainJob" g
  || is_kind "nvidia.com" "DynamoGraphDeployment" g.

(** [rchain]: top owner first *)
Fixpoint class_from_top (rchain : list gvk) : gclass :=
  match rchain with
  | [] => PerPod                                   (* the pod is its own grouping owner *)
  | top :: below => if skip_kind top then class_from_top below
                    else if per_pod_kind top then PerPod else Shared
  end.

(** owners the grouper may not read are treated as absent, together with everything above them *)
Fixpoint readable (forbidden : list string) (chain : list gvk) : list gvk :=
  match chain with
  | [] => []
  | g :: r => if existsb (String.eqb (g_kind g)) forbidden then [] else g :: readable forbidden r
  end.

Definition spec_class (forbidden : list string) (chain : list gvk) : gclass :=
  class_from_top (rev (readable forbidden chain)).

(** the fields the property names: they may depend on the owner chain and the pod template only *)
Record group_fields := {
  gf_min : BinNums.Z; gf_queue : string; gf_prio : string; gf_preempt : string;
  gf_subgroups : option (list subgroup)
}.
Definition fields_of (g : pg) : group_fields :=
  {| gf_min := sp_min g; gf_queue := sp_queue g; gf_prio := sp_prio g; gf_preempt := sp_preempt g;
     gf_subgroups := sp_subgroups g |}.
Definition group_fields_eqb (a b : group_fields) : bool :=
  BinInt.Z.eqb (gf_min a) (gf_min b) && String.eqb (gf_queue a) (gf_queue b)
  && String.eqb (gf_prio a) (gf_prio b) && String.eqb (gf_preempt a) (gf_preempt b)
  && opt_eqb (list_eqb subgroup_eqb) (gf_subgroups a) (gf_subgroups b).
