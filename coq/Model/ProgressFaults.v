(** The allocate loop of Model/Progress.v under Bind failures (property C05,
    work conservation when the API server refuses some bind requests).

    Go code modelled (as it is at HEAD):
    - pkg/scheduler/framework/statement.go
        (Statement).Commit: one Cache call per valid operation, in the order of
        the operation list; allocate operation -> commitAllocate ->
        Session.BindPod -> Cache.Bind; when the call returns an error:
        cleanupFailedAllocation = Statement.unallocate of THAT pod (the job's
        copy back to Pending, NodeInfo.RemoveTask on its node, the plugins'
        deallocate handlers: the pod is no longer charged to its queue), then
        clearOperations and return the error: THE REMAINING OPERATIONS OF THE
        STATEMENT ARE DROPPED, NOT UNDONE: pods placed later in the same attempt
        keep their placement in the session (status Allocated / Pipelined, stored
        on their node, charged to their queue) although no Cache call is made for
        them.  pipeline operation -> Cache.TaskPipelined, which cannot fail.
    - pkg/scheduler/actions/allocate/allocate.go
        (allocateAction).Execute: [err := stmt.Commit()]; on an error the job is
        not pushed back (its other pods are not attempted again in this cycle)
        and THE LOOP GOES ON WITH THE NEXT JOB ([carry_on = true]).
        [carry_on = false] is the variant that returns from Execute at the first
        failed commit (NOT the code; seeded/C05-4).

    The failure oracle [f] says, for the k-th Cache.Bind call of the action
    (k counted from 0 over the whole action), whether it is refused.  Every
    deterministic fault pattern of one run ("the k-th call", "every call for a
    pod of job j", ...) is such a function on the calls of that run; the
    theorems quantify over all of them. *)
From Coq Require Import List ZArith PArith Bool.
From KaiV Require Import Model.Res Model.Status Model.AMap Model.Node Model.Progress.
Import ListNotations.
Open Scope Z_scope.

(** the Cache calls of the allocate action: job, pod, node *)
Inductive acall :=
| ABind (j t n : positive)
| ABindRefused (j t n : positive)
| APipe (j t n : positive).

Definition boracle := nat -> bool.
Definition no_bind_faults : boracle := fun _ => false.

(** Statement.unallocate at node level: the node's own copy of the pod is removed
    (a failing RemoveTask is logged and ignored by the code) *)
Definition unallocate (ns : cluster) (pl : placement) : cluster :=
  match alookup (pl_node pl) ns with
  | Some n => match remove_task n (t_id (pl_task pl)) with
              | Ok n' => upd (pl_node pl) n' ns
              | Err => ns
              end
  | None => ns
  end.

Record commit_res := mkCR {
  cr_calls : list acall;          (* in call order *)
  cr_kb : nat;                    (* Bind calls issued by the action so far *)
  cr_nodes : cluster;
  cr_kept : list placement;       (* the operations that still hold in the session, in operation order:
                                     the accepted ones and the ones dropped after a refused Bind *)
  cr_refused : bool;              (* Commit returned an error *)
}.

(** Statement.Commit on the operations [ops] (operation order) of job [jid] *)
Fixpoint commit_f (f : boracle) (jid : positive) (kb : nat) (ns : cluster) (ops : list placement) : commit_res :=
  match ops with
  | [] => mkCR [] kb ns [] false
  | pl :: r =>
      if pl_piped pl then
        let c := commit_f f jid kb ns r in
        mkCR (APipe jid (t_id (pl_task pl)) (pl_node pl) :: cr_calls c) (cr_kb c) (cr_nodes c) (pl :: cr_kept c) (cr_refused c)
      else if f kb then
        mkCR [ABindRefused jid (t_id (pl_task pl)) (pl_node pl)] (S kb) (unallocate ns pl) r true
      else
        let c := commit_f f jid (S kb) ns r in
        mkCR (ABind jid (t_id (pl_task pl)) (pl_node pl) :: cr_calls c) (cr_kb c) (cr_nodes c) (pl :: cr_kept c) (cr_refused c)
  end.

Definition refused_job (c : acall) : list positive :=
  match c with ABindRefused j _ _ => [j] | _ => [] end.
(** the jobs that had a Bind refused *)
Definition hit_jobs (cs : list acall) : list positive := flat_map refused_job cs.
Definition was_hit (cs : list acall) (j : positive) : bool := existsb (Pos.eqb j) (hit_jobs cs).

Definition as_accepted (c : acall) : acall :=
  match c with ABindRefused j t n => ABind j t n | _ => c end.
Definition accepted_bind (c : acall) : list (positive * positive) :=
  match c with ABind _ t n => [(t, n)] | _ => [] end.
Definition accepted_binds (cs : list acall) : list (positive * positive) := flat_map accepted_bind cs.

Record fstate := mkFS {
  fs_ls : lstate;
  fs_kb : nat;
  fs_calls : list acall;          (* every Cache call of the action so far, in order *)
  fs_stopped : bool;              (* only with [carry_on = false]: Execute has returned *)
}.

Definition fs_init (st : lstate) : fstate := mkFS st O [] false.

Section FaultyAllocate.
  Variable pred : task -> positive -> bool.
  Variable tgate : hist -> positive -> task -> positive -> bool.
  Variable gate : hist -> positive -> list task -> bool.
  Variable nord : hist -> task -> list positive.
  Variable gsel : hist -> positive -> node -> task -> option (list positive * bool).
  Variable shouldpipe : positive -> hist -> bool.
  Variable carry_on : bool.
  Variable f : boracle.

  (** [attempt] of Model/Progress.v, returning the operations of the statement
      (most recent first) instead of the extended history *)
  Definition attempt_ops (ns : cluster) (h : hist) (jid : positive) (ts : list task) : option (cluster * hist) :=
    if gate h jid ts then
      match place_chunk pred tgate nord gsel ns h jid ts [] with
      | Some (ns1, cp) =>
          if shouldpipe jid cp then
            match convert_all ns1 (rev cp) with
            | Some ns2 => Some (ns2, map as_piped cp)
            | None => None
            end
          else Some (ns1, cp)
      | None => None
      end
    else None.

  (** one pop.  After a commit that returned an error the job is not pushed back:
      it is marked like a refused job (it keeps pods to allocate and is never
      popped again); [hit_jobs] tells the two apart. *)
  Definition step_f (fs : fstate) (jid : positive) : fstate :=
    if fs_stopped fs then fs
    else
      let st := fs_ls fs in
      match find_job jid (ls_jobs st) with
      | None => fs
      | Some j =>
          if js_failed j then fs
          else match js_todo j with
               | [] => fs
               | c :: rest =>
                   match attempt_ops (ls_nodes st) (ls_hist st) jid c with
                   | Some (ns1, cp) =>
                       let r := commit_f f jid (fs_kb fs) ns1 (rev cp) in
                       let h' := rev (cr_kept r) ++ ls_hist st in
                       if cr_refused r then
                         mkFS (mkLS (cr_nodes r) h' (set_job (mkJS jid (c :: rest) true) (ls_jobs st)))
                              (cr_kb r) (fs_calls fs ++ cr_calls r) (negb carry_on)
                       else
                         mkFS (mkLS (cr_nodes r) h' (set_job (mkJS jid rest false) (ls_jobs st)))
                              (cr_kb r) (fs_calls fs ++ cr_calls r) false
                   | None =>
                       mkFS (mkLS (ls_nodes st) (ls_hist st) (set_job (mkJS jid (c :: rest) true) (ls_jobs st)))
                            (fs_kb fs) (fs_calls fs) false
                   end
               end
      end.

  Definition allocate_action_f (st0 : lstate) (order : list positive) : fstate :=
    fold_left step_f order (fs_init st0).
End FaultyAllocate.

(** the operations a refused Bind cut off: placements that hold in the session
    although no Cache call was accepted (or even made) for them *)
Definition called (cs : list acall) (t : positive) : bool :=
  existsb (fun c => match c with
                    | ABind _ t' _ | APipe _ t' _ => Pos.eqb t t'
                    | ABindRefused _ _ _ => false
                    end) cs.
Definition dropped_ops (fs : fstate) : list placement :=
  filter (fun pl => negb (called (fs_calls fs) (t_id (pl_task pl)))) (ls_hist (fs_ls fs)).
(** the cluster as the API server knows it after the action: the dropped
    operations hold nothing *)
Definition ground_truth (fs : fstate) : cluster :=
  fold_left unallocate (dropped_ops fs) (ls_nodes (fs_ls fs)).
