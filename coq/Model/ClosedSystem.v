(** Closed-system model for property C15 (no eviction livelock).

    The class of theorem C15_rank_decreases: ONE contended resource, single-pod jobs of
    EQUAL size [p_sz], leaf queues under departments (two levels; "flat" = one department),
    preemptible jobs only, no queue limits.  Fixed jobs / queues / capacity; a state is the
    list of jobs that hold a slot.  Shares are integers in an arbitrary common unit (the
    harness scales the float64 values the plugin computed by a power of two), they do not
    change from cycle to cycle: requests and totals are constant in a closed system and
    time-based usage is not modelled (kValue term = 0).

    What is modelled (abstract decision relation; every gate is the single-resource,
    equal-size, single-victim instance of the Go code):
    - allocate (actions/allocate): [DBind j] - a pending job takes a free slot.  The order in
      which the real action offers slots to jobs (queue_order.go, C16) is NOT modelled: any
      pending job may take any free slot.
    - reclaim (actions/reclaim/reclaim.go + plugins/proportion/reclaimable/reclaimable.go,
      strategies/strategies.go): [DReclaim j v]
        CanReclaimResources: allocated(q_j) + size <= fairShare(q_j)            (leaf queue)
        getLeveledQueues: the pair of queues compared is (q_j, q_v) when both leaves are in
          the same department, else (dept_j, dept_v)
        FitsReclaimStrategy on the leveled pair (rq, eq):
          MaintainFairShare:      allocated(eq) > max(deserved(eq), fairShare(eq))
          GuaranteeDeservedQuota: allocated(rq) + size <= deserved(rq) /\ allocated(eq) > deserved(eq)
        reclaimingQueuesRemainWithinBoundaries / isFairShareSaturationLowerPerResource, for the
          department level when the departments differ (at leaf level the check is vacuous
          because CanReclaimResources keeps the reclaimer's ratio <= 1):
          refuse iff  x/F_r > 1  /\  F_e > 0  /\  (x/F_r) * m >= y/F_e
          with x = allocated(rq) + size, y = allocated(eq) - size.
      [m] is the saturation multiplier AFTER proportion.New clamped it ([clamp]).
    - preempt (actions/preempt/preempt.go buildFilterFuncForPreempt): [DPreempt j v] - same
      queue and priority(v) < priority(j) (strict).
    - the effect of an eviction decision: the victim becomes pending and the job the eviction
      was made for holds the victim's slot (the session pipelines it there and counts it as
      allocated to its queue; in the closed system "binds complete").  This is an ASSUMPTION
      about the next allocate (its queue order, queue_order.go, is not modelled): the real
      solver only commits an eviction when, in its simulation, the job it is made for is placed
      before the re-placed victim, but a third job may still get the slot in the next cycle.
      The harness counts those events (slot-not-honoured) and replays every real cycle from
      the observed state; [redecide_system] below is the class without the assumption (it
      has a lasso).
    - an unlimited (-1) deserved quota is represented by a value >= capacity * size: every
      comparison the code makes against it has the same outcome while allocations stay
      within capacity.

    - SIZE CONSISTENCY (last section): the size by which the gate counts a pending job
      (api/podgroup_info/allocation_info.go GetTasksToAllocateInitResource, handed to the gate by
      plugins/proportion/proportion.go buildReclaimerInfo) as a parameter [gate_size] of [reclaim_ok_sized], against
      the size a slot holder is charged (api/node_info/node_info.go setAcceptedResources; proportion's allocate
      handler) = [charged_size] = [p_sz]; hypotheses [size_consistent] / [never_undercounted].

    Left out: consolidation (never applicable in the class: any pending job fits any free
    slot), gangs / several pods per job, several resources, more than two queue levels,
    queue limits, non-preemptible jobs, min-runtime protection, node placement
    (fragmentation cannot occur with equal sizes on one resource), float rounding. *)
From Coq Require Import List ZArith Bool.
Import ListNotations.
Open Scope Z_scope.

Definition id := positive.

Record job := mkJob { j_id : id; j_queue : id; j_prio : Z }.
Record queue := mkQueue { q_id : id; q_dept : id; q_fair : Z; q_des : Z }.
Record dept := mkDept { d_id : id; d_fair : Z; d_des : Z }.

Record params := mkParams {
  p_sz : Z;                 (* size of every job, in share units *)
  p_slots : Z;              (* capacity, in jobs *)
  p_queues : list queue;
  p_depts : list dept;
  p_jobs : list job;
}.

(** jobs that hold a slot (running, or pipelined onto a slot being released) *)
Definition state := list id.

Inductive decision :=
| DBind (j : id)
| DReclaim (j v : id)
| DPreempt (j v : id).

Definition evicting (d : decision) : bool :=
  match d with DBind _ => false | _ => true end.

(** * lookups *)
Fixpoint find_job (js : list job) (i : id) : option job :=
  match js with
  | [] => None
  | j :: r => if Pos.eqb (j_id j) i then Some j else find_job r i
  end.
Fixpoint find_queue (qs : list queue) (i : id) : option queue :=
  match qs with
  | [] => None
  | q :: r => if Pos.eqb (q_id q) i then Some q else find_queue r i
  end.
Fixpoint find_dept (ds : list dept) (i : id) : option dept :=
  match ds with
  | [] => None
  | d :: r => if Pos.eqb (d_id d) i then Some d else find_dept r i
  end.

Definition queue_of (p : params) (i : id) : option id :=
  match find_job (p_jobs p) i with Some j => Some (j_queue j) | None => None end.
Definition dept_of (p : params) (i : id) : option id :=
  match queue_of p i with
  | Some q => match find_queue (p_queues p) q with Some qu => Some (q_dept qu) | None => None end
  | None => None
  end.
Definition oeqb (o : option id) (x : id) : bool :=
  match o with Some y => Pos.eqb y x | None => false end.

Definition mem (i : id) (s : state) : bool := existsb (Pos.eqb i) s.
Fixpoint remove1 (i : id) (s : state) : state :=
  match s with
  | [] => []
  | x :: r => if Pos.eqb i x then r else x :: remove1 i r
  end.

(** number of slot holders of a leaf queue / of a department, and the allocated share *)
Definition nq (p : params) (s : state) (q : id) : Z :=
  Z.of_nat (length (filter (fun i => oeqb (queue_of p i) q) s)).
Definition nd (p : params) (s : state) (d : id) : Z :=
  Z.of_nat (length (filter (fun i => oeqb (dept_of p i) d) s)).
Definition aq (p : params) (s : state) (q : id) : Z := p_sz p * nq p s q.
Definition ad (p : params) (s : state) (d : id) : Z := p_sz p * nd p s d.

(** * the saturation multiplier *)
(** proportion.New: a configured multiplier below 1 is replaced by 1.  The multiplier is the
    fraction mn / md with md > 0. *)
Definition clamp (m : Z * Z) : Z * Z :=
  if Z.ltb (fst m) (snd m) then (1, 1) else m.

(** * gates *)
(** strategies.FitsReclaimStrategy on the leveled pair: reclaimer side (allocated [ar],
    deserved [Dr]), reclaimee side (allocated [ae], fair share [Fe], deserved [De]) *)
Definition fits_strategy (sz ar Dr ae Fe De : Z) : bool :=
  (Z.max De Fe <? ae) || ((ar + sz <=? Dr) && (De <? ae)).

(** isFairShareSaturationLowerPerResource for the one resource; shares are >= 0 and sz > 0, so
    fairShareSaturationRatio(x, 0) = +Inf and +Inf * m >= anything for m > 0 *)
Definition saturation_ok (mn md sz ar Fr ae Fe : Z) : bool :=
  let x := ar + sz in
  let y := ae - sz in
  negb ((Fr <? x) && (0 <? Fe) &&
        (if Fr =? 0 then true else (y * Fr * md <=? x * mn * Fe))).

Definition bind_ok (p : params) (s : state) (j : id) : bool :=
  match find_job (p_jobs p) j with
  | Some _ => negb (mem j s) && (Z.of_nat (length s) <? p_slots p)
  | None => false
  end.

Definition reclaim_ok (m : Z * Z) (p : params) (s : state) (j v : id) : bool :=
  match find_job (p_jobs p) j, find_job (p_jobs p) v with
  | Some J, Some V =>
      match find_queue (p_queues p) (j_queue J), find_queue (p_queues p) (j_queue V) with
      | Some Q, Some Q' =>
          negb (mem j s) && mem v s && negb (Pos.eqb (q_id Q) (q_id Q'))
          && (aq p s (q_id Q) + p_sz p <=? q_fair Q)
          && (if Pos.eqb (q_dept Q) (q_dept Q')
              then fits_strategy (p_sz p) (aq p s (q_id Q)) (q_des Q)
                                 (aq p s (q_id Q')) (q_fair Q') (q_des Q')
              else match find_dept (p_depts p) (q_dept Q), find_dept (p_depts p) (q_dept Q') with
                   | Some P, Some P' =>
                       fits_strategy (p_sz p) (ad p s (d_id P)) (d_des P)
                                     (ad p s (d_id P')) (d_fair P') (d_des P')
                       && saturation_ok (fst m) (snd m) (p_sz p)
                                        (ad p s (d_id P)) (d_fair P) (ad p s (d_id P')) (d_fair P')
                   | _, _ => false
                   end)
      | _, _ => false
      end
  | _, _ => false
  end.

Definition preempt_ok (p : params) (s : state) (j v : id) : bool :=
  match find_job (p_jobs p) j, find_job (p_jobs p) v with
  | Some J, Some V =>
      negb (mem j s) && mem v s && Pos.eqb (j_queue J) (j_queue V) && (j_prio V <? j_prio J)
  | _, _ => false
  end.

(** one decision; [None] = the decision is not admissible in this state *)
Definition apply (m : Z * Z) (p : params) (s : state) (d : decision) : option state :=
  match d with
  | DBind j => if bind_ok p s j then Some (j :: s) else None
  | DReclaim j v => if reclaim_ok m p s j v then Some (j :: remove1 v s) else None
  | DPreempt j v => if preempt_ok p s j v then Some (j :: remove1 v s) else None
  end.

(** the decisions of one cycle (or of any stretch of a run), in the order they were taken *)
Fixpoint run (m : Z * Z) (p : params) (s : state) (ds : list decision) : option state :=
  match ds with
  | [] => Some s
  | d :: r => match apply m p s d with Some s' => run m p s' r | None => None end
  end.

Definition evicting_cycle (ds : list decision) : bool := existsb evicting ds.

(** the shape of a real cycle: allocate*, then eviction decisions; no job decides twice *)
Fixpoint binds_then_evictions (ds : list decision) : bool :=
  match ds with
  | [] => true
  | DBind _ :: r => binds_then_evictions r
  | _ :: r => forallb evicting r
  end.
Definition decider (d : decision) : id :=
  match d with DBind j => j | DReclaim j _ => j | DPreempt j _ => j end.
Fixpoint nodupb (l : list id) : bool :=
  match l with
  | [] => true
  | x :: r => negb (mem x r) && nodupb r
  end.
Definition cycle_shape (ds : list decision) : bool :=
  binds_then_evictions ds && nodupb (map decider ds).

(** * the rank *)
Definition pos0 (z : Z) : Z := Z.max 0 z.

Fixpoint sumf {A} (f : A -> Z) (l : list A) : Z :=
  match l with
  | [] => 0
  | x :: r => f x + sumf f r
  end.
Fixpoint prodf {A} (f : A -> Z) (l : list A) : Z :=
  match l with
  | [] => 1
  | x :: r => f x * prodf f r
  end.

Definition free (p : params) (s : state) : Z := p_slots p - Z.of_nat (length s).

(** overshoot above fair share, deficit below deserved quota *)
Definition over_d (p : params) (s : state) : Z :=
  sumf (fun P => pos0 (ad p s (d_id P) - d_fair P)) (p_depts p).
Definition defc_d (p : params) (s : state) : Z :=
  sumf (fun P => pos0 (d_des P - ad p s (d_id P))) (p_depts p).
(** sum over departments of allocated^2 / fairShare, scaled by the product of all fair shares *)
Definition weight (p : params) (P : dept) : Z :=
  prodf d_fair (filter (fun P' => negb (Pos.eqb (d_id P') (d_id P))) (p_depts p)).
Definition quad_d (p : params) (s : state) : Z :=
  sumf (fun P => ad p s (d_id P) * ad p s (d_id P) * weight p P) (p_depts p).
Definition over_q (p : params) (s : state) : Z :=
  sumf (fun Q => pos0 (aq p s (q_id Q) - q_fair Q)) (p_queues p).
Definition defc_q (p : params) (s : state) : Z :=
  sumf (fun Q => pos0 (q_des Q - aq p s (q_id Q))) (p_queues p).
(** priority mass missing from the slot holders *)
Definition pmax (p : params) : Z := fold_right (fun j acc => Z.max (j_prio j) acc) 0 (p_jobs p).
Definition pterm (p : params) (i : id) : Z :=
  match find_job (p_jobs p) i with Some j => pmax p - j_prio j | None => 0 end.
Definition negprio (p : params) (s : state) : Z := sumf (pterm p) s.

Definition rank (p : params) (s : state) : list Z :=
  [free p s; over_d p s; defc_d p s; quad_d p s; over_q p s; defc_q p s; negprio p s].

(** lexicographic order on lists of the same length with non-negative entries *)
Inductive lexlt : list Z -> list Z -> Prop :=
| lex_here a b l1 l2 : 0 <= a < b -> length l1 = length l2 -> lexlt (a :: l1) (b :: l2)
| lex_next a l1 l2 : lexlt l1 l2 -> lexlt (a :: l1) (a :: l2).

(** * hypotheses of the class *)
Definition dept_okb (p : params) (P : dept) : bool :=
  (0 <? d_fair P) && (0 <=? d_des P)
  && ((d_des P <=? d_fair P) || (p_sz p * p_slots p <=? d_des P)).
Definition queue_okb (Q : queue) : bool := (0 <=? q_fair Q) && (0 <=? q_des Q).
Definition wf_paramsb (p : params) : bool :=
  (0 <? p_sz p) && (0 <=? p_slots p)
  && nodupb (map d_id (p_depts p)) && nodupb (map q_id (p_queues p))
  && forallb (dept_okb p) (p_depts p)
  && forallb queue_okb (p_queues p).
Definition wf_multb (m : Z * Z) : bool := (0 <? snd m) && (snd m <=? fst m).   (* m >= 1 *)
Definition within_cap (p : params) (s : state) : Prop := Z.of_nat (length s) <= p_slots p.

(** * general closed systems (statement of C15 beyond the class) *)
(** any transition system with a notion of "this cycle committed an eviction" *)
Record closed_system := {
  cs_state : Type;
  cs_cycle : cs_state -> cs_state -> Prop;      (* one scheduling cycle *)
  cs_evicts : cs_state -> cs_state -> Prop;     (* ... that committed at least one eviction *)
}.
Definition is_run (S : closed_system) (r : nat -> cs_state S) : Prop :=
  forall c, cs_cycle S (r c) (r (Datatypes.S c)).
(** no lasso through an eviction: the system never returns to a state it visited before an
    evicting cycle *)
Definition no_lasso (S : closed_system) : Prop :=
  forall r, is_run S r ->
  forall i c k, (i <= c < k)%nat -> cs_evicts S (r c) (r (Datatypes.S c)) -> r i <> r k.
(** only finitely many evicting cycles on every run (stated without excluded middle) *)
Definition finitely_many_evictions (S : closed_system) : Prop :=
  forall r, is_run S r ->
  ~ (forall n, exists c, (n <= c)%nat /\ cs_evicts S (r c) (r (Datatypes.S c))).

(** * the general closed system (gangs, several resources, deep hierarchies) - statement only *)
(** Jobs are atomic units (a gang is evicted and placed as a whole: property C03) with a
    resource vector over cpu / memory / gpu; queues form a forest of any depth; the reclaim
    gate is the model of the proportion plugin validated by C07 ([Reclaim.can_reclaim],
    [Reclaim.reclaimable]: leveled queues at any depth, both strategies per resource, the
    saturation rule per involved resource, several victims, non-preemptible reclaimers), the
    queue's allocated shares being recomputed from the slot holders of the state.  Nodes
    are abstracted to total capacity per resource (no fragmentation, so consolidation is
    just an allocation), elastic jobs and min-runtime are not modelled, and - as in the
    class - an eviction decision lets the job it was made for hold the freed resources. *)
From KaiV Require Model.Reclaim Model.ReclaimSpec.
From Coq Require Import QArith.
Open Scope Z_scope.

Module General.
  Import Reclaim.

  Record gjob := mkGJob {
    gj_id : positive; gj_queue : qid; gj_prio : Z; gj_res : res; gj_preemptible : bool }.
  Record gparams := mkGParams {
    g_total : vec;                 (* cluster capacity *)
    g_queues : list queue;         (* deserved / fair / max per resource; the allocated fields are ignored *)
    g_jobs : list gjob }.
  Definition gstate := list positive.

  Definition vzero : vec := mkvec 0%Q 0%Q 0%Q.
  Fixpoint gfind (js : list gjob) (i : positive) : option gjob :=
    match js with
    | [] => None
    | j :: r => if Pos.eqb (gj_id j) i then Some j else gfind r i
    end.
  (** total request of the slot holders selected by [sel] *)
  Definition held (g : gparams) (s : gstate) (sel : gjob -> bool) : vec :=
    fold_right (fun j acc => if sel j && mem (gj_id j) s then vadd (quantify (gj_res j)) acc else acc)
               vzero (g_jobs g).
  Definition with_alloc (sh : rshare) (a anp : Q) : rshare :=
    {| s_deserved := s_deserved sh; s_fair := s_fair sh; s_max := s_max sh; s_alloc := a; s_allocnp := anp |}.
  (** the queue attributes the plugin would hold in state [s]: allocated = requests of the slot
      holders in the queue's subtree *)
  Definition queue_at (g : gparams) (s : gstate) (q : queue) : queue :=
    let below := fun j : gjob => ReclaimSpec.on_chain (g_queues g) (gj_queue j) (q_id q) in
    let a := held g s below in
    let anp := held g s (fun j => below j && negb (gj_preemptible j)) in
    {| q_id := q_id q; q_parent := q_parent q;
       q_cpu := with_alloc (q_cpu q) (v_cpu a) (v_cpu anp);
       q_mem := with_alloc (q_mem q) (v_mem a) (v_mem anp);
       q_gpu := with_alloc (q_gpu q) (v_gpu a) (v_gpu anp) |}.
  Definition queues_at (g : gparams) (s : gstate) : list queue := map (queue_at g s) (g_queues g).

  Inductive gdecision :=
  | GBind (j : positive)
  | GReclaim (j : positive) (vs : list positive)
  | GPreempt (j : positive) (vs : list positive).
  Definition gevicting (d : gdecision) : bool := match d with GBind _ => false | _ => true end.

  Fixpoint remove_all (vs : list positive) (s : gstate) : gstate :=
    match vs with [] => s | v :: r => remove_all r (remove1 v s) end.
  Definition fits (g : gparams) (s : gstate) (j : gjob) : bool :=
    less_equal (vadd (held g s (fun _ => true)) (quantify (gj_res j))) (g_total g).
  Fixpoint find_all (js : list gjob) (vs : list positive) : option (list gjob) :=
    match vs with
    | [] => Some []
    | v :: r => match gfind js v, find_all js r with
                | Some x, Some t => Some (x :: t)
                | _, _ => None
                end
    end.
  (** the reclaimee map of reclaimable.go: victims' resources grouped by leaf queue *)
  Fixpoint group (vs : list gjob) (acc : list (qid * list res)) : list (qid * list res) :=
    match vs with
    | [] => acc
    | v :: r => group r (aset acc (gj_queue v)
                              (match aget acc (gj_queue v) with Some l => l ++ [gj_res v] | None => [gj_res v] end))
    end.

  Definition gapply (m : Q) (g : gparams) (s : gstate) (d : gdecision) : option gstate :=
    match d with
    | GBind j =>
        match gfind (g_jobs g) j with
        | Some J => if negb (mem j s) && fits g s J then Some (j :: s) else None
        | None => None
        end
    | GReclaim j vs =>
        match gfind (g_jobs g) j, find_all (g_jobs g) vs with
        | Some J, Some Vs =>
            let s' := remove_all vs s in
            let rc := {| rc_queue := gj_queue J; rc_res := gj_res J; rc_preemptible := gj_preemptible J |} in
            if negb (mem j s) && nodupb vs && forallb (fun v => mem v s) vs
               && match vs with [] => false | _ => true end
               && forallb (fun V => gj_preemptible V && negb (Pos.eqb (gj_queue V) (gj_queue J))) Vs
               && match can_reclaim (queues_at g s) rc with Ok true => true | _ => false end
               && match reclaimable m (queues_at g s) rc (group Vs []) with Ok true => true | _ => false end
               && fits g s' J
            then Some (j :: s') else None
        | _, _ => None
        end
    | GPreempt j vs =>
        match gfind (g_jobs g) j, find_all (g_jobs g) vs with
        | Some J, Some Vs =>
            let s' := remove_all vs s in
            if negb (mem j s) && nodupb vs && forallb (fun v => mem v s) vs
               && match vs with [] => false | _ => true end
               && forallb (fun V => gj_preemptible V && Pos.eqb (gj_queue V) (gj_queue J)
                                    && (gj_prio V <? gj_prio J)) Vs
               && fits g s' J
            then Some (j :: s') else None
        | _, _ => None
        end
    end.
  Fixpoint grun (m : Q) (g : gparams) (s : gstate) (ds : list gdecision) : option gstate :=
    match ds with
    | [] => Some s
    | d :: r => match gapply m g s d with Some s' => grun m g s' r | None => None end
    end.

  Definition general_system (m : Q) (g : gparams) : closed_system := {|
    cs_state := gstate;
    cs_cycle := fun s s' => exists ds, grun m g s ds = Some s';
    cs_evicts := fun s s' => exists ds, grun m g s ds = Some s' /\ existsb gevicting ds = true;
  |}.

  (** shares are quantities (>= 0) or the sentinel -1 = unlimited; the queue forest is acyclic *)
  Definition share_okb (sh : rshare) : bool :=
    let ok := fun x => Qle_bool 0%Q x || is_unl x in
    ok (s_deserved sh) && ok (s_fair sh) && ok (s_max sh).
  Definition gwfb (g : gparams) : bool :=
    ReclaimSpec.acyclicb (g_queues g)
    && forallb (fun q => share_okb (q_cpu q) && share_okb (q_mem q) && share_okb (q_gpu q)) (g_queues g).
End General.

(** * the class WITHOUT the slot-keeping assumption *)
(** Same gates, but an eviction only frees the slot: the job it was made for is pending again
    at the next allocation, which may hand the slot to any pending job (what the closed-system
    harness does with TaskPipelined pods, and what the real allocate action re-decides with
    its own queue order). *)
Definition apply_redecide (m : Z * Z) (p : params) (s : state) (d : decision) : option state :=
  match d with
  | DBind j => if bind_ok p s j then Some (j :: s) else None
  | DReclaim j v => if reclaim_ok m p s j v then Some (remove1 v s) else None
  | DPreempt j v => if preempt_ok p s j v then Some (remove1 v s) else None
  end.
Fixpoint run_redecide (m : Z * Z) (p : params) (s : state) (ds : list decision) : option state :=
  match ds with
  | [] => Some s
  | d :: r => match apply_redecide m p s d with Some s' => run_redecide m p s' r | None => None end
  end.
Definition redecide_system (m : Z * Z) (p : params) : closed_system := {|
  cs_state := state;
  cs_cycle := fun s s' => within_cap p s /\ exists ds, cycle_shape ds = true /\ run_redecide m p s ds = Some s';
  cs_evicts := fun s s' => exists ds, cycle_shape ds = true /\ run_redecide m p s ds = Some s' /\ evicting_cycle ds = true;
|}.

(** * the job order: ONE function for the allocate action and for the solver's simulation *)
(** utils.JobsOrderByQueues is the structure both code sites pop their jobs from:
    - actions/allocate/allocate.go Execute: InitializeWithJobs(all pending jobs), then PopNextJob /
      attempt to allocate, until empty;
    - actions/common/action.go GetJobsToAllocate + TryToVirtuallyAllocatePreemptorAndGetVictims (the
      simulated allocation of EVERY reclaim / preempt / consolidation scenario, called from
      solvers/by_pod_solver.go tryScenarioWithEvictedVictims, in the session where the scenario's victims
      are evicted): InitializeWithJobs(all pending jobs + the preemptees' jobs + the preemptor), then
      PopNextJob; a popped job that is neither the preemptor nor a preemptee is SKIPPED (popped, not
      allocated); the scenario is accepted iff the preemptor was placed, and the preemptees that
      could not be placed again are the victims.
    [order_fn] is PopNextJob: given the current state (the queue shares are a function of it) and the
    jobs still in the structure, the job popped next ([None] = empty).  The order is dynamic: it is
    asked again after every allocation.  WHICH order it is (queue_order.go, the job order plugins,
    a department ranked through the first job of its best leaf queue) is NOT modelled (C16): the
    statements about it quantify over every [order_fn].  What IS modelled: both code sites use the
    SAME function, and WHICH JOBS they hand to it ([jobs_fn]).  In the closed system the pending jobs
    of the state in which the victim is evicted are exactly "all pending jobs + the preemptee + the
    preemptor": [all_pending] is GetJobsToAllocate as it is.  [scenario_queues_only] is the job set
    of seeded change C15-2 (only the pending jobs of the preemptor's and the victim's queues); it is
    here to state what goes wrong when the two code sites do not see the same order. *)
Definition order_fn := params -> state -> list id -> option id.
Definition jobs_fn := params -> state -> id -> id -> list id.

(** the pop order only yields jobs that are in the structure *)
Definition order_sound (o : order_fn) : Prop :=
  forall p s rest x, o p s rest = Some x -> In x rest.

Definition pending (p : params) (s : state) : list id :=
  filter (fun i => negb (mem i s)) (map j_id (p_jobs p)).

(** pop until empty; a popped job that [may] be allocated takes a free slot if there is one *)
Fixpoint pop_loop (fuel : nat) (o : order_fn) (may : id -> bool) (p : params) (s : state)
         (rest : list id) : state :=
  match fuel with
  | O => s
  | S f =>
      match o p s rest with
      | None => s
      | Some x => pop_loop f o may p (if may x && bind_ok p s x then x :: s else s) (remove1 x rest)
      end
  end.

(** allocate.Execute *)
Definition allocate (o : order_fn) (p : params) (s : state) : state :=
  let js := pending p s in pop_loop (length js) o (fun _ => true) p s js.

Definition all_pending : jobs_fn := fun p s _ _ => pending p s.
Definition same_queue (p : params) (x y : id) : bool :=
  match queue_of p x, queue_of p y with Some a, Some b => Pos.eqb a b | _, _ => false end.
Definition scenario_queues_only : jobs_fn :=
  fun p s j v => filter (fun x => same_queue p x j || same_queue p x v) (pending p s).

(** TryToVirtuallyAllocatePreemptorAndGetVictims on the state [s'] in which [v] is evicted *)
Definition simulate (o : order_fn) (js : jobs_fn) (p : params) (s' : state) (j v : id) : state :=
  let l := js p s' j v in pop_loop (length l) o (fun x => Pos.eqb x j || Pos.eqb x v) p s' l.

(** a reclaim decision as the solver takes it: the gate, AND the simulated allocation over the evicted
    state places the reclaimer and does not give the slot back to the victim.  The eviction only frees
    the slot (the nomination of [j] holds nothing in the next cycle): the result is [remove1 v s]. *)
Definition reclaim_sim (m : Z * Z) (o : order_fn) (js : jobs_fn) (p : params) (s : state) (j v : id)
  : option state :=
  if reclaim_ok m p s j v then
    let s' := remove1 v s in
    let sim := simulate o js p s' j v in
    if mem j sim && negb (mem v sim) then Some s' else None
  else None.

(** the closed system "allocate, then at most one simulated reclaim" with order [o]; the simulation is
    handed the jobs [js] *)
Definition ordered_system (m : Z * Z) (o : order_fn) (js : jobs_fn) (p : params) : closed_system := {|
  cs_state := state;
  cs_cycle := fun s s' => s' = allocate o p s \/ exists j v, reclaim_sim m o js p (allocate o p s) j v = Some s';
  cs_evicts := fun s s' => exists j v, reclaim_sim m o js p (allocate o p s) j v = Some s';
|}.

(** * SIZE CONSISTENCY: the size a pending job is COUNTED by vs the size it is CHARGED once it runs *)
(** The reclaim gate does not look at what a job will occupy; it looks at a figure computed for the PENDING job:
    podgroup_info.GetTasksToAllocateInitResource (api/podgroup_info/allocation_info.go), which
    proportion.buildReclaimerInfo puts in ReclaimerInfo.RequiredResources - read by
    reclaimable.CanReclaimResources (allocated + required <= fairShare), by GuaranteeDeservedQuotaStrategy
    (allocated + required <= deserved) and by the saturation rule (reclaimer's ratio = (allocated + required) /
    fairShare).  Once the job holds its slot the queue is charged something else: the pod's AcceptedResource
    (node_info.setAcceptedResources; proportion's allocate handler and updateQueuesCurrentResourceUsage), which is
    also what a victim gives back (getVictimResources).  For whole-GPU and gpu-fraction pods the two figures are the
    same function of the request; for a gpu-memory request on N devices the first is
    N * memory / minNodeGPUMemory (three lines of allocation_info.go), the second N * ceil(memory / deviceMemory).

    In [reclaim_ok] both figures are the one constant [p_sz]: the class has EQUAL sizes, and that the gate uses the
    size the job is charged is built in.  Here the hypothesis is made explicit: [gate_size g j] is the size by
    which the gate counts the pending job [j]; [charged_size p j] the size [j] is charged while it holds a slot (in
    the class: [p_sz p], every slot holder counts [p_sz p] in [aq] / [ad]).
      [size_consistent p g]    gate_size j = charged_size j                  (the code as it is, one device memory)
      [never_undercounted p g] charged_size j <= gate_size j                 (devices of different memories: the gate
                                                                              divides by the SMALLEST device memory)
    [reclaim_ok_sized] is [reclaim_ok] with every occurrence of the RECLAIMER's size replaced by [gate_size g j];
    the victim's size (what the eviction gives back) stays the charged one. *)
Definition sizing := id -> Z.
Definition gate_size (g : sizing) (j : id) : Z := g j.
Definition charged_size (p : params) (j : id) : Z := p_sz p.

Definition size_consistent (p : params) (g : sizing) : Prop :=
  forall j, In j (map j_id (p_jobs p)) -> gate_size g j = charged_size p j.
Definition never_undercounted (p : params) (g : sizing) : Prop :=
  forall j, In j (map j_id (p_jobs p)) -> charged_size p j <= gate_size g j.

(** isFairShareSaturationLowerPerResource with the reclaimer counted by [gz] and the victim giving back [cz] *)
Definition saturation_ok_sized (mn md gz cz ar Fr ae Fe : Z) : bool :=
  let x := ar + gz in
  let y := ae - cz in
  negb ((Fr <? x) && (0 <? Fe) &&
        (if Fr =? 0 then true else (y * Fr * md <=? x * mn * Fe))).

Definition reclaim_ok_sized (g : sizing) (m : Z * Z) (p : params) (s : state) (j v : id) : bool :=
  match find_job (p_jobs p) j, find_job (p_jobs p) v with
  | Some J, Some V =>
      match find_queue (p_queues p) (j_queue J), find_queue (p_queues p) (j_queue V) with
      | Some Q, Some Q' =>
          negb (mem j s) && mem v s && negb (Pos.eqb (q_id Q) (q_id Q'))
          && (aq p s (q_id Q) + gate_size g j <=? q_fair Q)
          && (if Pos.eqb (q_dept Q) (q_dept Q')
              then fits_strategy (gate_size g j) (aq p s (q_id Q)) (q_des Q)
                                 (aq p s (q_id Q')) (q_fair Q') (q_des Q')
              else match find_dept (p_depts p) (q_dept Q), find_dept (p_depts p) (q_dept Q') with
                   | Some P, Some P' =>
                       fits_strategy (gate_size g j) (ad p s (d_id P)) (d_des P)
                                     (ad p s (d_id P')) (d_fair P') (d_des P')
                       && saturation_ok_sized (fst m) (snd m) (gate_size g j) (charged_size p v)
                                              (ad p s (d_id P)) (d_fair P) (ad p s (d_id P')) (d_fair P')
                   | _, _ => false
                   end)
      | _, _ => false
      end
  | _, _ => false
  end.

(** decisions, runs and the solver's simulated reclaim with the gate counting by [g]; everything else - what a slot
    holder is charged, allocation, preemption, the effect of an eviction - as in the class *)
Definition apply_sized (g : sizing) (m : Z * Z) (p : params) (s : state) (d : decision) : option state :=
  match d with
  | DBind j => if bind_ok p s j then Some (j :: s) else None
  | DReclaim j v => if reclaim_ok_sized g m p s j v then Some (j :: remove1 v s) else None
  | DPreempt j v => if preempt_ok p s j v then Some (j :: remove1 v s) else None
  end.
Fixpoint run_sized (g : sizing) (m : Z * Z) (p : params) (s : state) (ds : list decision) : option state :=
  match ds with
  | [] => Some s
  | d :: r => match apply_sized g m p s d with Some s' => run_sized g m p s' r | None => None end
  end.
Definition sized_system (g : sizing) (m : Z * Z) (p : params) : closed_system := {|
  cs_state := state;
  cs_cycle := fun s s' => within_cap p s /\ exists ds, run_sized g m p s ds = Some s';
  cs_evicts := fun s s' => exists ds, run_sized g m p s ds = Some s' /\ evicting_cycle ds = true;
|}.
Definition reclaim_sim_sized (g : sizing) (m : Z * Z) (o : order_fn) (js : jobs_fn) (p : params) (s : state) (j v : id)
  : option state :=
  if reclaim_ok_sized g m p s j v then
    let s' := remove1 v s in
    let sim := simulate o js p s' j v in
    if mem j sim && negb (mem v sim) then Some s' else None
  else None.

(** seeded change C15-3: a request on [n] devices is counted as the request on one device *)
Definition undercounted_by (n : Z) (p : params) (g : sizing) : Prop :=
  1 < n /\ forall j, In j (map j_id (p_jobs p)) -> gate_size g j * n = charged_size p j.
