(** Model of the scheduler's what-if statements (property C13):
      pkg/scheduler/framework/statement.go
        Evict (with the repair 83a0ca3 + bce7109: a task that is already Releasing
        - the passed object, or the session's own object of that UID, sessionStatus
        - is left alone: no status change, no node update, no deallocate event, no
        operation recorded, IsVirtualStatus untouched, nil returned; the test comes
        after the job and node look-ups, as in the code; the model identifies pod
        objects by UID, so the passed object IS the session's own one;
        [evict_before_repair] is the function without that test), Pipeline (not-on-node / found-on-node+update / un-evict branch /
        move-to-different-GPU branch), Allocate, unevict, unpipeline (+ the
        RestoreTaskEntry repair of c93da65), unallocate, Unevict
        (undoEarliestValidOperation), ConvertAllAllocatedToPipelined, Checkpoint,
        Rollback, Discard, Commit (commitEvict: on API failure the eviction is
        reversed with the values recorded when the pod was evicted, repair
        5a5de9a - [commit_before_5a5de9a] is Commit as it was, un-evicting with
        what the pod object carried at commit time -, commitPipeline,
        commitAllocate with cleanupFailedAllocation + early return), undoOperation (appends an undo entry whose reverse re-does),
        operationValid
      pkg/scheduler/framework/operations.go (the four log entry kinds)
      pkg/scheduler/framework/session.go   BindPod, updatePodOnSession
      pkg/scheduler/api/podgroup_info/job_info.go
        UpdateTaskStatus = resetTaskState + AddTaskInfo (Allocated,
        PodStatusIndex sizes, activeAllocatedCount; deleteTaskIndex uses the
        status of the PASSED object, resetTaskState the status of the job's own
        object; AssignTask replaces the job's object by the passed one)
      pkg/scheduler/api/podgroup_info/subgroup_info/podset.go AssignTask / clearOldStatus
      pkg/scheduler/plugins/proportion/proportion.go allocate / deallocate
        handlers (Allocated, AllocatedNotPreemptible up the parent chain)
      node accounting: Model/Node.v (the node keeps its own copy of a pod).

    Pod objects are identified by UID: the job's current object for a UID is the
    record in [s_pods]; the clone kept by an allocate entry is explicit
    ([OAlloc clone ..]) and replaces the job's object where the code passes it
    (ConvertAllAllocatedToPipelined, cleanupFailedAllocation, BindPod).  A stale
    original left behind after such a replacement is not modelled (it is
    unreachable through the session).
    The caller's assignment [pod.GPUGroups = groups] that precedes
    Statement.Pipeline / Allocate for shared-GPU pods
    (gpu_sharing.AllocateFractionalGPUTaskToNode) is part of the command
    ([Some groups]).
    DRA ResourceClaimInfo and the dynamicresources plugin's handlers are in
    Model/SessionClaims.v (a separate machine over the same commands).
    Left out: eviction message / metadata, other
    plugins' event handlers, storage claims, pod affinity.  What
    NodeInfo.addTask -> setAcceptedResources makes of a pod on a node (device
    memory of a fraction, accepted GPU portion of a gpu-memory request: both
    depend on the node's GPU memory) is an input table per pod and node
    ([p_gtab], [p_qtab], computed by the harness with the real AddTask on a
    scratch node); [at_node] applies it where the code does, before the
    plugin handlers read AcceptedResource.  A queue parent chain is followed for at
    most |queues|+1 links (Go spins on a cycle; cyclic queues are dropped at
    snapshot time).  operationValid recursion out of fuel = Go stack overflow:
    the session becomes [s_stuck]. *)
From Coq Require Import List ZArith PArith Bool Arith.
From KaiV Require Import Model.Res Model.Status Model.AMap Model.Node.
Import ListNotations.
Open Scope Z_scope.

(** * State *)

Record pod := mkPod {
  p_task : task;              (* id, job, status, request, groups: what node accounting reads *)
  p_node : option positive;   (* NodeName *)
  p_virt : bool;              (* IsVirtualStatus *)
  p_pset : positive;
  p_jreq : res;               (* ResReq as added to PodGroupInfo.Allocated (gpu in milli-GPUs) *)
  p_qc : res;                 (* QuantifyResourceRequirements(AcceptedResource) as last set: cpu, mem, gpu in milli-GPUs *)
  p_gtab : amap Z;            (* node -> NodeInfo.GetResourceGpuMemory(ResReq) on that node *)
  p_qtab : amap res;          (* node -> what setAcceptedResources gives on that node, quantified *)
}.

Definition p_id (p : pod) := t_id (p_task p).
Definition p_status (p : pod) := t_status (p_task p).
Definition p_groups (p : pod) := t_groups (p_task p).

Definition task_with (t : task) (s : status) (gs : list positive) : task :=
  mkTask (t_id t) (t_job t) s (t_kind t) (t_req t) (t_ndev t) (t_gmem t) gs (t_resv t) (t_besteffort t).
Definition pod_with (p : pod) (s : status) (gs : list positive) (n : option positive) (v : bool) : pod :=
  mkPod (task_with (p_task p) s gs) n v (p_pset p) (p_jreq p) (p_qc p) (p_gtab p) (p_qtab p).
Definition set_st (p : pod) (s : status) := pod_with p s (p_groups p) (p_node p) (p_virt p).
Definition set_gs (p : pod) (gs : list positive) := pod_with p (p_status p) gs (p_node p) (p_virt p).
Definition set_nd (p : pod) (n : option positive) := pod_with p (p_status p) (p_groups p) n (p_virt p).
Definition set_vt (p : pod) (v : bool) := pod_with p (p_status p) (p_groups p) (p_node p) v.

(** NodeInfo.addTask -> setAcceptedResources(task): the caller's object gets the accepted resources
    for THIS node (a gpu-memory request is a different GPU portion on nodes with different GPU memory;
    a fraction is a different amount of device memory) *)
Definition set_gmem (t : task) (m : Z) : task :=
  mkTask (t_id t) (t_job t) (t_status t) (t_kind t) (t_req t) (t_ndev t) m (t_groups t) (t_resv t) (t_besteffort t).
Definition at_node_raw (p : pod) (nid : positive) : pod :=
  mkPod (set_gmem (p_task p) (match alookup nid (p_gtab p) with Some m => m | None => 0 end))
        (p_node p) (p_virt p) (p_pset p) (p_jreq p)
        (match alookup nid (p_qtab p) with Some q => q | None => rzero end) (p_gtab p) (p_qtab p).
Definition at_node (p : pod) (nid : positive) : pod :=
  if active_used (t_status (p_task p)) then at_node_raw p nid else p.

Definition scode (s : status) : positive :=
  match s with
  | Pending => 1 | Gated => 2 | Allocated => 3 | Pipelined => 4 | Binding => 5 | Bound => 6
  | Running => 7 | Releasing => 8 | Succeeded => 9 | Failed => 10 | Unknown => 11 | Deleted => 12
  end%positive.

Definition b2z (b : bool) : Z := if b then 1 else 0.

Record psetc := mkPsc { pc_aa : Z; pc_au : Z; pc_alive : Z; pc_idx : amap Z }.
Record job := mkJob {
  j_queue : positive; j_nonpreempt : bool;
  j_alloc : res; j_active : Z; j_idx : amap Z; j_psets : amap psetc }.
Record queue := mkQ { q_parent : option positive; q_alloc : res; q_np : res }.

Inductive op :=
| OEvict (p : positive) (prev : status) (node : positive) (prev_groups : list positive) (prev_virt : bool)
| OPipe (p : positive) (prev : status) (prev_node : option positive) (prev_groups : list positive)
        (prev_virt : bool) (next : positive) (moved : bool)
| OAlloc (clone : pod) (next : positive) (prev_virt : bool)
| OUndo (idx : nat).

Record sess := mkSess {
  s_nodes : amap node; s_pods : amap pod; s_jobs : amap job; s_queues : amap queue;
  s_log : list op; s_ncalls : nat; s_stuck : bool }.

Inductive api_call :=
| ABind (p n : positive) (gs : list positive)
| AEvict (p : positive)
| APipe (p : positive) (n : option positive) (gs : list positive).

Inductive cmd :=
| Evict (p : positive)
| Pipeline (p n : positive) (gs : option (list positive)) (upd : bool)
| Allocate (p n : positive) (gs : option (list positive))
| Unevict (p : positive)
| Checkpoint
| Rollback (cp : nat)
| Discard
| Commit
| Convert (j : positive).

(** * Maps: update of the first entry with key [k] (keys never change) *)
Fixpoint aupd {V} (k : positive) (f : V -> V) (m : amap V) : amap V :=
  match m with
  | [] => []
  | (k', v) :: r => if Pos.eqb k k' then (k', f v) :: r else (k', v) :: aupd k f r
  end.
Definition aput {V} (k : positive) (v : V) (m : amap V) : amap V := aupd k (fun _ => v) m.

Definition set_nodes (s : sess) x := mkSess x (s_pods s) (s_jobs s) (s_queues s) (s_log s) (s_ncalls s) (s_stuck s).
Definition set_podsm (s : sess) x := mkSess (s_nodes s) x (s_jobs s) (s_queues s) (s_log s) (s_ncalls s) (s_stuck s).
Definition set_jobs (s : sess) x := mkSess (s_nodes s) (s_pods s) x (s_queues s) (s_log s) (s_ncalls s) (s_stuck s).
Definition set_queues (s : sess) x := mkSess (s_nodes s) (s_pods s) (s_jobs s) x (s_log s) (s_ncalls s) (s_stuck s).
Definition set_log (s : sess) x := mkSess (s_nodes s) (s_pods s) (s_jobs s) (s_queues s) x (s_ncalls s) (s_stuck s).
Definition set_ncalls (s : sess) x := mkSess (s_nodes s) (s_pods s) (s_jobs s) (s_queues s) (s_log s) x (s_stuck s).
Definition set_stuck (s : sess) := mkSess (s_nodes s) (s_pods s) (s_jobs s) (s_queues s) (s_log s) (s_ncalls s) true.

Definition put_pod (s : sess) (p : pod) := set_podsm s (aput (p_id p) p (s_pods s)).
Definition put_node (s : sess) (nid : positive) (n : node) := set_nodes s (aput nid n (s_nodes s)).
Definition push (s : sess) (o : op) := set_log s (s_log s ++ [o]).

(** * Job bookkeeping *)

Definition idx_dec (passed : status) (idx : amap Z) (active : Z) : amap Z * Z :=
  if 0 <? zget (scode passed) idx
  then (zadd (scode passed) (-1) idx, active - b2z (active_allocated passed))
  else (idx, active).
Definition idx_inc (s : status) (idx : amap Z) (active : Z) : amap Z * Z :=
  (zadd (scode s) 1 idx, active + b2z (active_allocated s)).

(** PodSet.AssignTask: the pod set remembers the old status itself *)
Definition pset_assign (old new : status) (c : psetc) : psetc :=
  mkPsc (pc_aa c - b2z (active_allocated old) + b2z (active_allocated new))
        (pc_au c - b2z (active_used old) + b2z (active_used new))
        (pc_alive c - b2z (alive old) + b2z (alive new))
        (zadd (scode new) 1 (zadd (scode old) (-1) (pc_idx c))).

(** UpdateTaskStatus(obj, new) where [passed] is obj.Status and [cur] the
    status of the job's own object; [None] = the pod is not in the job. *)
Definition job_update (j : job) (pset : positive) (jreq : res) (passed cur new : status) : option job :=
  match alookup pset (j_psets j) with
  | None => None
  | Some _ =>
      let a1 := if allocated_status cur then rsub (j_alloc j) jreq else j_alloc j in
      let '(i1, c1) := idx_dec passed (j_idx j) (j_active j) in
      let '(i2, c2) := idx_inc new i1 c1 in
      let a2 := if allocated_status new then radd a1 jreq else a1 in
      Some (mkJob (j_queue j) (j_nonpreempt j) a2 c2 i2 (aupd pset (pset_assign cur new) (j_psets j)))
  end.

(** update the status of object [obj] (job's record replaced by it); result: new session, ok *)
Definition update_status (s : sess) (obj : pod) (new : status) : sess * bool :=
  let jid := t_job (p_task obj) in
  match alookup jid (s_jobs s), alookup (p_id obj) (s_pods s) with
  | Some j, Some cur =>
      match job_update j (p_pset cur) (p_jreq cur) (p_status obj) (p_status cur) new with
      | Some j' => (put_pod (set_jobs s (aput jid j' (s_jobs s))) (set_st obj new), true)
      | None => (s, false)
      end
  | _, _ => (s, false)
  end.

(** * Queue usage (proportion plugin handlers) *)
Fixpoint chain (fuel : nat) (qs : amap queue) (q : positive) : list positive :=
  match fuel with
  | O => []
  | S f => match alookup q qs with
           | None => []
           | Some qa => q :: match q_parent qa with Some pq => chain f qs pq | None => [] end
           end
  end.
Definition bump (np : bool) (d : res) (qa : queue) : queue :=
  mkQ (q_parent qa) (radd (q_alloc qa) d) (if np then radd (q_np qa) d else q_np qa).
Definition rneg (r : res) : res := rsub rzero r.
Definition charge_queues (s : sess) (p : pod) (sign : bool) : sess :=
  match alookup (t_job (p_task p)) (s_jobs s) with
  | None => s
  | Some j =>
      let d := if sign then p_qc p else rneg (p_qc p) in
      let c := chain (S (length (s_queues s))) (s_queues s) (j_queue j) in
      set_queues s (fold_left (fun qs q => aupd q (bump (j_nonpreempt j) d) qs) c (s_queues s))
  end.
Definition ev_alloc (s : sess) (p : pod) := charge_queues s p true.
Definition ev_dealloc (s : sess) (p : pod) := charge_queues s p false.

(** * The operation log *)
Fixpoint find_undo (L : list op) (i : nat) (pos : nat) : option nat :=
  match L with
  | [] => None
  | OUndo k :: r => if Nat.eqb k i then Some pos else find_undo r i (S pos)
  | _ :: r => find_undo r i (S pos)
  end.
Fixpoint valid_fuel (fuel : nat) (L : list op) (i : nat) : option bool :=
  match fuel with
  | O => None
  | S f => match find_undo L i 0 with
           | None => Some true
           | Some u => option_map negb (valid_fuel f L u)
           end
  end.
Definition op_valid (L : list op) (i : nat) : option bool := valid_fuel (S (length L)) L i.

Definition op_pod (o : op) : option positive :=
  match o with
  | OEvict p _ _ _ _ => Some p
  | OPipe p _ _ _ _ _ _ => Some p
  | OAlloc c _ _ => Some (p_id c)
  | OUndo _ => None
  end.

Definition get_pod (s : sess) (p : positive) := alookup p (s_pods s).

(** * Primitive operations.  Each returns the new session and [true] when the Go function returned nil. *)

(** Statement.Evict past the look-ups and the status test: [p] is the task, [n] its node *)
Definition evict_on (s : sess) (pid : positive) (p : pod) (nid : positive) (n : node) : sess * bool :=
  let '(s1, ok) := update_status s p Releasing in
  if negb ok then (s, false) else
  let p1 := at_node (set_st p Releasing) nid in
  match update_task n (p_task p1) with
  | Err => (s1, false)
  | Ok n' =>
      let s2 := ev_dealloc (put_node s1 nid n') p1 in
      let s3 := push s2 (OEvict pid (p_status p) nid (p_groups p) (p_virt p)) in
      (put_pod s3 (set_vt p1 true), true)
  end.

(** Statement.Evict: job not found / node not found are errors; a task that is already Releasing
    (evicted by an earlier operation of this or of an earlier statement, or terminating anyway) is
    not evicted again: nothing changes, nothing is recorded, nil is returned (83a0ca3, bce7109) *)
Definition evict (s : sess) (pid : positive) : sess * bool :=
  match get_pod s pid with
  | None => (s, false)
  | Some p =>
      match alookup (t_job (p_task p)) (s_jobs s), p_node p with
      | Some _, Some nid =>
          match alookup nid (s_nodes s) with
          | None => (s, false)
          | Some n => if status_eqb (p_status p) Releasing then (s, true) else evict_on s pid p nid n
          end
      | _, _ => (s, false)
      end
  end.

(** Statement.Evict as it was before 83a0ca3 / bce7109: no test of the task's status, a Releasing task is
    "evicted" again (second operation, second deallocate event, second Cache.Evict at Commit) *)
Definition evict_before_repair (s : sess) (pid : positive) : sess * bool :=
  match get_pod s pid with
  | None => (s, false)
  | Some p =>
      match alookup (t_job (p_task p)) (s_jobs s), p_node p with
      | Some _, Some nid =>
          match alookup nid (s_nodes s) with
          | None => (s, false)
          | Some n => evict_on s pid p nid n
          end
      | _, _ => (s, false)
      end
  end.

(** the status test of Evict read off the session: the pod is in the session and Releasing *)
Definition releasing_in (s : sess) (pid : positive) : bool :=
  match get_pod s pid with Some p => status_eqb (p_status p) Releasing | None => false end.

(** Statement.unevict (always returns nil) *)
Definition unevict (s : sess) (pid : positive) (prev : status) (nid : positive) (pg : list positive) (pv : bool) : sess :=
  match get_pod s pid with
  | None => s
  | Some p =>
      let '(s1, ok) := update_status s p prev in
      let p0 := pod_with (if ok then set_st p prev else p) (if ok then prev else p_status p) pg (p_node p) pv in
      match alookup nid (s_nodes s1) with
      | None => ev_alloc (put_pod s1 p0) p0
      | Some n =>
          let p1 := at_node p0 nid in
          let s2 := put_pod s1 p1 in
          let r := if amem pid (n_pods n) then update_task n (p_task p1) else add_task n (p_task p1) in
          ev_alloc (match r with Ok n' => put_node s2 nid n' | Err => s2 end) p1
      end
  end.

(** Statement.unpipeline; [moved]: NodeInfo.RestoreTaskEntry afterwards *)
Definition unpipeline (s : sess) (pid : positive) (prev : status) (pn : option positive) (pg : list positive)
           (pv : bool) (moved : bool) : sess * bool :=
  match get_pod s pid with
  | None => (s, false)
  | Some p =>
      let '(s1, ok) := update_status s p prev in
      let host := p_node p in
      let p1 := pod_with p (if ok then prev else p_status p) pg pn pv in
      let s2 := put_pod s1 p1 in
      match host with
      | None => (s2, false)
      | Some h =>
          match alookup h (s_nodes s2) with
          | None => (s2, false)
          | Some n =>
              let n1 := match remove_task n pid with Ok n' => n' | Err => n end in
              let n2 := if moved && negb (amem pid (n_pods n1)) then set_pods n1 (aset pid (p_task p1) (n_pods n1)) else n1 in
              (ev_dealloc (put_node s2 h n2) p1, true)
          end
      end
  end.

(** Statement.unallocate(obj, _, prevVirtual); the job's object becomes [obj] *)
Definition unallocate (s : sess) (obj : pod) (pv : bool) : sess * bool :=
  let '(s1, ok) := update_status s obj Pending in
  let o1 := if ok then set_st obj Pending else obj in
  match p_node obj with
  | None => (s1, false)
  | Some h =>
      match alookup h (s_nodes s1) with
      | None => (s1, false)
      | Some n =>
          let s2 := match remove_task n (p_id obj) with Ok n' => put_node s1 h n' | Err => s1 end in
          let o2 := set_vt (set_nd o1 None) pv in
          (ev_dealloc (put_pod s2 o2) o2, true)
      end
  end.

Definition list_pos_eqb (a b : list positive) : bool :=
  (fix go a b := match a, b with
                 | [], [] => true
                 | x :: r, y :: t => Pos.eqb x y && go r t
                 | _, _ => false
                 end) a b.

(** first valid evict entry of pod [pid] *)
Fixpoint first_valid_evict (L : list op) (all : list op) (pid : positive) (pos : nat) : option (option nat) :=
  match L with
  | [] => Some None
  | o :: r =>
      match op_valid all pos with
      | None => None
      | Some false => first_valid_evict r all pid (S pos)
      | Some true =>
          match o with
          | OEvict p _ _ _ _ => if Pos.eqb p pid then Some (Some pos) else first_valid_evict r all pid (S pos)
          | _ => first_valid_evict r all pid (S pos)
          end
      end
  end.

(** Statement.Allocate (after the caller's group assignment) *)
Definition allocate (s : sess) (pid nid : positive) (gs : option (list positive)) : sess * bool :=
  match get_pod s pid with
  | None => (s, false)
  | Some p0 =>
      let p := match gs with Some g => set_gs p0 g | None => p0 end in
      let s0 := put_pod s p in
      let '(s1, ok) := update_status s0 p Allocated in
      if negb ok then (s0, false) else
      let p1 := at_node (set_nd (set_st p Allocated) (Some nid)) nid in
      let s2 := put_pod s1 p1 in
      match alookup nid (s_nodes s2) with
      | None => (s2, false)
      | Some n =>
          match add_task n (p_task p1) with
          | Err => (s2, false)
          | Ok n' =>
              let s3 := ev_alloc (put_node s2 nid n') p1 in
              (put_pod (push s3 (OAlloc p1 nid (p_virt p1))) (set_vt p1 true), true)
          end
      end
  end.

(** Statement.Pipeline past the un-evict test; [n] is the target node, [on_node] its copy of the pod *)
Definition pipeline_body (s0 : sess) (p : pod) (nid : positive) (n : node) (on_node : option task) (move : bool)
  : sess * bool :=
  let '(s1, ok) := update_status s0 p Pipelined in
  let p1 := at_node (set_nd (if ok then set_st p Pipelined else p) (Some nid)) nid in
  let s2 := put_pod s1 p1 in
  let pg := match on_node with Some c => if move then t_groups c else p_groups p | None => p_groups p end in
  let r := if move then consolidate_to_different_gpu n (p_task p1)
           else match on_node with
                | Some _ => match update_task n (p_task p1) with Ok n' => Ok n' | Err => Ok n end
                | None => add_task n (p_task p1)
                end in
  match r with
  | Err => (s2, false)
  | Ok n' =>
      let s3 := ev_alloc (put_node s2 nid n') p1 in
      (put_pod (push s3 (OPipe (p_id p) (p_status p) (p_node p) pg (p_virt p) nid move)) (set_vt p1 true), true)
  end.

(** Pipeline may un-evict (undoOperation), and undoing an undo entry re-does
    (Evict / Pipeline / Allocate / undoOperation): one fuelled function.
    Redoing an allocate entry passes the job's current object (the code passes
    the entry's clone; unreachable for well-formed programs). *)
Inductive xreq :=
| QPipeline (pid nid : positive) (gs : option (list positive)) (upd : bool)
| QUndo (i : nat).

Fixpoint exec (fuel : nat) (s : sess) (q : xreq) : sess * bool :=
  match fuel with
  | O => (set_stuck s, false)
  | S f =>
      match q with
      | QUndo i =>
          (* undoOperation(i) *)
          match op_valid (s_log s) i with
          | None => (set_stuck s, false)
          | Some false => (s, true)
          | Some true =>
              match nth_error (s_log s) i with
              | None => (set_stuck s, false)   (* index out of range: Go panics *)
              | Some o =>
                  let '(s1, ok) :=
                    match o with
                    | OEvict p prev nid pg pv => (unevict s p prev nid pg pv, true)
                    | OPipe p prev pn pg pv _ moved => unpipeline s p prev pn pg pv moved
                    | OAlloc c _ pv =>
                        match get_pod s (p_id c) with
                        | Some cur => unallocate s cur pv
                        | None => (s, false)
                        end
                    | OUndo k =>
                        match nth_error (s_log s) k with
                        | Some (OEvict p _ _ _ _) => evict s p
                        | Some (OPipe p _ _ _ _ next _) => exec f s (QPipeline p next None true)
                        | Some (OAlloc c next _) => allocate s (p_id c) next None
                        | Some (OUndo k') => exec f s (QUndo k')
                        | None => (set_stuck s, false)
                        end
                    end in
                  if ok then (push s1 (OUndo i), true) else (s1, false)
              end
          end
      | QPipeline pid nid gs upd =>
          match get_pod s pid with
          | None => (s, false)
          | Some p0 =>
              let p := match gs with Some g => set_gs p0 g | None => p0 end in
              let s0 := put_pod s p in
              match alookup (t_job (p_task p)) (s_jobs s0), alookup nid (s_nodes s0) with
              | Some _, Some n =>
                  let on_node := alookup pid (n_pods n) in
                  let move := match on_node with
                              | Some c => negb (Nat.eqb (length (p_groups p)) 0) && is_shared (p_task p)
                                          && negb (list_pos_eqb (p_groups p) (t_groups c))
                              | None => false
                              end in
                  match on_node with
                  | Some c =>
                      if negb upd && negb move then
                        let s1 := put_pod s0 (set_gs p (t_groups c)) in
                        match first_valid_evict (s_log s1) (s_log s1) pid 0 with
                        | None => (set_stuck s1, false)
                        | Some None => (s1, false)
                        | Some (Some i) => exec f s1 (QUndo i)
                        end
                      else pipeline_body s0 p nid n on_node move
                  | None => pipeline_body s0 p nid n on_node move
                  end
              | _, _ => (s0, false)
              end
          end
      end
  end.

(** recursion depth: an undo entry refers to an earlier entry *)
Definition fuel_of (s : sess) : nat := 4 + length (s_log s).
Definition undo_operation (s : sess) (i : nat) : sess * bool := exec (fuel_of s) s (QUndo i).
Definition pipeline (s : sess) (pid nid : positive) (gs : option (list positive)) (upd : bool) : sess * bool :=
  exec (fuel_of s) s (QPipeline pid nid gs upd).

(** Statement.Unevict *)
Definition unevict_cmd (s : sess) (pid : positive) : sess * bool :=
  match first_valid_evict (s_log s) (s_log s) pid 0 with
  | None => (set_stuck s, false)
  | Some None => (s, false)
  | Some (Some i) => undo_operation s i
  end.

(** Rollback: undo entries len-1 .. cp (bounds fixed at the start), then truncate *)
Fixpoint undo_down (s : sess) (cp : nat) (k : nat) : sess * bool :=
  (* undoes indices cp+k-1, ..., cp *)
  match k with
  | O => (s, true)
  | S k' =>
      let '(s1, ok) := undo_operation s (cp + k')%nat in
      if ok then undo_down s1 cp k' else (s1, false)
  end.
Definition rollback (s : sess) (cp : nat) : sess * bool :=
  if Nat.ltb (length (s_log s)) cp then (s, false) else
  let '(s1, ok) := undo_down s cp (length (s_log s) - cp) in
  if ok then (set_log s1 (firstn cp (s_log s1)), true) else (s1, false).

(** Discard ignores errors and continues *)
Fixpoint discard_down (s : sess) (k : nat) : sess :=
  match k with
  | O => s
  | S k' => discard_down (fst (undo_operation s k')) k'
  end.
Definition discard (s : sess) : sess := set_log (discard_down s (length (s_log s))) [].

(** ConvertAllAllocatedToPipelined *)
Definition is_alloc_of (s : sess) (jid : positive) (o : op) : bool :=
  match o with OAlloc c _ _ => Pos.eqb (t_job (p_task c)) jid | _ => false end.
Fixpoint convert_loop (s : sess) (jid : positive) (ops : list op) : sess * bool :=
  match ops with
  | [] => (s, true)
  | OAlloc c _ _ :: r =>
      if Pos.eqb (t_job (p_task c)) jid then
        match p_node c with
        | None => (fst (unallocate s c true), false)
        | Some nn =>
            let '(s1, ok) := unallocate s c true in
            if negb ok then (s1, false) else
            let '(s2, ok2) := pipeline s1 (p_id c) nn None true in
            if ok2 then convert_loop s2 jid r else (s2, false)
        end
      else convert_loop s jid r
  | _ :: r => convert_loop s jid r
  end.
Definition convert (s : sess) (jid : positive) : sess * bool :=
  let '(s1, ok) := convert_loop s jid (s_log s) in
  if ok then (set_log s1 (filter (fun o => negb (is_alloc_of s1 jid o)) (s_log s1)), true) else (s1, false).

(** Commit *)
Definition next_call (fails : nat -> bool) (s : sess) : sess * bool :=
  (set_ncalls s (S (s_ncalls s)), fails (s_ncalls s)).

Definition ensure_groups (n : node) (gs : list positive) : node :=
  fold_left (fun acc g => if amem g (g_used acc) then acc
                          else set_groups acc (n_idle acc) (n_rel acc) (aset g 0 (g_used acc)) (g_alloc acc) (g_rel acc) (g_mark acc))
            gs n.

Fixpoint commit_loop (fails : nat -> bool) (s : sess) (all : list op) (ops : list op) (pos : nat)
  : sess * list api_call * bool (* false: stopped at a failed allocation *) :=
  match ops with
  | [] => (s, [], true)
  | o :: r =>
      match op_valid all pos with
      | None => (set_stuck s, [], false)
      | Some false => commit_loop fails s all r (S pos)
      | Some true =>
          match o with
          | OUndo _ => commit_loop fails s all r (S pos)
          | OEvict pid prev nid pg pv =>
              match get_pod s pid with
              | None => commit_loop fails s all r (S pos)
              | Some p =>
                  match alookup (t_job (p_task p)) (s_jobs s) with
                  | None => commit_loop fails s all r (S pos)
                  | Some _ =>
                      let '(s1, failed) := next_call fails s in
                      (* 5a5de9a: a refused eviction is reversed with what the operation recorded when the
                         pod was evicted (evictOp.Reverse()), not with the pod's status / GPU groups /
                         virtual flag at commit time *)
                      let s2 := if failed then unevict s1 pid prev nid pg pv
                                else put_pod s1 (set_vt p false) in
                      let '(s3, cs, ok) := commit_loop fails s2 all r (S pos) in
                      (s3, AEvict pid :: cs, ok)
                  end
              end
          | OPipe pid _ _ _ _ _ _ =>
              match get_pod s pid with
              | None => commit_loop fails s all r (S pos)
              | Some p =>
                  let '(s1, _) := next_call (fun _ => false) s in
                  let '(s3, cs, ok) := commit_loop fails s1 all r (S pos) in
                  (s3, APipe pid (p_node p) (p_groups p) :: cs, ok)
              end
          | OAlloc c _ _ =>
              match p_node c with
              | None => (s, [], false)
              | Some h =>
                  match alookup h (s_nodes s) with
                  | None => (s, [], false)
                  | Some n =>
                      let s0 := if is_shared (p_task c) then put_node s h (ensure_groups n (p_groups c)) else s in
                      let '(s1, failed) := next_call fails s0 in
                      if failed then (fst (unallocate s1 c false), [ABind (p_id c) h (p_groups c)], false)
                      else
                        let '(s2, ok) := update_status s1 c Binding in
                        if ok then
                          let '(s3, cs, ok3) := commit_loop fails s2 all r (S pos) in
                          (s3, ABind (p_id c) h (p_groups c) :: cs, ok3)
                        else (fst (unallocate s2 c false), [ABind (p_id c) h (p_groups c)], false)
                  end
              end
          end
      end
  end.
Definition commit (fails : nat -> bool) (s : sess) : sess * list api_call :=
  let '(s1, cs, _) := commit_loop fails s (s_log s) (s_log s) 0 in
  (set_log s1 [], cs).

(** Commit as it was before 5a5de9a: a refused Cache.Evict un-evicted the pod with the status, GPU groups and
    virtual flag the pod object carried AT COMMIT TIME - those of the eviction itself (Releasing, virtual), or
    of a later step of the statement that was rolled back (the GPU groups assigned for an abandoned
    nomination, Model/Session.v [unpipeline]): the pod stayed Releasing for the rest of the cycle and a shared
    pod could be put back on the node under the GPU groups of a nomination on ANOTHER node.  Only the
    eviction branch differs; used by the witness [C13_erasure_refused_eviction_before_repair] only. *)
Fixpoint commit_loop_before_5a5de9a (fails : nat -> bool) (s : sess) (all : list op) (ops : list op) (pos : nat)
  : sess * list api_call * bool :=
  match ops with
  | [] => (s, [], true)
  | o :: r =>
      match op_valid all pos with
      | None => (set_stuck s, [], false)
      | Some false => commit_loop_before_5a5de9a fails s all r (S pos)
      | Some true =>
          match o with
          | OUndo _ => commit_loop_before_5a5de9a fails s all r (S pos)
          | OEvict pid _ nid _ _ =>
              match get_pod s pid with
              | None => commit_loop_before_5a5de9a fails s all r (S pos)
              | Some p =>
                  match alookup (t_job (p_task p)) (s_jobs s) with
                  | None => commit_loop_before_5a5de9a fails s all r (S pos)
                  | Some _ =>
                      let '(s1, failed) := next_call fails s in
                      let s2 := if failed then unevict s1 pid (p_status p) nid (p_groups p) (p_virt p)
                                else put_pod s1 (set_vt p false) in
                      let '(s3, cs, ok) := commit_loop_before_5a5de9a fails s2 all r (S pos) in
                      (s3, AEvict pid :: cs, ok)
                  end
              end
          | OPipe pid _ _ _ _ _ _ =>
              match get_pod s pid with
              | None => commit_loop_before_5a5de9a fails s all r (S pos)
              | Some p =>
                  let '(s1, _) := next_call (fun _ => false) s in
                  let '(s3, cs, ok) := commit_loop_before_5a5de9a fails s1 all r (S pos) in
                  (s3, APipe pid (p_node p) (p_groups p) :: cs, ok)
              end
          | OAlloc c _ _ =>
              match p_node c with
              | None => (s, [], false)
              | Some h =>
                  match alookup h (s_nodes s) with
                  | None => (s, [], false)
                  | Some n =>
                      let s0 := if is_shared (p_task c) then put_node s h (ensure_groups n (p_groups c)) else s in
                      let '(s1, failed) := next_call fails s0 in
                      if failed then (fst (unallocate s1 c false), [ABind (p_id c) h (p_groups c)], false)
                      else
                        let '(s2, ok) := update_status s1 c Binding in
                        if ok then
                          let '(s3, cs, ok3) := commit_loop_before_5a5de9a fails s2 all r (S pos) in
                          (s3, ABind (p_id c) h (p_groups c) :: cs, ok3)
                        else (fst (unallocate s2 c false), [ABind (p_id c) h (p_groups c)], false)
                  end
              end
          end
      end
  end.
Definition commit_before_5a5de9a (fails : nat -> bool) (s : sess) : sess * list api_call :=
  let '(s1, cs, _) := commit_loop_before_5a5de9a fails s (s_log s) (s_log s) 0 in
  (set_log s1 [], cs).

(** * Commands *)
Definition step_full (fails : nat -> bool) (s : sess) (c : cmd) : sess * list api_call * bool :=
  if s_stuck s then (s, [], false) else
  match c with
  | Evict p => let '(s1, ok) := evict s p in (s1, [], ok)
  | Pipeline p n gs upd => let '(s1, ok) := pipeline s p n gs upd in (s1, [], ok)
  | Allocate p n gs => let '(s1, ok) := allocate s p n gs in (s1, [], ok)
  | Unevict p => let '(s1, ok) := unevict_cmd s p in (s1, [], ok)
  | Checkpoint => (s, [], true)
  | Rollback cp => let '(s1, ok) := rollback s cp in (s1, [], ok)
  | Discard => (discard s, [], true)
  | Commit => let '(s1, cs) := commit fails s in (s1, cs, true)
  | Convert j => let '(s1, ok) := convert s j in (s1, [], ok)
  end.
Definition step (fails : nat -> bool) (s : sess) (c : cmd) : sess * list api_call :=
  fst (step_full fails s c).
Definition run (fails : nat -> bool) (s : sess) (prog : list cmd) : sess :=
  fold_left (fun acc c => fst (step fails acc c)) prog s.

(** the commands with Statement.Evict as it was before the repair 83a0ca3 / bce7109 (only the Evict command
    differs; used by the [_before_repair] witness of Properties/C13.v) *)
Definition step_before_repair (fails : nat -> bool) (s : sess) (c : cmd) : sess * list api_call :=
  match c with
  | Evict p => if s_stuck s then (s, []) else (fst (evict_before_repair s p), [])
  | _ => step fails s c
  end.
Definition run_before_repair (fails : nat -> bool) (s : sess) (prog : list cmd) : sess :=
  fold_left (fun acc c => fst (step_before_repair fails acc c)) prog s.

(** the commands with Commit as it was before 5a5de9a (only the Commit command differs) *)
Definition step_before_5a5de9a (fails : nat -> bool) (s : sess) (c : cmd) : sess * list api_call :=
  match c with
  | Commit => if s_stuck s then (s, []) else commit_before_5a5de9a fails s
  | _ => step fails s c
  end.
Definition run_before_5a5de9a (fails : nat -> bool) (s : sess) (prog : list cmd) : sess :=
  fold_left (fun acc c => fst (step_before_5a5de9a fails acc c)) prog s.

(** * Projection: what another component or a later decision can read *)
Record pview := mkPV { v_status : status; v_node : option positive; v_groups : list positive; v_virt : bool }.
Record psview := mkPSV { sv_aa : Z; sv_au : Z; sv_alive : Z; sv_pending : Z; sv_gated : Z }.
Record jview := mkJV { jv_alloc : res; jv_active : Z; jv_idx : list Z; jv_psets : amap psview }.
Record dump := mkDump {
  d_nodes : amap node; d_pods : amap pview; d_jobs : amap jview; d_queues : amap (res * res) }.

Definition amapv {V W} (f : V -> W) (m : amap V) : amap W := map (fun kv => (fst kv, f (snd kv))) m.
Definition pod_view (p : pod) : pview := mkPV (p_status p) (p_node p) (p_groups p) (p_virt p).
Definition pset_view (c : psetc) : psview :=
  mkPSV (pc_aa c) (pc_au c) (pc_alive c) (zget (scode Pending) (pc_idx c)) (zget (scode Gated) (pc_idx c)).
Definition job_view (j : job) : jview :=
  mkJV (j_alloc j) (j_active j) (map (fun s => zget (scode s) (j_idx j)) all_statuses) (amapv pset_view (j_psets j)).
Definition project (s : sess) : dump :=
  mkDump (s_nodes s) (amapv pod_view (s_pods s)) (amapv job_view (s_jobs s))
         (amapv (fun q => (q_alloc q, q_np q)) (s_queues s)).

(** * Well-formed programs: the operations the actions issue.

    [wf_cmd] is evaluated on the state the command is applied to.  The status
    clauses are the documented preconditions (Allocate on Pending pods, Pipeline
    on Pending or virtually evicted pods, Unevict on a virtually evicted pod,
    rollback only to an outstanding checkpoint, ConvertAllAllocatedToPipelined
    only on a statement holding allocations and nominations and followed by
    Commit).
    Evict may be applied to ANY pod of the session that is Releasing - evicted
    earlier by this statement (once or several times, un-evicted in between or
    not), evicted by an earlier statement, or terminating in the snapshot: since
    83a0ca3 / bce7109 the code leaves such a pod alone - and to active allocated pods that
    this statement has not placed.  There is no clause "the pod has no valid evict
    entry yet" any more: that a pod which is not Releasing and has no placing entry
    has no valid evict entry is an invariant of well-formed statements
    (Proofs/Session.v [EI]), not a restriction on the program.
    "At most once" for placements stays a clause on the log: a pod is placed only
    when it has no placing entry, and not evicted after it was placed (the
    repair does not touch that: a Pipelined / Allocated pod is not Releasing).
    The remaining clauses say that the snapshot is consistent where the command
    reads it (the node's copy of the pod equals the job's pod, index buckets of
    the pod's status are populated, the node's pod map is sorted); the
    correspondence check evaluates [wf_prog] on every generated program whose
    generator only used the status clauses. *)
Definition res_eqb (a b : res) : bool := req a b.
Definition kind_eqb (a b : kind) : bool :=
  match a, b with
  | KRegular, KRegular | KFraction, KFraction | KMemory, KMemory | KMig, KMig => true
  | _, _ => false
  end.
Definition task_eqb (a b : task) : bool :=
  Pos.eqb (t_id a) (t_id b) && Pos.eqb (t_job a) (t_job b) && status_eqb (t_status a) (t_status b)
  && kind_eqb (t_kind a) (t_kind b) && res_eqb (t_req a) (t_req b) && (t_ndev a =? t_ndev b) && (t_gmem a =? t_gmem b)
  && list_pos_eqb (t_groups a) (t_groups b) && Bool.eqb (t_resv a) (t_resv b) && Bool.eqb (t_besteffort a) (t_besteffort b).

Fixpoint sortedb {V} (m : amap V) : bool :=
  match m with
  | [] => true
  | (k, _) :: r => match r with
                   | [] => true
                   | (k', _) :: _ => Pos.ltb k k' && sortedb r
                   end
  end.

Definition has_placing (L : list op) (pid : positive) : bool :=
  existsb (fun o => match o with
                    | OPipe p _ _ _ _ _ _ => Pos.eqb p pid
                    | OAlloc c _ _ => Pos.eqb (p_id c) pid
                    | _ => false
                    end) L.
Definition no_valid_evict (L : list op) (pid : positive) : bool :=
  match first_valid_evict L L pid 0 with Some None => true | _ => false end.

(** the pod's accepted resources are the ones of node [nid] *)
Definition fresh_on (p : pod) (nid : positive) : bool :=
  (t_gmem (p_task (at_node_raw p nid)) =? t_gmem (p_task p)) && req (p_qc (at_node_raw p nid)) (p_qc p).

(** the job's books have the pod where its status says *)
Definition indexed (s : sess) (p : pod) : bool :=
  match alookup (t_job (p_task p)) (s_jobs s) with
  | None => false
  | Some j => (0 <? zget (scode (p_status p)) (j_idx j)) && amem (p_pset p) (j_psets j)
              && forallb (fun st => 0 <=? zget (scode st) (j_idx j)) all_statuses
  end.

Definition shared_gs (p : pod) (gs : option (list positive)) : bool :=
  match gs with
  | Some g => is_shared (p_task p) && negb (Nat.eqb (length g) 0)
  | None => negb (is_shared (p_task p)) && Nat.eqb (length (p_groups p)) 0
  end.

(** state of the evicted pod [p] w.r.t. its first valid evict entry *)
Definition evicted_ok (s : sess) (p : pod) : bool :=
  status_eqb (p_status p) Releasing && p_virt p && indexed s p && negb (has_placing (s_log s) (p_id p)) &&
  match first_valid_evict (s_log s) (s_log s) (p_id p) 0 with
  | Some (Some i) =>
      match nth_error (s_log s) i with
      | Some (OEvict _ prev nid pg _) =>
          active_allocated prev
          && match p_node p with Some h => Pos.eqb h nid | None => false end
          && ((list_pos_eqb (p_groups p) pg && fresh_on p nid) || is_shared (p_task p))
          && match alookup nid (s_nodes s) with
             | Some n => sortedb (n_pods n)
                         && match alookup (p_id p) (n_pods n) with
                            | Some c => task_eqb c (task_with (p_task (at_node_raw p nid)) Releasing pg)
                            | None => false
                            end
             | None => false
             end
      | _ => false
      end
  | _ => false
  end.

Definition wf_cmd (tok : task -> bool) (stk : list nat) (conv : bool) (s : sess) (c : cmd) : bool :=
  match c with
  | Commit => true
  | _ =>
    negb conv &&
    match c with
    | Evict pid =>
        match get_pod s pid with
        | Some p =>
            (* already evicted or terminating: Evict leaves the pod alone *)
            status_eqb (p_status p) Releasing
            ||
            (Pos.eqb (p_id p) pid && tok (p_task p) && active_allocated (p_status p) && indexed s p
             && negb (has_placing (s_log s) pid)
             && match p_node p with
                | Some nid => match alookup nid (s_nodes s) with
                              | Some n => sortedb (n_pods n) && fresh_on p nid
                                          && match alookup pid (n_pods n) with
                                             | Some c => task_eqb c (p_task p)
                                             | None => false
                                             end
                              | None => false
                              end
                | None => false
                end)
        | None => false
        end
    | Pipeline pid nid gs upd =>
        match get_pod s pid, alookup nid (s_nodes s) with
        | Some p, Some n =>
            Pos.eqb (p_id p) pid && tok (p_task p) && shared_gs p gs && negb (has_placing (s_log s) pid)
            && (sortedb (n_pods n) && (is_shared (p_task p) || fresh_on p nid))
            && (if status_eqb (p_status p) Pending then
                  indexed s p && negb (amem pid (n_pods n))
                  && match p_node p with None => true | Some _ => false end
                else
                  evicted_ok s p && negb upd
                  && match alookup pid (n_pods n) with
                     | None => true
                     | Some _ => match p_node p with Some h => Pos.eqb h nid | None => false end
                     end)
        | _, _ => false
        end
    | Allocate pid nid gs =>
        match get_pod s pid, alookup nid (s_nodes s) with
        | Some p, Some n =>
            Pos.eqb (p_id p) pid && tok (p_task p) && shared_gs p gs && negb (has_placing (s_log s) pid)
            && (sortedb (n_pods n) && (is_shared (p_task p) || fresh_on p nid))
            && status_eqb (p_status p) Pending && indexed s p && negb (amem pid (n_pods n))
            && match p_node p with None => true | Some _ => false end
        | _, _ => false
        end
    | Unevict pid =>
        match get_pod s pid with
        | Some p => Pos.eqb (p_id p) pid && tok (p_task p) && evicted_ok s p
        | None => false
        end
    | Checkpoint | Discard => true
    | Rollback cp => existsb (Nat.eqb cp) stk
    | Convert j =>
        forallb (fun o => match o with OAlloc _ _ _ | OPipe _ _ _ _ _ _ _ => true | _ => false end) (s_log s)
    | _ => true
    end
  end.

(** bookkeeping of outstanding checkpoints along a run *)
Definition stk_after (stk : list nat) (s : sess) (c : cmd) : list nat :=
  match c with
  | Checkpoint => length (s_log s) :: stk
  | Rollback cp => filter (fun x => Nat.leb x cp) stk
  | Commit | Discard => []
  | _ => stk
  end.
Definition conv_after (conv : bool) (c : cmd) : bool :=
  match c with Convert _ => true | Commit | Discard => false | _ => conv end.

Fixpoint wf_from (tok : task -> bool) (fails : nat -> bool) (stk : list nat) (conv : bool) (s : sess) (prog : list cmd) : bool :=
  match prog with
  | [] => true
  | c :: r => wf_cmd tok stk conv s c
              && wf_from tok fails (stk_after stk s c) (conv_after conv c) (fst (step fails s c)) r
  end.
Definition wf_prog (fails : nat -> bool) (s : sess) (prog : list cmd) : bool :=
  wf_from (fun _ => true) fails [] false s prog.
