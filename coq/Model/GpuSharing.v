(** Model of the choice of GPU groups for a fractional / GPU-memory task on a
    node (pkg/scheduler/gpu_sharing/gpuSharing.go):
      GetNodePreferableGpuForSharing, findGpuForSharingOnNode
    and of the candidate list (framework.filterGpusByEnoughResources).
    The order of the candidates (GpuOrderFn plugins: gpupack / gpuspread /
    gpusharingorder) is an oracle: the list is given.  [None] stands for the
    whole-GPU indicator, [Some g] for an existing group.  Fresh group names are
    drawn from a supply. *)
From Coq Require Import List ZArith PArith Bool.
From KaiV Require Import Model.Res Model.Status Model.AMap Model.Node.
Import ListNotations.
Open Scope Z_scope.

(** returns the chosen groups (in order) and whether the placement must wait
    for releasing resources (pipeline); [None] = no placement on this node *)
Fixpoint prefer_go (n : node) (t : task) (pipeline_only : bool) (cands : list (option positive))
         (fresh : list positive) (nfresh : Z) (acc : list positive) (rel : bool) : option (list positive * bool) :=
  if Z.of_nat (List.length acc) =? t_ndev t then Some (acc, rel) else
  match cands with
  | [] => None
  | None :: r =>
      match fresh with
      | [] => None
      | f :: fr =>
          let is_rel := (if pipeline_only then true else negb (is_task_allocatable n t))
                        || (gpu (n_idle n) <? nfresh + 1) in
          prefer_go n t pipeline_only r fr (nfresh + 1) (acc ++ [f]) (rel || is_rel)
      end
  | Some g :: r =>
      let is_rel := negb (enough_idle_on_gpu n (t_gmem t) g) || negb (is_task_allocatable n t) in
      prefer_go n t pipeline_only r fresh nfresh (acc ++ [g]) (rel || is_rel)
  end.

(** GetNodePreferableGpuForSharing: the loop checks the count after each candidate *)
Definition prefer (n : node) (t : task) (pipeline_only : bool) (cands : list (option positive))
           (fresh : list positive) : option (list positive * bool) :=
  match cands with
  | [] => None
  | _ => if t_ndev t <=? 0 then None else prefer_go n t pipeline_only cands fresh 0 [] false
  end.

(** filterGpusByEnoughResources: which candidates exist (order is the oracle's) *)
Definition fitting_groups (n : node) (t : task) : list positive :=
  filter (fun g => fits_gpu_group n (t_gmem t) g) (akeys (g_used n)).
Definition whole_candidates (n : node) : Z :=
  if (0 <? gpu (n_idle n)) || (0 <? gpu (n_rel n)) then gpu (n_idle n) + gpu (n_rel n) else 0.

(** A decision to ALLOCATE (not pipeline) is safe for the devices when the groups
    are distinct, every group in use has idle room for the portion and every new
    group can take a device that is idle now. *)
Definition decision_safe (n : node) (t : task) (gs : list positive) : bool :=
  let oldg := filter (fun g => negb (zget g (g_used n) =? 0)) gs in
  let newg := filter (fun g => zget g (g_used n) =? 0) gs in
  forallb (enough_idle_on_gpu n (t_gmem t)) oldg
  && ((Z.of_nat (List.length newg) =? 0) || (Z.of_nat (List.length newg) <=? gpu (n_idle n))).
