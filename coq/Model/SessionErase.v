(** Erasure of abandoned what-if steps (property C13, metamorphic reading of "abandoned scenarios
    can neither influence later decisions nor reach the cluster").

    [erase fails s prog] is the program [prog] without the commands that a later Rollback or
    Discard of [prog] undoes, and without the Checkpoint / Rollback / Discard commands
    themselves.  Which commands a Rollback undoes is decided as Statement.Rollback decides it:
    the checkpoint is a number (the length of the operation log when Checkpoint was called), so
    the erasure follows the run of [prog] from session [s] under the oracle [fails] and keeps,
    per outstanding checkpoint, the program kept so far:
      Checkpoint    remembers (length of the log, commands kept so far);
      Rollback cp   goes back to the commands kept at the most recent outstanding checkpoint
                    of value [cp]; the checkpoints of a larger value are no longer outstanding
                    (as [stk_after] of Model/Session.v); a Rollback to a value that is not
                    outstanding is kept as it is (not a well-formed program);
      Discard       goes back to the commands kept when the statement began;
      Commit        is kept and begins a new statement;
      anything else is kept.
    The harness computes the same thing from the values the real Statement.Checkpoint returned
    (harness/internal/c13 [eraser]); Run/C13.v compares the two on every generated program.

    [commit_payload]: what a Commit hands to Cache.Bind for every allocate entry still valid in a
    log - the clone recorded by Statement.Allocate with the node, the GPU groups and the accepted
    resources ([p_qc], device memory) it had when it was recorded: Session.BindPod passes that
    object on, and the cache reads ReceivedGPU.Portion off its AcceptedResource.

    [at_node_memoised] .. [run_memoised]: the model with NodeInfo.setAcceptedResources returning
    early once a pod's accepted resources have been resolved ("compute once", the seeded change
    C13-2), for Statement.Allocate only - the other commands are the ones of Model/Session.v.
    Used by the witness [C13_erasure_violated_by_memoised_accepted_resource] only. *)
From Coq Require Import List ZArith PArith Bool Arith.
From KaiV Require Import Model.Res Model.Status Model.AMap Model.Node Model.Session.
Import ListNotations.
Open Scope Z_scope.

Fixpoint erase_go (fails : nat -> bool) (s : sess) (stk : list (nat * list cmd)) (base kept : list cmd)
         (prog : list cmd) : list cmd :=
  match prog with
  | [] => kept
  | c :: r =>
      let s' := fst (step fails s c) in
      match c with
      | Checkpoint => erase_go fails s' ((length (s_log s), kept) :: stk) base kept r
      | Rollback cp =>
          match find (fun x => Nat.eqb (fst x) cp) stk with
          | Some x => erase_go fails s' (filter (fun y => Nat.leb (fst y) cp) stk) base (snd x) r
          | None => erase_go fails s' stk base (kept ++ [c]) r
          end
      | Discard => erase_go fails s' [] base base r
      | Commit => erase_go fails s' [] (kept ++ [c]) (kept ++ [c]) r
      | _ => erase_go fails s' stk base (kept ++ [c]) r
      end
  end.
Definition erase (fails : nat -> bool) (s : sess) (prog : list cmd) : list cmd := erase_go fails s [] [] [] prog.

(** the calls of a whole program, one list per command (empty for everything but Commit) *)
Fixpoint run_calls (fails : nat -> bool) (s : sess) (prog : list cmd) : list (list api_call) :=
  match prog with
  | [] => []
  | c :: r => snd (step fails s c) :: run_calls fails (fst (step fails s c)) r
  end.
Definition commit_calls (fails : nat -> bool) (s : sess) (prog : list cmd) : list (list api_call) :=
  map snd (filter (fun x => match fst x with Commit => true | _ => false end) (combine prog (run_calls fails s prog))).

(** what Cache.Bind is handed for an allocate entry: pod, node, GPU groups, accepted resources as the
    queue is charged for them, memory per device *)
Definition bind_args (c : pod) : positive * option positive * list positive * res * Z :=
  (p_id c, p_node c, p_groups c, p_qc c, t_gmem (p_task c)).
Fixpoint payload_go (all ops : list op) (pos : nat) : list (positive * option positive * list positive * res * Z) :=
  match ops with
  | [] => []
  | o :: r =>
      match o, op_valid all pos with
      | OAlloc c _ _, Some true => bind_args c :: payload_go all r (S pos)
      | _, _ => payload_go all r (S pos)
      end
  end.
Definition commit_payload (L : list op) := payload_go L L 0.

(** * The variant with memoised accepted resources (seeded change C13-2), Statement.Allocate only *)
Definition resolved (p : pod) : bool := negb (req (p_qc p) rzero).
Definition at_node_memoised (p : pod) (nid : positive) : pod :=
  if active_used (t_status (p_task p)) then (if resolved p then p else at_node_raw p nid) else p.
Definition allocate_memoised (s : sess) (pid nid : positive) (gs : option (list positive)) : sess * bool :=
  match get_pod s pid with
  | None => (s, false)
  | Some p0 =>
      let p := match gs with Some g => set_gs p0 g | None => p0 end in
      let s0 := put_pod s p in
      let '(s1, ok) := update_status s0 p Allocated in
      if negb ok then (s0, false) else
      let p1 := at_node_memoised (set_nd (set_st p Allocated) (Some nid)) nid in
      let s2 := put_pod s1 p1 in
      match alookup nid (s_nodes s2) with
      | None => (s2, false)
      | Some n =>
          match add_task n (p_task p1) with
          | Err => (s2, false)
          | Ok n' =>
              let s3 := ev_alloc (put_node s2 nid n') p1 in
              (put_pod (push s3 (OAlloc p1 nid (p_virt p1))) (set_vt p1 true), true)
          end
      end
  end.
Definition step_memoised (fails : nat -> bool) (s : sess) (c : cmd) : sess * list api_call :=
  match c with
  | Allocate p n gs => if s_stuck s then (s, []) else (fst (allocate_memoised s p n gs), [])
  | _ => step fails s c
  end.
Definition run_memoised (fails : nat -> bool) (s : sess) (prog : list cmd) : sess :=
  fold_left (fun acc c => fst (step_memoised fails acc c)) prog s.
