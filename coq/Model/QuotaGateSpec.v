(** Declarative side of the capacity-gate clause of C16.

    The allocate action asks a gate before it tries to place a popped job
    (common.AllocateJob: Session.IsJobOverQueueCapacityFn). Priority order alone
    does not give C16: the job popped first must not be refused by a gate that the
    job popped later passes. What the gate may read is fixed here:

    - [gate_independent_of_priority G]: the verdict of [G] is a function of the
      queue state, the job's queue, what it asks for and its preemptibility -
      two jobs that agree on these get the same verdict, whatever their priority,
      age, UID or progress;
    - [gate_antitone G]: more usage in the queues never turns a refusal into an
      admission;
    - [C16_gated_stmt G]: the decision-level statement of C16 for an allocate loop
      whose attempt is "ask [G] on the current queue state, then try to place";
      the placement part [place] is the oracle of Model/JobOrderSpec.v. *)
From Coq Require Import List ZArith Bool.
From KaiV Require Import Model.JobOrder Model.JobOrderSpec Model.QuotaGate.
Import ListNotations.
Open Scope Z_scope.

Definition gate := qstate -> job -> res verdict.

(** identical workloads of one queue, as the property means it: same leaf queue,
    same pod template and gang shape (hence the same request), same preemptibility *)
Definition same_workload (a b : job) : Prop :=
  j_queue a = j_queue b /\ j_shape a = j_shape b /\ j_req a = j_req b /\ j_pre a = j_pre b.

Definition gate_independent_of_priority (G : gate) : Prop :=
  forall st a b, j_queue a = j_queue b -> j_req a = j_req b -> j_pre a = j_pre b -> G st a = G st b.

(** [st'] is [st] with more usage: same queues, parents, quotas and limits *)
Definition share_le (s s' : rshare) : Prop :=
  rs_deserved s = rs_deserved s' /\ rs_max_allowed s = rs_max_allowed s'
  /\ rs_allocated s <= rs_allocated s' /\ rs_allocated_np s <= rs_allocated_np s'.
Definition qattr_le (a a' : qattr) : Prop :=
  qa_id a = qa_id a' /\ qa_parent a = qa_parent a' /\ Forall2 share_le (qa_shares a) (qa_shares a').
Definition qstate_le (st st' : qstate) : Prop := Forall2 qattr_le st st'.

Definition gate_antitone (G : gate) : Prop :=
  forall st st' j, qstate_le st st' -> G st' j = Ok Schedulable -> G st j = Ok Schedulable.

(** attemptToAllocateJob = the gate on the queue state of the moment, then placement *)
Definition gated_attempt {C : Type} (G : gate) (qst : C -> qstate)
           (place : job -> C -> option (C * option job)) (j : job) (c : C) : option (C * option job) :=
  match G (qst c) j with
  | Ok Schedulable => place j c
  | _ => None
  end.

(** [C] is the state of the session during the action, [qst] its queue usage (it
    only grows while capacity shrinks), [place] the placement oracle: monotone in
    the remaining capacity for [a], equal on [a] and [b], pushing back the job it
    was given. [a] and [b] are identical workloads of one leaf queue and the
    comparator chain orders [a] first. *)
Definition C16_gated_stmt (G : gate) : Prop :=
  forall depth, -1 <= depth ->
  forall (qs : list qinfo) (qord : Z -> Z -> option job -> option job -> bool)
         (C : Type) (qst : C -> qstate) (place : job -> C -> option (C * option job)) (cle : C -> C -> Prop)
         (a b : job) (fuel : nat) (jobs : list job) (c0 : C) (out : list (job * bool)),
    (forall c, cle c c) ->
    (forall c1 c2 c3, cle c1 c2 -> cle c2 c3 -> cle c1 c3) ->
    (forall j c c' r, place j c = Some (c', r) -> cle c' c) ->
    (forall c c', cle c' c -> qstate_le (qst c) (qst c')) ->
    (forall c c', cle c' c -> fits place a c' = true -> fits place a c = true) ->
    (forall c, fits place a c = fits place b c) ->
    repush_same_job place ->
    same_workload a b ->
    job_less a b = true ->
    NoDup (map j_uid jobs) ->
    In a jobs -> In b jobs -> queue_ok qs (j_queue a) = true ->
    allocate qs qord depth (gated_attempt G qst place) fuel jobs c0 = Ok out ->
    In (b, true) out -> In (a, true) out.
