(** Closed-system model for property C15: WHERE the saturation multiplier sits (definitions only).

    reclaimable.isFairShareSaturationLowerPerResource refuses a reclaim when
        ratio(reclaimer) > 1  /\  fairShare(sibling) > 0  /\  ratio(reclaimer) * m >= ratio(sibling)
    with ratio = allocated-after / fairShare: the multiplier scales the RECLAIMER's ratio, so a larger m refuses more
    ("more conservative reclaim", docs/fairness/README.md) and proportion.New rejects m < 1.  [saturation_ok] of
    Model/ClosedSystem.v is that test (cross-multiplied).

    [saturation_ok_sibling] is the same test with the multiplier on the SIBLING's ratio (seeded change C15-4):
        ratio(reclaimer) >= ratio(sibling) * m
    Identical at m = 1; for m > 1 it is the documented test at 1/m - the range the plugin forbids.

    [reclaim_ok_with sat] is [reclaim_ok] of Model/ClosedSystem.v with the saturation test as a parameter
    ([reclaim_ok_with saturation_ok] IS [reclaim_ok], by computation); [apply_with] / [run_with] / [system_with] are the
    decision relation and the closed system of the class over that gate. *)
From Coq Require Import List ZArith Bool.
From KaiV Require Import Model.ClosedSystem.
Import ListNotations.
Open Scope Z_scope.

(** m <= m' for multipliers given as fractions with positive denominators *)
Definition mult_le (m m' : Z * Z) : Prop := fst m * snd m' <= fst m' * snd m.

Definition sat_test := Z -> Z -> Z -> Z -> Z -> Z -> Z -> bool.

(** the multiplier on the sibling's side; fairShareSaturationRatio(x, 0) = +Inf for x > 0, and +Inf >= anything *)
Definition saturation_ok_sibling : sat_test := fun mn md sz ar Fr ae Fe =>
  let x := ar + sz in
  let y := ae - sz in
  negb ((Fr <? x) && (0 <? Fe) &&
        (if Fr =? 0 then true else (y * mn * Fr <=? x * Fe * md))).

Definition reclaim_ok_with (sat : sat_test) (m : Z * Z) (p : params) (s : state) (j v : id) : bool :=
  match find_job (p_jobs p) j, find_job (p_jobs p) v with
  | Some J, Some V =>
      match find_queue (p_queues p) (j_queue J), find_queue (p_queues p) (j_queue V) with
      | Some Q, Some Q' =>
          negb (mem j s) && mem v s && negb (Pos.eqb (q_id Q) (q_id Q'))
          && (aq p s (q_id Q) + p_sz p <=? q_fair Q)
          && (if Pos.eqb (q_dept Q) (q_dept Q')
              then fits_strategy (p_sz p) (aq p s (q_id Q)) (q_des Q)
                                 (aq p s (q_id Q')) (q_fair Q') (q_des Q')
              else match find_dept (p_depts p) (q_dept Q), find_dept (p_depts p) (q_dept Q') with
                   | Some P, Some P' =>
                       fits_strategy (p_sz p) (ad p s (d_id P)) (d_des P)
                                     (ad p s (d_id P')) (d_fair P') (d_des P')
                       && sat (fst m) (snd m) (p_sz p)
                              (ad p s (d_id P)) (d_fair P) (ad p s (d_id P')) (d_fair P')
                   | _, _ => false
                   end)
      | _, _ => false
      end
  | _, _ => false
  end.

Definition apply_with (sat : sat_test) (m : Z * Z) (p : params) (s : state) (d : decision) : option state :=
  match d with
  | DBind j => if bind_ok p s j then Some (j :: s) else None
  | DReclaim j v => if reclaim_ok_with sat m p s j v then Some (j :: remove1 v s) else None
  | DPreempt j v => if preempt_ok p s j v then Some (j :: remove1 v s) else None
  end.
Fixpoint run_with (sat : sat_test) (m : Z * Z) (p : params) (s : state) (ds : list decision) : option state :=
  match ds with
  | [] => Some s
  | d :: r => match apply_with sat m p s d with Some s' => run_with sat m p s' r | None => None end
  end.
Definition system_with (sat : sat_test) (m : Z * Z) (p : params) : closed_system := {|
  cs_state := state;
  cs_cycle := fun s s' => within_cap p s /\ exists ds, run_with sat m p s ds = Some s';
  cs_evicts := fun s s' => exists ds, run_with sat m p s ds = Some s' /\ evicting_cycle ds = true;
|}.

(** the class with the multiplier on the sibling's side (seeded change C15-4) *)
Definition reclaim_ok_sibling := reclaim_ok_with saturation_ok_sibling.
Definition run_sibling := run_with saturation_ok_sibling.
Definition sibling_system := system_with saturation_ok_sibling.

(** a closed system over a fixed state type, from its two relations *)
Definition mk_cs (T : Type) (cyc ev : T -> T -> Prop) : closed_system :=
  {| cs_state := T; cs_cycle := cyc; cs_evicts := ev |}.

(** * the numbers of seeded/C15-4/README.md (GPUs): dept-a holds 2 of its fair share 3, dept-b 5 of its fair share 4;
    a-new-train (2 GPUs, dept-a) would take the 2 GPUs of b-small-train (dept-b): dept-a 4/3, dept-b 3/4 *)
Definition rm_sz : Z := 2.
Definition rm_ar : Z := 2.
Definition rm_Fr : Z := 3.
Definition rm_ae : Z := 5.
Definition rm_Fe : Z := 4.
