(** Pod statuses and their classes (pkg/scheduler/api/pod_status).  The class
    tables are re-generated from the running code into Gen/StatusTables.v and
    compared with these definitions by Proofs/StatusTables.v. *)
From Coq Require Import Bool.

Inductive status :=
  Pending | Gated | Allocated | Pipelined | Binding | Bound | Running | Releasing
| Succeeded | Failed | Unknown | Deleted.

Definition status_eqb (a b : status) : bool :=
  match a, b with
  | Pending, Pending | Gated, Gated | Allocated, Allocated | Pipelined, Pipelined
  | Binding, Binding | Bound, Bound | Running, Running | Releasing, Releasing
  | Succeeded, Succeeded | Failed, Failed | Unknown, Unknown | Deleted, Deleted => true
  | _, _ => false
  end.

Definition all_statuses : list status :=
  (Pending :: Gated :: Allocated :: Pipelined :: Binding :: Bound :: Running :: Releasing
   :: Succeeded :: Failed :: Unknown :: Deleted :: nil)%list.

Definition active_used (s : status) : bool :=
  match s with Allocated | Pipelined | Binding | Bound | Running | Releasing => true | _ => false end.
Definition active_allocated (s : status) : bool :=
  match s with Allocated | Pipelined | Binding | Bound | Running => true | _ => false end.
Definition alive (s : status) : bool :=
  match s with Allocated | Pipelined | Binding | Bound | Running | Pending | Gated => true | _ => false end.
Definition pod_bound (s : status) : bool :=
  match s with Allocated | Bound | Running | Releasing => true | _ => false end.
Definition allocated_status (s : status) : bool :=
  match s with Allocated | Bound | Binding | Running => true | _ => false end.
