(** Model of the DRA resource-claim bookkeeping under the what-if statements (property C13,
    "... leave the scheduler's view of nodes, workloads, GPU-sharing groups, RESOURCE CLAIMS and
    queue usage exactly as it was").

    Modelled Go code
      pkg/scheduler/plugins/dynamicresources/dynamicresources.go
        allocateHandlerFn / allocateResourceClaim (the pod is added to the claim's ReservedFor; the
          allocation is taken from the pod's own ResourceClaimInfo entry when that entry carries one
          - "recover previous allocation data" -, else from the claim when it is allocated, else the
          structured allocator is run on the pod's node; the claim is assumed in the DRA manager's
          cache; the pod's entry is REPLACED by a fresh one carrying the allocation; an allocator
          failure leaves everything as it was and the handler goes on with the next claim),
        deallocateHandlerFn / deallocateResourceClaim (the pod is removed from ReservedFor; the
          claim's allocation is dropped when no consumer is left; the pod's EXISTING entry is
          edited in place to the claim's allocation)
      pkg/scheduler/framework/statement.go, as far as claims are concerned
        Evict (saves previousResourceClaimInfo = ResourceClaimInfo.Clone(), a deep copy; no-op on a
          Releasing pod), unevict (pod.ResourceClaimInfo = previousResourceClaimInfo.Clone() since
          2da68db; before that repair the pod was handed the operation's saved map ITSELF, the
          [h_alias] variant of the heap store), Pipeline (un-evict branch / nomination; saves a deep
          copy), unpipeline (gives the pod a copy of the saved map, then the deallocate event),
          Allocate / unallocate (no claim information saved or restored), Unevict,
          undoOperation (+ re-doing an undone undo entry), operationValid, Checkpoint, Rollback,
          Discard, Commit (refused eviction: evictOp.Reverse(); refused Bind: unallocate and stop)
      pkg/scheduler/api/bindrequest_info  ResourceClaimInfo.Clone

    The statement machine is the one of Model/Session.v reduced to what decides the claim events:
    per pod its status, its NodeName and the nodes that hold a copy of it (which decides between
    the un-evict branch and a nomination in Statement.Pipeline); the operation log uses the entry
    type of Model/Session.v ([op], only the constructor, the pod and the undo index are read) with
    the saved claim information of every entry in a parallel list.  Node accounting, job books
    and queue usage are in Model/Session.v; no operation of a well-formed program fails there
    (NodeInfo.AddTask only refuses a pod that is already on the node), so this machine has no
    capacity failures.  Shared-GPU moves on the own node and ConvertAllAllocatedToPipelined are
    left out (the worlds with claims hold no fractional pods; Convert makes the session [c_stuck]).

    Go's pointer structure is what the property depends on, so the pods' ResourceClaimInfo maps
    live in a store given by five operations ([store_ops]); two stores:
      [VS]  values: every map is its own value (what the code does: every save AND, since 2da68db,
            every restore copies);
      [HS]  a heap of map objects and entry objects with addresses, with two switches:
            [h_shallow]  the save is maps.Clone (same entry objects) instead of a deep copy - NOT
                         the code (seeded regression C13-3), used by a witness only;
            [h_alias]    the restore hands the saved map object to the pod - the code as it was
                         before 2da68db, used by a witness only.
    [dealloc_clears] is a third switch on the handler: the deallocate handler clears the pod's entry
    instead of recording the claim's remaining allocation - NOT the code (a candidate repair of
    finding C13-stale-claim-record).

    ReservedFor is modelled as a set (sorted list of pod ids): the code appends and removes, the
    order is never read.  Every pod's ResourceClaimInfo has an entry for each of its claims
    (NewTaskInfo creates them; claims the constructor cannot find are outside the model).
    The structured allocator is an ORACLE: [orc n devs node claim] is the answer of the n-th run,
    given the devices allocated at that moment, the pod's node and the claim; the theorems quantify
    over it, Run/C13.v instantiates it with "the lowest free devices of the node" and compares. *)
From Coq Require Import List ZArith PArith Bool Arith.
From KaiV Require Import Model.Res Model.Status Model.AMap Model.Node Model.Session.
Import ListNotations.

Definition alloc := option (list positive).        (* the devices of an AllocationResult; None = nil *)
Definition rci := amap alloc.                       (* pod claim -> recorded allocation *)

(** * Stores of ResourceClaimInfo maps *)
Record store_ops (ST SV : Type) := mkOps {
  so_map : ST -> positive -> rci;                          (* the pod's map, read *)
  so_set : ST -> positive -> positive -> alloc -> ST;      (* pod.ResourceClaimInfo[c] = &fresh{a} *)
  so_mut : ST -> positive -> positive -> alloc -> ST;      (* pod.ResourceClaimInfo[c].Allocation = a *)
  so_save : ST -> positive -> ST * SV;                     (* previousResourceClaimInfo := ... *)
  so_restore : ST -> positive -> SV -> ST }.               (* pod.ResourceClaimInfo = previous... *)
Arguments so_map {ST SV}. Arguments so_set {ST SV}. Arguments so_mut {ST SV}.
Arguments so_save {ST SV}. Arguments so_restore {ST SV}.

(** ** values *)
Definition vstore := amap rci.
Definition v_map (st : vstore) (p : positive) : rci := match alookup p st with Some m => m | None => [] end.
Definition v_set (st : vstore) (p c : positive) (a : alloc) : vstore := aupd p (aput c a) st.
Definition VS : store_ops vstore rci :=
  mkOps vstore rci v_map v_set v_set (fun st p => (st, v_map st p)) (fun st p sv => aput p sv st).

(** ** heap *)
Record heap := mkHeap {
  h_ent : amap alloc;               (* entry objects *)
  h_maps : amap (amap positive);    (* map objects: claim -> entry address *)
  h_pod : amap positive;            (* pod -> address of its map *)
  h_next : positive }.
Definition h_deref (h : heap) (e : positive) : alloc := match alookup e (h_ent h) with Some a => a | None => None end.
Definition h_mapof (h : heap) (p : positive) : amap positive :=
  match alookup p (h_pod h) with
  | Some m => match alookup m (h_maps h) with Some mm => mm | None => [] end
  | None => []
  end.
Definition h_map (h : heap) (p : positive) : rci := map (fun ce => (fst ce, h_deref h (snd ce))) (h_mapof h p).
Definition h_new_ent (h : heap) (a : alloc) : heap * positive :=
  (mkHeap (aset (h_next h) a (h_ent h)) (h_maps h) (h_pod h) (Pos.succ (h_next h)), h_next h).
Definition h_set (h : heap) (p c : positive) (a : alloc) : heap :=
  match alookup p (h_pod h) with
  | None => h
  | Some m =>
      let '(h1, e) := h_new_ent h a in
      mkHeap (h_ent h1) (aupd m (aput c e) (h_maps h1)) (h_pod h1) (h_next h1)
  end.
Definition h_mut (h : heap) (p c : positive) (a : alloc) : heap :=
  match alookup c (h_mapof h p) with
  | None => h
  | Some e => mkHeap (aset e a (h_ent h)) (h_maps h) (h_pod h) (h_next h)
  end.
(** a new map object with the entries of [mm]: the same entry objects, or copies *)
Definition h_copy_map (shallow : bool) (h : heap) (mm : amap positive) : heap * positive :=
  let '(h1, mm1) :=
    fold_left (fun acc ce =>
                 let '(hh, out) := acc in
                 if shallow then (hh, out ++ [ce])
                 else let '(h2, e2) := h_new_ent hh (h_deref hh (snd ce)) in (h2, out ++ [(fst ce, e2)]))
              mm (h, []) in
  (mkHeap (h_ent h1) (aset (h_next h1) mm1 (h_maps h1)) (h_pod h1) (Pos.succ (h_next h1)), h_next h1).
Definition h_save (shallow : bool) (h : heap) (p : positive) : heap * positive := h_copy_map shallow h (h_mapof h p).
Definition h_restore (alias : bool) (h : heap) (p : positive) (m : positive) : heap :=
  if alias then mkHeap (h_ent h) (h_maps h) (aput p m (h_pod h)) (h_next h)
  else
    let '(h1, m1) := h_copy_map false h (match alookup m (h_maps h) with Some mm => mm | None => [] end) in
    mkHeap (h_ent h1) (h_maps h1) (aput p m1 (h_pod h1)) (h_next h1).
Definition HS (shallow alias : bool) : store_ops heap positive :=
  mkOps heap positive h_map h_set h_mut (h_save shallow) (h_restore alias).

(** the heap holding the given maps, one map object per pod, one entry object per entry *)
Definition h_init (st : vstore) : heap :=
  fold_left (fun h pm =>
               let '(h1, mm) := fold_left (fun acc ca => let '(hh, out) := acc in
                                                         let '(h2, e) := h_new_ent hh (snd ca) in (h2, out ++ [(fst ca, e)]))
                                          (snd pm) (h, []) in
               mkHeap (h_ent h1) (aset (h_next h1) mm (h_maps h1)) (h_pod h1 ++ [(fst pm, h_next h1)]) (Pos.succ (h_next h1)))
            st (mkHeap [] [] [] 1%positive).

(** the code as it is: since 2da68db Statement.unevict / unpipeline give the pod a Clone() of the operation's saved
    map (before: the saved map itself, [h_alias] = true - finding C13-undo-aliases-saved-resource-claims, fixed);
    the deallocate handler records the claim's remaining allocation in the pod's entry *)
Definition code_restore_alias : bool := false.
Definition code_dealloc_clears : bool := false.

(** * State *)
Record cpod := mkCP {
  cp_claims : list positive;       (* pod.Spec.ResourceClaims *)
  cp_stat : status;
  cp_node : option positive;       (* NodeName *)
  cp_on : list positive }.         (* nodes whose PodInfos hold the pod *)

Definition oracle := nat -> list positive -> option positive -> positive -> alloc.

Record cst (ST SV : Type) := mkCS {
  c_store : ST;
  c_pods : amap cpod;
  c_claims : amap (alloc * list positive);     (* the claim tracker: allocation, ReservedFor *)
  c_devs : list positive;                      (* the DRA manager's set of allocated devices: devices are added when a
                                                  claim goes from unallocated to allocated and taken out (those of the
                                                  old object) when it goes back; an update from one allocation to
                                                  another is ignored ("immutable"), k8s allocateddevices.go onUpdate *)
  c_log : list op;
  c_saved : list (option SV);                  (* per log entry: previousResourceClaimInfo *)
  c_ncalls : nat;                              (* Cache calls so far (failure oracle of Commit) *)
  c_nalloc : nat;                              (* allocator runs so far *)
  c_stuck : bool;
  c_stale : bool }.                            (* ghost (no effect on the run): the allocate handler has taken a claim's
                                                  allocation from a pod's record that was not the claim's present
                                                  allocation - another one than the claim has now, or, outside an
                                                  un-eviction, one for a claim that is unallocated now *)
Arguments mkCS {ST SV}. Arguments c_store {ST SV}. Arguments c_pods {ST SV}. Arguments c_claims {ST SV}. Arguments c_devs {ST SV}.
Arguments c_log {ST SV}. Arguments c_saved {ST SV}. Arguments c_ncalls {ST SV}. Arguments c_nalloc {ST SV}.
Arguments c_stuck {ST SV}. Arguments c_stale {ST SV}.

(** sets of pod ids as sorted lists *)
Fixpoint pins (p : positive) (l : list positive) : list positive :=
  match l with
  | [] => [p]
  | x :: r => match Pos.compare p x with Lt => p :: l | Eq => l | Gt => x :: pins p r end
  end.
Fixpoint prem (p : positive) (l : list positive) : list positive :=
  match l with
  | [] => []
  | x :: r => if Pos.eqb p x then r else x :: prem p r
  end.
Definition pmem (p : positive) (l : list positive) : bool := existsb (Pos.eqb p) l.

(** the dummy clone of an allocate entry (only its pod id is read) *)
Definition dummy_pod (p : positive) : pod :=
  mkPod (mkTask p 1%positive Pending KRegular rzero 0 0 [] false false) None false 1%positive rzero rzero [] [].

Section Machine.
  Context {ST SV : Type}.
  Variable SO : store_ops ST SV.
  Variable dealloc_clears : bool.
  Variable orc : oracle.
  Notation cs := (cst ST SV).

  Definition set_store (s : cs) x : cs := mkCS x (c_pods s) (c_claims s) (c_devs s) (c_log s) (c_saved s) (c_ncalls s) (c_nalloc s) (c_stuck s) (c_stale s).
  Definition set_cpods (s : cs) x : cs := mkCS (c_store s) x (c_claims s) (c_devs s) (c_log s) (c_saved s) (c_ncalls s) (c_nalloc s) (c_stuck s) (c_stale s).
  Definition set_claims (s : cs) x : cs := mkCS (c_store s) (c_pods s) x (c_devs s) (c_log s) (c_saved s) (c_ncalls s) (c_nalloc s) (c_stuck s) (c_stale s).
  Definition set_devs (s : cs) x : cs := mkCS (c_store s) (c_pods s) (c_claims s) x (c_log s) (c_saved s) (c_ncalls s) (c_nalloc s) (c_stuck s) (c_stale s).
  Definition set_clog (s : cs) l v : cs := mkCS (c_store s) (c_pods s) (c_claims s) (c_devs s) l v (c_ncalls s) (c_nalloc s) (c_stuck s) (c_stale s).
  Definition set_cncalls (s : cs) x : cs := mkCS (c_store s) (c_pods s) (c_claims s) (c_devs s) (c_log s) (c_saved s) x (c_nalloc s) (c_stuck s) (c_stale s).
  Definition set_nalloc (s : cs) x : cs := mkCS (c_store s) (c_pods s) (c_claims s) (c_devs s) (c_log s) (c_saved s) (c_ncalls s) x (c_stuck s) (c_stale s).
  Definition set_cstuck (s : cs) : cs := mkCS (c_store s) (c_pods s) (c_claims s) (c_devs s) (c_log s) (c_saved s) (c_ncalls s) (c_nalloc s) true (c_stale s).
  Definition set_stale (s : cs) : cs := mkCS (c_store s) (c_pods s) (c_claims s) (c_devs s) (c_log s) (c_saved s) (c_ncalls s) (c_nalloc s) (c_stuck s) true.
  Definition cpush (s : cs) (o : op) (sv : option SV) : cs := set_clog s (c_log s ++ [o]) (c_saved s ++ [sv]).

  Definition get_cpod (s : cs) (p : positive) : option cpod := alookup p (c_pods s).
  Definition upd_cpod (s : cs) (p : positive) (f : cpod -> cpod) : cs := set_cpods s (aupd p f (c_pods s)).
  Definition with_stat (st : status) (x : cpod) : cpod := mkCP (cp_claims x) st (cp_node x) (cp_on x).
  Definition with_node (n : option positive) (x : cpod) : cpod := mkCP (cp_claims x) (cp_stat x) n (cp_on x).
  Definition with_on (l : list positive) (x : cpod) : cpod := mkCP (cp_claims x) (cp_stat x) (cp_node x) l.

  (** AssumeClaimAfterAPICall: the tracker's object is replaced; the allocated-device set follows nil <-> non-nil *)
  Definition assume (s : cs) (c : positive) (old : alloc) (new : alloc * list positive) : cs :=
    let s1 := set_claims s (aput c new (c_claims s)) in
    match old, fst new with
    | None, Some ds => set_devs s1 (fold_left (fun acc d => pins d acc) ds (c_devs s1))
    | Some ds, None => set_devs s1 (fold_left (fun acc d => prem d acc) ds (c_devs s1))
    | _, _ => s1
    end.

  (** ** the plugin's handlers *)
  Definition devs_eqb (a b : list positive) : bool :=
    (fix go a b := match a, b with [] , [] => true | x :: r, y :: t => Pos.eqb x y && go r t | _, _ => false end) a b.
  Definition alloc_claim (restoring : bool) (p : positive) (nd : option positive) (s : cs) (c : positive) : cs :=
    match alookup c (c_claims s) with
    | None => s
    | Some (al, rf) =>
        let mem := match alookup c (so_map SO (c_store s) p) with Some (Some ds) => Some ds | _ => None end in
        let '(al1, s1) :=
          match mem with
          | Some ds => (Some ds, match al with
                                 | Some ds' => if devs_eqb ds ds' then s else set_stale s
                                 | None => if restoring then s else set_stale s
                                 end)
          | None => match al with
                    | Some ds => (Some ds, s)
                    | None => (orc (c_nalloc s) (c_devs s) nd c, set_nalloc s (S (c_nalloc s)))
                    end
          end in
        match al1 with
        | None => s1
        | Some ds => let s2 := assume s1 c al (Some ds, pins p rf) in set_store s2 (so_set SO (c_store s2) p c (Some ds))
        end
    end.
  Definition dealloc_claim (p : positive) (s : cs) (c : positive) : cs :=
    match alookup c (c_claims s) with
    | None => s
    | Some (al, rf) =>
        let rf' := prem p rf in
        let al' := match rf' with [] => None | _ => al end in
        let s1 := assume s c al (al', rf') in
        set_store s1 (so_mut SO (c_store s1) p c (if dealloc_clears then None else al'))
    end.
  Definition ev_calloc (restoring : bool) (s : cs) (p : positive) : cs :=
    match get_cpod s p with
    | None => s
    | Some x => fold_left (alloc_claim restoring p (cp_node x)) (cp_claims x) s
    end.
  Definition ev_cdealloc (s : cs) (p : positive) : cs :=
    match get_cpod s p with
    | None => s
    | Some x => fold_left (dealloc_claim p) (cp_claims x) s
    end.

  (** ** the statement's primitives *)
  Definition cevict_on (s : cs) (p : positive) (x : cpod) (nid : positive) : cs :=
    let '(st1, sv) := so_save SO (c_store s) p in
    let s1 := upd_cpod (set_store s st1) p (with_stat Releasing) in
    cpush (ev_cdealloc s1 p) (OEvict p (cp_stat x) nid [] false) (Some sv).

  Definition cevict (s : cs) (p : positive) : cs * bool :=
    match get_cpod s p with
    | None => (s, false)
    | Some x =>
        match cp_node x with
        | None => (s, false)
        | Some nid => if status_eqb (cp_stat x) Releasing then (s, true) else (cevict_on s p x nid, true)
        end
    end.

  Definition cunevict (s : cs) (p : positive) (prev : status) (nid : positive) (sv : SV) : cs :=
    match get_cpod s p with
    | None => s
    | Some x =>
        let s1 := upd_cpod s p (fun y => with_on (if pmem nid (cp_on y) then cp_on y else cp_on y ++ [nid]) (with_stat prev y)) in
        ev_calloc true (set_store s1 (so_restore SO (c_store s1) p sv)) p
    end.

  Definition cpipeline_body (s : cs) (p : positive) (x : cpod) (nid : positive) : cs :=
    let s1 := upd_cpod s p (fun y => with_node (Some nid) (with_stat Pipelined y)) in
    let '(st1, sv) := so_save SO (c_store s1) p in
    let s2 := upd_cpod (set_store s1 st1) p (fun y => with_on (if pmem nid (cp_on y) then cp_on y else cp_on y ++ [nid]) y) in
    cpush (ev_calloc false s2 p) (OPipe p (cp_stat x) (cp_node x) [] false nid false) (Some sv).

  Definition cunpipeline (s : cs) (p : positive) (prev : status) (pn : option positive) (sv : SV) : cs * bool :=
    match get_cpod s p with
    | None => (s, false)
    | Some x =>
        let s1 := upd_cpod s p (fun y => with_node pn (with_stat prev y)) in
        let s2 := set_store s1 (so_restore SO (c_store s1) p sv) in
        match cp_node x with
        | None => (s2, false)
        | Some h => (ev_cdealloc (upd_cpod s2 p (fun y => with_on (prem h (cp_on y)) y)) p, true)
        end
    end.

  Definition callocate (s : cs) (p nid : positive) : cs * bool :=
    match get_cpod s p with
    | None => (s, false)
    | Some x =>
        let s1 := upd_cpod s p (fun y => with_on (if pmem nid (cp_on y) then cp_on y else cp_on y ++ [nid])
                                                  (with_node (Some nid) (with_stat Allocated y))) in
        (cpush (ev_calloc false s1 p) (OAlloc (dummy_pod p) nid false) None, true)
    end.

  Definition cunallocate (s : cs) (p : positive) : cs * bool :=
    match get_cpod s p with
    | None => (s, false)
    | Some x =>
        match cp_node x with
        | None => (upd_cpod s p (with_stat Pending), false)
        | Some h =>
            let s1 := upd_cpod s p (fun y => with_on (prem h (cp_on y)) (with_node None (with_stat Pending y))) in
            (ev_cdealloc s1 p, true)
        end
    end.

  (** undoOperation / Pipeline, as Model/Session.v [exec] *)
  Fixpoint cexec (fuel : nat) (s : cs) (q : xreq) : cs * bool :=
    match fuel with
    | O => (set_cstuck s, false)
    | S f =>
        match q with
        | QUndo i =>
            match op_valid (c_log s) i with
            | None => (set_cstuck s, false)
            | Some false => (s, true)
            | Some true =>
                match nth_error (c_log s) i with
                | None => (set_cstuck s, false)
                | Some o =>
                    let '(s1, ok) :=
                      match o with
                      | OEvict p prev nid _ _ =>
                          match nth_error (c_saved s) i with
                          | Some (Some sv) => (cunevict s p prev nid sv, true)
                          | _ => (set_cstuck s, false)
                          end
                      | OPipe p prev pn _ _ _ _ =>
                          match nth_error (c_saved s) i with
                          | Some (Some sv) => cunpipeline s p prev pn sv
                          | _ => (set_cstuck s, false)
                          end
                      | OAlloc c _ _ => cunallocate s (p_id c)
                      | OUndo k =>
                          match nth_error (c_log s) k with
                          | Some (OEvict p _ _ _ _) => cevict s p
                          | Some (OPipe p _ _ _ _ next _) => cexec f s (QPipeline p next None true)
                          | Some (OAlloc c next _) => callocate s (p_id c) next
                          | Some (OUndo k') => cexec f s (QUndo k')
                          | None => (set_cstuck s, false)
                          end
                      end in
                    if ok then (cpush s1 (OUndo i) None, true) else (s1, false)
                end
            end
        | QPipeline p nid _ upd =>
            match get_cpod s p with
            | None => (s, false)
            | Some x =>
                if pmem nid (cp_on x) && negb upd then
                  match first_valid_evict (c_log s) (c_log s) p 0 with
                  | None => (set_cstuck s, false)
                  | Some None => (s, false)
                  | Some (Some i) => cexec f s (QUndo i)
                  end
                else (cpipeline_body s p x nid, true)
            end
        end
    end.

  Definition cfuel_of (s : cs) : nat := 4 + length (c_log s).
  Definition cundo_operation (s : cs) (i : nat) : cs * bool := cexec (cfuel_of s) s (QUndo i).
  Definition cpipeline (s : cs) (p nid : positive) (upd : bool) : cs * bool := cexec (cfuel_of s) s (QPipeline p nid None upd).
  Definition cunevict_cmd (s : cs) (p : positive) : cs * bool :=
    match first_valid_evict (c_log s) (c_log s) p 0 with
    | None => (set_cstuck s, false)
    | Some None => (s, false)
    | Some (Some i) => cundo_operation s i
    end.

  Fixpoint cundo_down (s : cs) (cp : nat) (k : nat) : cs * bool :=
    match k with
    | O => (s, true)
    | S k' => let '(s1, ok) := cundo_operation s (cp + k')%nat in
              if ok then cundo_down s1 cp k' else (s1, false)
    end.
  Definition crollback (s : cs) (cp : nat) : cs * bool :=
    if Nat.ltb (length (c_log s)) cp then (s, false) else
    let '(s1, ok) := cundo_down s cp (length (c_log s) - cp) in
    if ok then (set_clog s1 (firstn cp (c_log s1)) (firstn cp (c_saved s1)), true) else (s1, false).
  Fixpoint cdiscard_down (s : cs) (k : nat) : cs :=
    match k with
    | O => s
    | S k' => cdiscard_down (fst (cundo_operation s k')) k'
    end.
  Definition cdiscard (s : cs) : cs := set_clog (cdiscard_down s (length (c_log s))) [] [].

  (** Commit: a refused eviction is reversed with what the entry recorded; a refused Bind un-allocates
      the pod and ends the commit *)
  Fixpoint ccommit_loop (fails : nat -> bool) (s : cs) (all : list op) (ops : list op) (pos : nat) : cs :=
    match ops with
    | [] => s
    | o :: r =>
        match op_valid all pos with
        | None => set_cstuck s
        | Some false => ccommit_loop fails s all r (S pos)
        | Some true =>
            match o with
            | OUndo _ => ccommit_loop fails s all r (S pos)
            | OEvict p prev nid _ _ =>
                match get_cpod s p with
                | None => ccommit_loop fails s all r (S pos)
                | Some _ =>
                    let failed := fails (c_ncalls s) in
                    let s1 := set_cncalls s (S (c_ncalls s)) in
                    let s2 := if failed then match nth_error (c_saved s1) pos with
                                             | Some (Some sv) => cunevict s1 p prev nid sv
                                             | _ => set_cstuck s1
                                             end
                              else s1 in
                    ccommit_loop fails s2 all r (S pos)
                end
            | OPipe p _ _ _ _ _ _ =>
                match get_cpod s p with
                | None => ccommit_loop fails s all r (S pos)
                | Some _ => ccommit_loop fails (set_cncalls s (S (c_ncalls s))) all r (S pos)
                end
            | OAlloc c _ _ =>
                let failed := fails (c_ncalls s) in
                let s1 := set_cncalls s (S (c_ncalls s)) in
                if failed then fst (cunallocate s1 (p_id c))
                else ccommit_loop fails (upd_cpod s1 (p_id c) (with_stat Binding)) all r (S pos)
            end
        end
    end.
  Definition ccommit (fails : nat -> bool) (s : cs) : cs :=
    set_clog (ccommit_loop fails s (c_log s) (c_log s) 0) [] [].

  Definition cstep_full (fails : nat -> bool) (s : cs) (c : cmd) : cs * bool :=
    if c_stuck s then (s, false) else
    match c with
    | Evict p => cevict s p
    | Pipeline p n _ upd => cpipeline s p n upd
    | Allocate p n _ => callocate s p n
    | Unevict p => cunevict_cmd s p
    | Checkpoint => (s, true)
    | Rollback cp => crollback s cp
    | Discard => (cdiscard s, true)
    | Commit => (ccommit fails s, true)
    | Convert _ => (set_cstuck s, false)
    end.
  Definition cstep (fails : nat -> bool) (s : cs) (c : cmd) : cs := fst (cstep_full fails s c).
  Definition crun (fails : nat -> bool) (s : cs) (prog : list cmd) : cs := fold_left (cstep fails) prog s.

  (** * What is compared: every pod's ResourceClaimInfo and the tracker's view of every claim *)
  Definition cview (s : cs) : amap rci * amap (alloc * list positive) :=
    (flat_map (fun kv => match cp_claims (snd kv) with
                         | [] => []
                         | _ => [(fst kv, so_map SO (c_store s) (fst kv))]
                         end) (c_pods s),
     c_claims s).
End Machine.

(** * Well-formed programs and coherent states (store of values, the handlers as they are)

    [coherent]: every claim's ReservedFor is a strictly sorted list and is empty exactly when the claim
    is unallocated; every pod of the session has a ResourceClaimInfo map with an entry for each of its
    claims, a pod in a claim's ReservedFor references the claim and has recorded its allocation.
    [cwf_cmd]: the status preconditions of Model/Session.v [wf_cmd] read off this machine's own pod
    table - Evict on any Releasing pod (ignored) or on an active allocated pod that the statement has
    not placed and that holds all its claims; Pipeline / Allocate on a Pending pod that sits nowhere,
    or (Pipeline, Unevict) on a pod evicted by this statement; Rollback to an outstanding checkpoint -
    plus [mem_ok] for a placement and for an un-eviction: what the pod has recorded / the operation has
    saved for a claim is nothing, or the claim's present allocation, or the claim is unallocated now
    (the allocate handler takes that record whatever the tracker says: one that differs from the
    claim's present allocation overrides it - finding C13-stale-claim-record). *)
Notation vst := (cst vstore rci).

Definition holds (s : vst) (p c : positive) : bool :=
  match alookup c (c_claims s) with Some (_, rf) => pmem p rf | None => false end.
Definition alloc_eqb (a b : alloc) : bool :=
  match a, b with
  | None, None => true
  | Some x, Some y => list_pos_eqb x y
  | _, _ => false
  end.
Definition entry_of (s : vst) (p c : positive) : option alloc := alookup c (v_map (c_store s) p).
Definition claim_alloc (s : vst) (c : positive) : alloc :=
  match alookup c (c_claims s) with Some (a, _) => a | None => None end.

Fixpoint ssorted (l : list positive) : bool :=
  match l with
  | [] => true
  | x :: r => match r with [] => true | y :: _ => Pos.ltb x y && ssorted r end
  end.
Fixpoint nodupb (l : list positive) : bool :=
  match l with [] => true | x :: r => negb (pmem x r) && nodupb r end.
Definition is_none {A} (o : option A) : bool := match o with None => true | Some _ => false end.
Definition is_nil {A} (l : list A) : bool := match l with [] => true | _ => false end.

Definition claim_ok (v : alloc * list positive) : bool := ssorted (snd v) && Bool.eqb (is_none (fst v)) (is_nil (snd v)).
Definition pod_coherent (s : vst) (p : positive) (x : cpod) : bool :=
  nodupb (cp_claims x)
  && forallb (fun c =>
                match alookup c (c_claims s), entry_of s p c with
                | Some (al, rf), Some e => negb (pmem p rf) || alloc_eqb e al
                | _, _ => false
                end) (cp_claims x).
Definition coherent (s : vst) : bool :=
  forallb (fun kv => claim_ok (snd kv)
                     (* a pod of the session in the ReservedFor of a claim references that claim *)
                     && forallb (fun q => match alookup q (c_pods s) with
                                          | Some x => pmem (fst kv) (cp_claims x)
                                          | None => true
                                          end) (snd (snd kv))) (c_claims s)
  && forallb (fun kv => pod_coherent s (fst kv) (snd kv) && amem (fst kv) (c_store s)) (c_pods s).

Definition rec_ok (s : vst) (c : positive) (e : option alloc) : bool :=
  match e with
  | Some None => true
  | Some (Some ds) => match claim_alloc s c with None => true | al => alloc_eqb (Some ds) al end
  | None => false
  end.
Definition mem_ok (s : vst) (p : positive) (x : cpod) : bool :=
  forallb (fun c => rec_ok s c (entry_of s p c)) (cp_claims x).

Definition holds_all (s : vst) (p : positive) (x : cpod) : bool := forallb (fun c => holds s p c) (cp_claims x).
Definition holds_none (s : vst) (p : positive) (x : cpod) : bool := forallb (fun c => negb (holds s p c)) (cp_claims x).

(** the pod was evicted by this statement: its first valid evict entry, with what it saved *)
Definition evicted_here (s : vst) (p : positive) (x : cpod) : bool :=
  status_eqb (cp_stat x) Releasing && negb (has_placing (c_log s) p) && holds_none s p x
  && match first_valid_evict (c_log s) (c_log s) p 0 with
     | Some (Some i) =>
         match nth_error (c_log s) i, nth_error (c_saved s) i with
         | Some (OEvict q prev nid _ _), Some (Some sv) =>
             Pos.eqb q p && active_allocated prev
             && match cp_node x with Some h => Pos.eqb h nid | None => false end
             && pmem nid (cp_on x)
             (* the allocation recorded at eviction time is the claim's present one, or the claim is unallocated *)
             && forallb (fun c => rec_ok s c (alookup c sv) && negb (is_none (match alookup c sv with Some e => e | None => None end)))
                        (cp_claims x)
         | _, _ => false
         end
     | _ => false
     end.

Definition pending_ok (s : vst) (p : positive) (x : cpod) : bool :=
  status_eqb (cp_stat x) Pending && is_nil (cp_on x) && is_none (cp_node x)
  && negb (has_placing (c_log s) p) && holds_none s p x && mem_ok s p x.

Definition cwf_cmd (stk : list nat) (s : vst) (c : cmd) : bool :=
  match c with
  | Evict p =>
      match alookup p (c_pods s) with
      | Some x => status_eqb (cp_stat x) Releasing
                  || (active_allocated (cp_stat x) && negb (has_placing (c_log s) p) && holds_all s p x
                      && match cp_node x with Some n => pmem n (cp_on x) | None => false end)
      | None => false
      end
  | Pipeline p n _ upd =>
      match alookup p (c_pods s) with
      | Some x => pending_ok s p x
                  || (evicted_here s p x && negb upd && (pmem n (cp_on x) || mem_ok s p x))
      | None => false
      end
  | Allocate p n _ => match alookup p (c_pods s) with Some x => pending_ok s p x | None => false end
  | Unevict p => match alookup p (c_pods s) with Some x => evicted_here s p x | None => false end
  | Checkpoint | Discard => true
  | Rollback cp => existsb (Nat.eqb cp) stk
  | Commit | Convert _ => false
  end.

Definition cstk_after (stk : list nat) (s : vst) (c : cmd) : list nat :=
  match c with
  | Checkpoint => length (c_log s) :: stk
  | Rollback cp => filter (fun x => Nat.leb x cp) stk
  | Commit | Discard => []
  | _ => stk
  end.

(** open statements (no Commit, no Convert) that are well-formed along the run of the machine of values *)
Fixpoint cwf_from (orc : oracle) (fails : nat -> bool) (stk : list nat) (s : vst) (prog : list cmd) : bool :=
  match prog with
  | [] => true
  | c :: r => cwf_cmd stk s c && cwf_from orc fails (cstk_after stk s c) (cstep VS false orc fails s c) r
  end.

(** the state the machine of values was in when checkpoint [cp] was taken (the states recorded at the outstanding
    checkpoints, most recent first) *)
Definition csnaps_after (sn : list (nat * vst)) (s : vst) (c : cmd) : list (nat * vst) :=
  match c with
  | Checkpoint => (length (c_log s), s) :: sn
  | Rollback cp => filter (fun x => Nat.leb (fst x) cp) sn
  | Commit | Discard => []
  | _ => sn
  end.
Fixpoint crun_sn (orc : oracle) (fails : nat -> bool) (s : vst) (sn : list (nat * vst)) (prog : list cmd) : vst * list (nat * vst) :=
  match prog with
  | [] => (s, sn)
  | c :: r => crun_sn orc fails (cstep VS false orc fails s c) (csnaps_after sn s c) r
  end.
Definition cstate_at (orc : oracle) (fails : nat -> bool) (s : vst) (prog : list cmd) (cp : nat) : option vst :=
  match find (fun y => Nat.eqb (fst y) cp) (snd (crun_sn orc fails s [] prog)) with
  | Some (_, x) => Some x
  | None => None
  end.

(** the scheduler's view of the claims is the same in [x] and [y]: every pod's status, NodeName and the nodes that
    hold a copy of it; the tracker's record of every claim (allocated devices, ReservedFor); what every pod that is in
    a claim's ReservedFor has recorded for it.  (What a pod that does NOT hold a claim - pending, or evicted in the
    simulation - has recorded for it is not part of the relation: see [C13_claims_stale_record_after_abandoned_placement].) *)
Definition claims_same (x y : vst) : Prop :=
  (forall p, alookup p (c_pods x) = alookup p (c_pods y))
  /\ (forall c, alookup c (c_claims x) = alookup c (c_claims y))
  /\ (forall p c, holds x p c = true -> entry_of x p c = entry_of y p c).

(** the allocator of the generated worlds with one device per claim: the lowest free device of the pod's node *)
Definition lowest_free (devnode : amap positive) : oracle := fun _ used nd _ =>
  match nd with
  | None => None
  | Some n => match filter (fun d => negb (pmem d used)) (map fst (filter (fun dn => Pos.eqb (snd dn) n) devnode)) with
              | d :: _ => Some [d]
              | [] => None
              end
  end.
