(** Model of the two status controllers (property C20).

    Pod-group controller (pkg/podgroupcontroller/controllers):
    - pod_group_controller.go  (PodGroupReconciler).Reconcile
    - status_updater.go        handlePodGroupStatus, calculatePodGroupMetadata,
                               addPodMetadata, updateStatusIfNecessary
    - metadata/pod.go          GetPodMetadata, isActivePod, isAllocatedPod,
                               isPodScheduled
    - metadata/pod_group.go    AddPodMetadata
    - resources/resources.go   SumResources
    - patcher/pod_group.go     getStatusWithMetadata, ShouldUpdatePodGroupStatus,
                               UpdatePodGroupStatus
    - utilities/pod-group/preemptible.go IsPreemptible, getPodGroupPriority;
      pkg/common/podgroup CalculatePreemptibility
    Queue controller (pkg/queuecontroller/controllers):
    - queue_controller.go      (QueueReconciler).Reconcile
    - resource_updater/resource_updater.go UpdateQueue, sumChildQueueResources,
                               sumPodGroupsResources
    - childqueues_updater/childqueues_updater.go UpdateQueue

    A v1.ResourceList is a vector of integers in milli-units over a fixed
    list of resource names chosen by the harness (absent key = 0, trailing
    zeros trimmed).  What one pod contributes when it is counted (container
    requests + GPU-sharing annotations + DRA claims: calculateRequestedResources /
    calculatedAllocatedResources, resources/fraction.go, requested.go,
    received.go, common/resources.ExtractDRAGPUResources) is a given value per
    pod ([p_req], [p_alloc]) together with a flag saying that the extraction
    returns an error; the theorems quantify over all such values.

    Left out: reflect.DeepEqual on resource.Quantity internals in
    ShouldUpdatePodGroupStatus (it decides whether a patch call is issued; the
    model records whether the stored status changes), the unconditional
    Status().Patch of the queue controller when nothing changed (empty patch),
    Prometheus metrics, NotFound handling of a deleted pod group / queue
    (reconcile of an unknown name is a no-op), API errors.

    WHEN THE QUEUE CONTROLLER WRITES.  QueueReconciler.Reconcile sends the
    merge patch of the recomputed status unconditionally; the stored object
    therefore changes iff the recomputed status differs from the stored one in
    ANY of its four fields (allocated, allocatedNonPreemptible, requested,
    childQueues).  [q_reconcile] / [q_writes] model exactly that.  The set of
    fields a change detection in front of the patch would have to compare is
    made explicit by [qfields] / [q_reconcile_with]: [cmp_all] is the current
    behaviour (Proofs: [q_reconcile_with cmp_all = q_reconcile]); the variant
    [cmp_without_anp] (compares childQueues, allocated, requested but not
    allocatedNonPreemptible) is kept only to state what goes wrong with it.

    Last section: pods, pod groups and queues on ONE store ([world]) and
    histories of changes and reconciles of both controllers ([wevent],
    [w_run]). *)
From Coq Require Import List ZArith PArith Bool.
Import ListNotations.
Open Scope Z_scope.

(** * Resource vectors (v1.ResourceList) and SumResources *)

Definition vec := list Z.

Fixpoint vadd (a b : vec) : vec :=
  match a, b with
  | [], _ => b
  | _, [] => a
  | x :: a', y :: b' => (x + y) :: vadd a' b'
  end.

Fixpoint vec_eqb (a b : vec) : bool :=
  match a, b with
  | [], [] => true
  | x :: a', y :: b' => (x =? y) && vec_eqb a' b'
  | _, _ => false
  end.

(** * Pods (metadata/pod.go) *)

Inductive phase := Pending | Running | Succeeded | Failed | Unknown.

Record pod := {
  p_phase : phase;
  (* status.conditions projected to (type = PodScheduled, status = True) *)
  p_conds : list (bool * bool);
  p_req : vec;        (* calculateRequestedResources, when it succeeds *)
  p_req_err : bool;   (* calculateRequestedResources returns an error *)
  p_alloc : vec;      (* calculatedAllocatedResources, when it succeeds *)
  p_alloc_err : bool; (* calculatedAllocatedResources returns an error *)
}.

Definition is_active (p : pod) : bool :=
  match p_phase p with Pending | Running => true | _ => false end.

Fixpoint pod_scheduled (cs : list (bool * bool)) : bool :=
  match cs with
  | [] => false
  | (is_sched, st) :: r => if is_sched then st else pod_scheduled r
  end.

Definition is_allocated (p : pod) : bool :=
  match p_phase p with
  | Pending => pod_scheduled (p_conds p)
  | Running => true
  | _ => false
  end.

(** GetPodMetadata: (requested, allocated) or an error. *)
Definition pod_metadata (p : pod) : option (vec * vec) :=
  if is_active p && p_req_err p then None
  else if is_allocated p && p_alloc_err p then None
  else Some (if is_active p then p_req p else [],
             if is_allocated p then p_alloc p else []).

(** * Preemptibility (IsPreemptible) *)

Inductive pspec := SpecPreemptible | SpecNonPreemptible | SpecUnset.

Record prioclass := { pc_name : positive; pc_value : Z; pc_default : bool }.

Definition default_podgroup_priority : Z := 50.
Definition non_preemptible_threshold : Z := 100.

Definition get_priority (classes : list prioclass) (name : positive) : Z :=
  match find (fun c => Pos.eqb (pc_name c) name) classes with
  | Some c => pc_value c
  | None => match find pc_default classes with
            | Some c => pc_value c
            | None => default_podgroup_priority
            end
  end.

Definition calc_preemptible (s : pspec) (priority : Z) : bool :=
  match s with
  | SpecPreemptible => true
  | SpecNonPreemptible => false
  | SpecUnset => priority <? non_preemptible_threshold
  end.

(** * Pod-group status *)

Record rstatus := { s_alloc : vec; s_anp : vec; s_req : vec }.

Definition rzero : rstatus := {| s_alloc := []; s_anp := []; s_req := [] |}.

Definition radd (a b : rstatus) : rstatus :=
  {| s_alloc := vadd (s_alloc a) (s_alloc b);
     s_anp := vadd (s_anp a) (s_anp b);
     s_req := vadd (s_req a) (s_req b) |}.

Definition rstatus_eqb (a b : rstatus) : bool :=
  vec_eqb (s_alloc a) (s_alloc b) && vec_eqb (s_anp a) (s_anp b) && vec_eqb (s_req a) (s_req b).

Record podgroup := {
  g_spec : pspec;          (* spec.preemptibility *)
  g_prio_class : positive; (* spec.priorityClassName *)
  g_status : rstatus;      (* status.resourcesStatus as stored *)
}.

Record pgmeta := { m_preemptible : bool; m_alloc : vec; m_req : vec }.

Definition add_pod_metadata (m : pgmeta) (pm : vec * vec) : pgmeta :=
  {| m_preemptible := m_preemptible m;
     m_alloc := vadd (m_alloc m) (snd pm);
     m_req := vadd (m_req m) (fst pm) |}.

(** calculatePodGroupMetadata: the loop stops at the first pod whose metadata
    cannot be computed. *)
Fixpoint add_pods (m : pgmeta) (pods : list pod) : option pgmeta :=
  match pods with
  | [] => Some m
  | p :: r => match pod_metadata p with
              | None => None
              | Some pm => add_pods (add_pod_metadata m pm) r
              end
  end.

Definition calc_metadata (preemptible : bool) (pods : list pod) : option pgmeta :=
  add_pods {| m_preemptible := preemptible; m_alloc := []; m_req := [] |} pods.

(** The preemptibility rule of getStatusWithMetadata, isolated.
    [anp_rule_v0] is the code as it stood before /repo commit 5182ff3:
    AllocatedNonPreemptible was only assigned when the group is
    non-preemptible and otherwise kept the value of the previous status.
    [anp_rule_fixed] is the code since 5182ff3:

      if !metaData.Preemptible { AllocatedNonPreemptible = metaData.Allocated }
      else if len(AllocatedNonPreemptible) > 0 { AllocatedNonPreemptible = nil }

    The [len > 0] guard leaves an existing EMPTY map in place instead of
    replacing it by nil; both are the vector [[]] here (absent key = 0, and the
    JSON status round trip drops an empty map anyway), so the rule is
    "preemptible -> []".  A previous value with only zero entries has
    [len > 0] and becomes nil = [[]] as well. *)
Definition anp_rule_v0 (preemptible : bool) (old_anp alloc : vec) : vec :=
  if preemptible then old_anp else alloc.

Definition anp_rule_fixed (preemptible : bool) (old_anp alloc : vec) : vec :=
  if preemptible then [] else alloc.

(** THE SWITCH: which rule the current tree implements (flipped to the
    repaired rule with /repo commit 5182ff3; [anp_rule_v0] is kept for the
    documented refutation and for the regression replay). *)
Definition anp_rule := anp_rule_fixed.

Definition status_with_metadata (rule : bool -> vec -> vec -> vec) (m : pgmeta) (old : rstatus) : rstatus :=
  {| s_alloc := m_alloc m;
     s_anp := rule (m_preemptible m) (s_anp old) (m_alloc m);
     s_req := m_req m |}.

(** One Reconcile of a pod group: [None] = an error was returned and nothing
    was written; [Some st] = the status stored afterwards. *)
Definition pg_reconcile_with (rule : bool -> vec -> vec -> vec)
           (classes : list prioclass) (pods : list pod) (g : podgroup) : option rstatus :=
  let preemptible := calc_preemptible (g_spec g) (get_priority classes (g_prio_class g)) in
  match calc_metadata preemptible pods with
  | None => None
  | Some m => Some (status_with_metadata rule m (g_status g))
  end.

Definition pg_reconcile := pg_reconcile_with anp_rule.

(** Does the reconcile change the stored object? *)
Definition pg_writes_with rule classes pods g : bool :=
  match pg_reconcile_with rule classes pods g with
  | None => false
  | Some st => negb (rstatus_eqb st (g_status g))
  end.

Definition pg_writes := pg_writes_with anp_rule.

Definition set_status (g : podgroup) (st : rstatus) : podgroup :=
  {| g_spec := g_spec g; g_prio_class := g_prio_class g; g_status := st |}.

(** The pod group after a reconcile (unchanged on error). *)
Definition pg_step_with rule classes pods g : podgroup :=
  match pg_reconcile_with rule classes pods g with
  | None => g
  | Some st => set_status g st
  end.

Definition pg_step := pg_step_with anp_rule.

(** * Queues *)

Record queue := {
  q_name : positive;
  q_parent : option positive;   (* spec.parentQueue, "" = None *)
  q_status : rstatus;           (* status.allocated / allocatedNonPreemptible / requested *)
  q_children : list positive;   (* status.childQueues *)
}.

(** A pod group as the queue controller sees it. *)
Record qpodgroup := { pg_queue : option positive; pg_status : rstatus }.

Record cluster := { c_queues : list queue; c_pgs : list qpodgroup }.

Definition is_child_of (n : positive) (q : queue) : bool :=
  match q_parent q with Some p => Pos.eqb p n | None => false end.

Definition pg_in_queue (n : positive) (g : qpodgroup) : bool :=
  match pg_queue g with Some p => Pos.eqb p n | None => false end.

(** sumChildQueueResources: reads the status the children have now. *)
Definition sum_children (n : positive) (qs : list queue) (acc : rstatus) : rstatus :=
  fold_left (fun acc q => if is_child_of n q then radd (q_status q) acc else acc) qs acc.

(** sumPodGroupsResources *)
Definition sum_pgs (n : positive) (pgs : list qpodgroup) (acc : rstatus) : rstatus :=
  fold_left (fun acc g => if pg_in_queue n g then radd (pg_status g) acc else acc) pgs acc.

Definition queue_new_status (n : positive) (c : cluster) : rstatus :=
  sum_pgs n (c_pgs c) (sum_children n (c_queues c) rzero).

Definition child_names (n : positive) (qs : list queue) : list positive :=
  map q_name (filter (is_child_of n) qs).

Definition reconciled_queue (c : cluster) (q : queue) : queue :=
  {| q_name := q_name q; q_parent := q_parent q;
     q_status := queue_new_status (q_name q) c;
     q_children := child_names (q_name q) (c_queues c) |}.

(** One Reconcile of the queue named [n] (no-op when there is none). *)
Definition q_reconcile (n : positive) (c : cluster) : cluster :=
  {| c_queues := map (fun q => if Pos.eqb (q_name q) n then reconciled_queue c q else q) (c_queues c);
     c_pgs := c_pgs c |}.

Fixpoint pos_list_eqb (a b : list positive) : bool :=
  match a, b with
  | [], [] => true
  | x :: a', y :: b' => Pos.eqb x y && pos_list_eqb a' b'
  | _, _ => false
  end.

Definition queue_unchanged (a b : queue) : bool :=
  rstatus_eqb (q_status a) (q_status b) && pos_list_eqb (q_children a) (q_children b).

(** Does reconciling [n] change a stored object? *)
Definition q_writes (n : positive) (c : cluster) : bool :=
  existsb (fun q => Pos.eqb (q_name q) n && negb (queue_unchanged (reconciled_queue c q) q)) (c_queues c).

(** A sequence of reconcile events. *)
Definition q_run (evs : list positive) (c : cluster) : cluster :=
  fold_left (fun c n => q_reconcile n c) evs c.

(** * Which fields the queue controller's change detection compares *)

Record qfields := { cmp_alloc : bool; cmp_anp : bool; cmp_req : bool; cmp_children : bool }.

(** the current code: the patch is sent unconditionally, i.e. a difference in
    any field reaches the store *)
Definition cmp_all : qfields :=
  {| cmp_alloc := true; cmp_anp := true; cmp_req := true; cmp_children := true |}.

(** a change detection that forgets AllocatedNonPreemptible (NOT the current
    code; named so that its defect can be stated) *)
Definition cmp_without_anp : qfields :=
  {| cmp_alloc := true; cmp_anp := false; cmp_req := true; cmp_children := true |}.

(** does [a] (recomputed) differ from [b] (stored) in a compared field? *)
Definition queue_differs (fs : qfields) (a b : queue) : bool :=
  (cmp_alloc fs && negb (vec_eqb (s_alloc (q_status a)) (s_alloc (q_status b))))
  || (cmp_anp fs && negb (vec_eqb (s_anp (q_status a)) (s_anp (q_status b))))
  || (cmp_req fs && negb (vec_eqb (s_req (q_status a)) (s_req (q_status b))))
  || (cmp_children fs && negb (pos_list_eqb (q_children a) (q_children b))).

(** Reconcile with a change detection: the whole recomputed status is written
    when a compared field differs, nothing otherwise. *)
Definition q_reconcile_with (fs : qfields) (n : positive) (c : cluster) : cluster :=
  {| c_queues := map (fun q => if Pos.eqb (q_name q) n
                               then (if queue_differs fs (reconciled_queue c q) q then reconciled_queue c q else q)
                               else q) (c_queues c);
     c_pgs := c_pgs c |}.

Definition q_writes_with (fs : qfields) (n : positive) (c : cluster) : bool :=
  existsb (fun q => Pos.eqb (q_name q) n && queue_differs fs (reconciled_queue c q) q) (c_queues c).

(** THE SWITCH: the fields whose change reaches the store in the current tree *)
Definition q_detector : qfields := cmp_all.

(** does some reconcile of the pass (executed in order) write? *)
Fixpoint q_pass_writes (fs : qfields) (pass : list positive) (c : cluster) : bool :=
  match pass with
  | [] => false
  | n :: r => q_writes_with fs n c || q_pass_writes fs r (q_reconcile_with fs n c)
  end.

(** * Worlds: pods, pod groups and queues on one store *)

Record wgroup := {
  wg_queue : option positive;   (* spec.queue, "" = None *)
  wg_pods : list pod;           (* the pods carrying the group's annotation *)
  wg_pg : podgroup;             (* spec.preemptibility, spec.priorityClassName, stored status *)
}.

Record world := {
  w_classes : list prioclass;
  w_groups : list wgroup;
  w_queues : list queue;
}.

(** what the queue controller sees *)
Definition w_cluster (w : world) : cluster :=
  {| c_queues := w_queues w;
     c_pgs := map (fun g => {| pg_queue := wg_queue g; pg_status := g_status (wg_pg g) |}) (w_groups w) |}.

Fixpoint upd_nth {A} (i : nat) (f : A -> A) (l : list A) : list A :=
  match l, i with
  | [], _ => []
  | x :: r, O => f x :: r
  | x :: r, S j => x :: upd_nth j f r
  end.

(** changes made by users / the scheduler / kubelet between reconciles *)
Inductive wchange :=
| WSetSpec (i : nat) (s : pspec)                 (* edit of spec.preemptibility *)
| WSetPrioClass (i : nat) (n : positive)         (* edit of spec.priorityClassName *)
| WSetClasses (cls : list prioclass)             (* priority classes created / deleted / value changed *)
| WSetPods (i : nat) (pods : list pod)           (* pods of group i created / deleted / phase or condition changed *)
| WSetGroupQueue (i : nat) (q : option positive) (* edit of spec.queue *)
| WSetParent (n : positive) (p : option positive)(* edit of a queue's spec.parentQueue *)
| WAddQueue (n : positive) (p : option positive) (* queue created, empty status *)
| WDelQueue (n : positive).

Definition set_spec (s : pspec) (g : podgroup) : podgroup :=
  {| g_spec := s; g_prio_class := g_prio_class g; g_status := g_status g |}.
Definition set_prio_class (n : positive) (g : podgroup) : podgroup :=
  {| g_spec := g_spec g; g_prio_class := n; g_status := g_status g |}.
Definition wg_set_pg (f : podgroup -> podgroup) (g : wgroup) : wgroup :=
  {| wg_queue := wg_queue g; wg_pods := wg_pods g; wg_pg := f (wg_pg g) |}.

(** queues are listed in name order *)
Fixpoint insert_queue (q : queue) (qs : list queue) : list queue :=
  match qs with
  | [] => [q]
  | x :: r => if Pos.ltb (q_name q) (q_name x) then q :: qs else x :: insert_queue q r
  end.

Definition with_groups (w : world) (gs : list wgroup) : world :=
  {| w_classes := w_classes w; w_groups := gs; w_queues := w_queues w |}.
Definition with_queues (w : world) (qs : list queue) : world :=
  {| w_classes := w_classes w; w_groups := w_groups w; w_queues := qs |}.

Definition w_apply (ch : wchange) (w : world) : world :=
  match ch with
  | WSetSpec i s => with_groups w (upd_nth i (wg_set_pg (set_spec s)) (w_groups w))
  | WSetPrioClass i n => with_groups w (upd_nth i (wg_set_pg (set_prio_class n)) (w_groups w))
  | WSetClasses cls => {| w_classes := cls; w_groups := w_groups w; w_queues := w_queues w |}
  | WSetPods i pods =>
      with_groups w (upd_nth i (fun g => {| wg_queue := wg_queue g; wg_pods := pods; wg_pg := wg_pg g |}) (w_groups w))
  | WSetGroupQueue i q =>
      with_groups w (upd_nth i (fun g => {| wg_queue := q; wg_pods := wg_pods g; wg_pg := wg_pg g |}) (w_groups w))
  | WSetParent n p =>
      with_queues w (map (fun q => if Pos.eqb (q_name q) n
                                   then {| q_name := q_name q; q_parent := p; q_status := q_status q; q_children := q_children q |}
                                   else q) (w_queues w))
  | WAddQueue n p =>
      with_queues w (insert_queue {| q_name := n; q_parent := p; q_status := rzero; q_children := [] |} (w_queues w))
  | WDelQueue n => with_queues w (filter (fun q => negb (Pos.eqb (q_name q) n)) (w_queues w))
  end.

(** one event of a history: a change, or one Reconcile of either controller *)
Inductive wevent :=
| WChange (ch : wchange)
| WRecGroup (i : nat)        (* PodGroupReconciler.Reconcile of the i-th pod group *)
| WRecQueue (n : positive).  (* QueueReconciler.Reconcile of queue n *)

Definition w_step_with (rule : bool -> vec -> vec -> vec) (fs : qfields) (e : wevent) (w : world) : world :=
  match e with
  | WChange ch => w_apply ch w
  | WRecGroup i =>
      with_groups w (upd_nth i (fun g => wg_set_pg (pg_step_with rule (w_classes w) (wg_pods g)) g) (w_groups w))
  | WRecQueue n => with_queues w (c_queues (q_reconcile_with fs n (w_cluster w)))
  end.

(** does the reconcile change a stored object? *)
Definition w_event_writes_with rule (fs : qfields) (e : wevent) (w : world) : bool :=
  match e with
  | WChange _ => false
  | WRecGroup i => match nth_error (w_groups w) i with
                   | Some g => pg_writes_with rule (w_classes w) (wg_pods g) (wg_pg g)
                   | None => false
                   end
  | WRecQueue n => q_writes_with fs n (w_cluster w)
  end.

(** does the reconcile return an error (a pod's resources cannot be extracted)? *)
Definition w_event_errs rule (e : wevent) (w : world) : bool :=
  match e with
  | WRecGroup i => match nth_error (w_groups w) i with
                   | Some g => match pg_reconcile_with rule (w_classes w) (wg_pods g) (wg_pg g) with
                               | None => true
                               | Some _ => false
                               end
                   | None => false
                   end
  | _ => false
  end.

Definition is_reconcile (e : wevent) : bool := match e with WChange _ => false | _ => true end.

Definition w_run_with rule fs (h : list wevent) (w : world) : world :=
  fold_left (fun w e => w_step_with rule fs e w) h w.

(** a pass made of reconciles only, executed in order, in which no reconcile
    writes and none fails *)
Fixpoint w_pass_quiet_with rule fs (pass : list wevent) (w : world) : bool :=
  match pass with
  | [] => true
  | e :: r => is_reconcile e && negb (w_event_writes_with rule fs e w) && negb (w_event_errs rule e w)
              && w_pass_quiet_with rule fs r (w_step_with rule fs e w)
  end.

Definition w_step := w_step_with anp_rule q_detector.
Definition w_run := w_run_with anp_rule q_detector.
Definition w_event_writes := w_event_writes_with anp_rule q_detector.
Definition w_pass_quiet := w_pass_quiet_with anp_rule q_detector.
