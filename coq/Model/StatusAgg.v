(** Model of the two status controllers (property C20).

    Pod-group controller (pkg/podgroupcontroller/controllers):
    - pod_group_controller.go  (PodGroupReconciler).Reconcile
    - status_updater.go        handlePodGroupStatus, calculatePodGroupMetadata,
                               addPodMetadata, updateStatusIfNecessary
    - metadata/pod.go          GetPodMetadata, isActivePod, isAllocatedPod,
                               isPodScheduled
    - metadata/pod_group.go    AddPodMetadata
    - resources/resources.go   SumResources
    - patcher/pod_group.go     getStatusWithMetadata, ShouldUpdatePodGroupStatus,
                               UpdatePodGroupStatus
    - utilities/pod-group/preemptible.go IsPreemptible, getPodGroupPriority;
      pkg/common/podgroup CalculatePreemptibility
    Queue controller (pkg/queuecontroller/controllers):
    - queue_controller.go      (QueueReconciler).Reconcile
    - resource_updater/resource_updater.go UpdateQueue, sumChildQueueResources,
                               sumPodGroupsResources
    - childqueues_updater/childqueues_updater.go UpdateQueue

    A v1.ResourceList is a vector of integers in milli-units over a fixed
    list of resource names chosen by the harness (absent key = 0, trailing
    zeros trimmed).  What one pod contributes when it is counted (container
    requests + GPU-sharing annotations + DRA claims: calculateRequestedResources /
    calculatedAllocatedResources, resources/fraction.go, requested.go,
    received.go, common/resources.ExtractDRAGPUResources) is a given value per
    pod ([p_req], [p_alloc]) together with a flag saying that the extraction
    returns an error; the theorems quantify over all such values.

    Left out: reflect.DeepEqual on resource.Quantity internals in
    ShouldUpdatePodGroupStatus (it decides whether a patch call is issued; the
    model records whether the stored status changes), the unconditional
    Status().Patch of the queue controller when nothing changed (empty patch),
    Prometheus metrics, NotFound handling of a deleted pod group / queue
    (reconcile of an unknown name is a no-op), API errors. *)
From Coq Require Import List ZArith PArith Bool.
Import ListNotations.
Open Scope Z_scope.

(** * Resource vectors (v1.ResourceList) and SumResources *)

Definition vec := list Z.

Fixpoint vadd (a b : vec) : vec :=
  match a, b with
  | [], _ => b
  | _, [] => a
  | x :: a', y :: b' => (x + y) :: vadd a' b'
  end.

Fixpoint vec_eqb (a b : vec) : bool :=
  match a, b with
  | [], [] => true
  | x :: a', y :: b' => (x =? y) && vec_eqb a' b'
  | _, _ => false
  end.

(** * Pods (metadata/pod.go) *)

Inductive phase := Pending | Running | Succeeded | Failed | Unknown.

Record pod := {
  p_phase : phase;
  (* status.conditions projected to (type = PodScheduled, status = True) *)
  p_conds : list (bool * bool);
  p_req : vec;        (* calculateRequestedResources, when it succeeds *)
  p_req_err : bool;   (* calculateRequestedResources returns an error *)
  p_alloc : vec;      (* calculatedAllocatedResources, when it succeeds *)
  p_alloc_err : bool; (* calculatedAllocatedResources returns an error *)
}.

Definition is_active (p : pod) : bool :=
  match p_phase p with Pending | Running => true | _ => false end.

Fixpoint pod_scheduled (cs : list (bool * bool)) : bool :=
  match cs with
  | [] => false
  | (is_sched, st) :: r => if is_sched then st else pod_scheduled r
  end.

Definition is_allocated (p : pod) : bool :=
  match p_phase p with
  | Pending => pod_scheduled (p_conds p)
  | Running => true
  | _ => false
  end.

(** GetPodMetadata: (requested, allocated) or an error. *)
Definition pod_metadata (p : pod) : option (vec * vec) :=
  if is_active p && p_req_err p then None
  else if is_allocated p && p_alloc_err p then None
  else Some (if is_active p then p_req p else [],
             if is_allocated p then p_alloc p else []).

(** * Preemptibility (IsPreemptible) *)

Inductive pspec := SpecPreemptible | SpecNonPreemptible | SpecUnset.

Record prioclass := { pc_name : positive; pc_value : Z; pc_default : bool }.

Definition default_podgroup_priority : Z := 50.
Definition non_preemptible_threshold : Z := 100.

Definition get_priority (classes : list prioclass) (name : positive) : Z :=
  match find (fun c => Pos.eqb (pc_name c) name) classes with
  | Some c => pc_value c
  | None => match find pc_default classes with
            | Some c => pc_value c
            | None => default_podgroup_priority
            end
  end.

Definition calc_preemptible (s : pspec) (priority : Z) : bool :=
  match s with
  | SpecPreemptible => true
  | SpecNonPreemptible => false
  | SpecUnset => priority <? non_preemptible_threshold
  end.

(** * Pod-group status *)

Record rstatus := { s_alloc : vec; s_anp : vec; s_req : vec }.

Definition rzero : rstatus := {| s_alloc := []; s_anp := []; s_req := [] |}.

Definition radd (a b : rstatus) : rstatus :=
  {| s_alloc := vadd (s_alloc a) (s_alloc b);
     s_anp := vadd (s_anp a) (s_anp b);
     s_req := vadd (s_req a) (s_req b) |}.

Definition rstatus_eqb (a b : rstatus) : bool :=
  vec_eqb (s_alloc a) (s_alloc b) && vec_eqb (s_anp a) (s_anp b) && vec_eqb (s_req a) (s_req b).

Record podgroup := {
  g_spec : pspec;          (* spec.preemptibility *)
  g_prio_class : positive; (* spec.priorityClassName *)
  g_status : rstatus;      (* status.resourcesStatus as stored *)
}.

Record pgmeta := { m_preemptible : bool; m_alloc : vec; m_req : vec }.

Definition add_pod_metadata (m : pgmeta) (pm : vec * vec) : pgmeta :=
  {| m_preemptible := m_preemptible m;
     m_alloc := vadd (m_alloc m) (snd pm);
     m_req := vadd (m_req m) (fst pm) |}.

(** calculatePodGroupMetadata: the loop stops at the first pod whose metadata
    cannot be computed. *)
Fixpoint add_pods (m : pgmeta) (pods : list pod) : option pgmeta :=
  match pods with
  | [] => Some m
  | p :: r => match pod_metadata p with
              | None => None
              | Some pm => add_pods (add_pod_metadata m pm) r
              end
  end.

Definition calc_metadata (preemptible : bool) (pods : list pod) : option pgmeta :=
  add_pods {| m_preemptible := preemptible; m_alloc := []; m_req := [] |} pods.

(** The preemptibility rule of getStatusWithMetadata, isolated.
    [anp_rule_v0] is the code as it stood before /repo commit 5182ff3:
    AllocatedNonPreemptible was only assigned when the group is
    non-preemptible and otherwise kept the value of the previous status.
    [anp_rule_fixed] is the code since 5182ff3:

      if !metaData.Preemptible { AllocatedNonPreemptible = metaData.Allocated }
      else if len(AllocatedNonPreemptible) > 0 { AllocatedNonPreemptible = nil }

    The [len > 0] guard leaves an existing EMPTY map in place instead of
    replacing it by nil; both are the vector [[]] here (absent key = 0, and the
    JSON status round trip drops an empty map anyway), so the rule is
    "preemptible -> []".  A previous value with only zero entries has
    [len > 0] and becomes nil = [[]] as well. *)
Definition anp_rule_v0 (preemptible : bool) (old_anp alloc : vec) : vec :=
  if preemptible then old_anp else alloc.

Definition anp_rule_fixed (preemptible : bool) (old_anp alloc : vec) : vec :=
  if preemptible then [] else alloc.

(** THE SWITCH: which rule the current tree implements (flipped to the
    repaired rule with /repo commit 5182ff3; [anp_rule_v0] is kept for the
    documented refutation and for the regression replay). *)
Definition anp_rule := anp_rule_fixed.

Definition status_with_metadata (rule : bool -> vec -> vec -> vec) (m : pgmeta) (old : rstatus) : rstatus :=
  {| s_alloc := m_alloc m;
     s_anp := rule (m_preemptible m) (s_anp old) (m_alloc m);
     s_req := m_req m |}.

(** One Reconcile of a pod group: [None] = an error was returned and nothing
    was written; [Some st] = the status stored afterwards. *)
Definition pg_reconcile_with (rule : bool -> vec -> vec -> vec)
           (classes : list prioclass) (pods : list pod) (g : podgroup) : option rstatus :=
  let preemptible := calc_preemptible (g_spec g) (get_priority classes (g_prio_class g)) in
  match calc_metadata preemptible pods with
  | None => None
  | Some m => Some (status_with_metadata rule m (g_status g))
  end.

Definition pg_reconcile := pg_reconcile_with anp_rule.

(** Does the reconcile change the stored object? *)
Definition pg_writes_with rule classes pods g : bool :=
  match pg_reconcile_with rule classes pods g with
  | None => false
  | Some st => negb (rstatus_eqb st (g_status g))
  end.

Definition pg_writes := pg_writes_with anp_rule.

Definition set_status (g : podgroup) (st : rstatus) : podgroup :=
  {| g_spec := g_spec g; g_prio_class := g_prio_class g; g_status := st |}.

(** The pod group after a reconcile (unchanged on error). *)
Definition pg_step_with rule classes pods g : podgroup :=
  match pg_reconcile_with rule classes pods g with
  | None => g
  | Some st => set_status g st
  end.

Definition pg_step := pg_step_with anp_rule.

(** * Queues *)

Record queue := {
  q_name : positive;
  q_parent : option positive;   (* spec.parentQueue, "" = None *)
  q_status : rstatus;           (* status.allocated / allocatedNonPreemptible / requested *)
  q_children : list positive;   (* status.childQueues *)
}.

(** A pod group as the queue controller sees it. *)
Record qpodgroup := { pg_queue : option positive; pg_status : rstatus }.

Record cluster := { c_queues : list queue; c_pgs : list qpodgroup }.

Definition is_child_of (n : positive) (q : queue) : bool :=
  match q_parent q with Some p => Pos.eqb p n | None => false end.

Definition pg_in_queue (n : positive) (g : qpodgroup) : bool :=
  match pg_queue g with Some p => Pos.eqb p n | None => false end.

(** sumChildQueueResources: reads the status the children have now. *)
Definition sum_children (n : positive) (qs : list queue) (acc : rstatus) : rstatus :=
  fold_left (fun acc q => if is_child_of n q then radd (q_status q) acc else acc) qs acc.

(** sumPodGroupsResources *)
Definition sum_pgs (n : positive) (pgs : list qpodgroup) (acc : rstatus) : rstatus :=
  fold_left (fun acc g => if pg_in_queue n g then radd (pg_status g) acc else acc) pgs acc.

Definition queue_new_status (n : positive) (c : cluster) : rstatus :=
  sum_pgs n (c_pgs c) (sum_children n (c_queues c) rzero).

Definition child_names (n : positive) (qs : list queue) : list positive :=
  map q_name (filter (is_child_of n) qs).

Definition reconciled_queue (c : cluster) (q : queue) : queue :=
  {| q_name := q_name q; q_parent := q_parent q;
     q_status := queue_new_status (q_name q) c;
     q_children := child_names (q_name q) (c_queues c) |}.

(** One Reconcile of the queue named [n] (no-op when there is none). *)
Definition q_reconcile (n : positive) (c : cluster) : cluster :=
  {| c_queues := map (fun q => if Pos.eqb (q_name q) n then reconciled_queue c q else q) (c_queues c);
     c_pgs := c_pgs c |}.

Fixpoint pos_list_eqb (a b : list positive) : bool :=
  match a, b with
  | [], [] => true
  | x :: a', y :: b' => Pos.eqb x y && pos_list_eqb a' b'
  | _, _ => false
  end.

Definition queue_unchanged (a b : queue) : bool :=
  rstatus_eqb (q_status a) (q_status b) && pos_list_eqb (q_children a) (q_children b).

(** Does reconciling [n] change a stored object? *)
Definition q_writes (n : positive) (c : cluster) : bool :=
  existsb (fun q => Pos.eqb (q_name q) n && negb (queue_unchanged (reconciled_queue c q) q)) (c_queues c).

(** A sequence of reconcile events. *)
Definition q_run (evs : list positive) (c : cluster) : cluster :=
  fold_left (fun c n => q_reconcile n c) evs c.
