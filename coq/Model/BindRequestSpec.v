(** Declarative side of C12: what "the hand-off conserves resources and
    terminates" means, written against the API store and the scheduler's
    snapshot view only (not against the control flow of the code).

    - [spec_failed]      a request is terminally failed: phase Failed and no retry left
    - [attempt_fails]    a reconcile of request p is a failing bind attempt
    - [ghost], [ghost_step]   number of failing attempts of every request since the
                              scheduler created it (None: not created inside the history)
    - [clause1]  every snapshot charges in-flight pods to the selected node
    - [clause2]  stale requests are deleted by the snapshot, their pods are pending again,
                 live requests are kept
    - [clause3]  failedAttempts = min k limit, failed once the limit is reached, then quiet
    The [clause*] functions are boolean so that Run/C12.v evaluates them on what the
    real code returned. *)
From Coq Require Import List ZArith Bool PArith.
From KaiV Require Import Model.BindRequest.
Import ListNotations.
Open Scope Z_scope.

Definition spec_failed (b : bindreq) : bool :=
  match b_phase b, b_limit b with
  | BFailed, None => true
  | BFailed, Some l => l <=? b_attempts b
  | _, _ => false
  end.

Definition wf (s : store) : Prop :=
  NoDup (map p_id (pods s)) /\ NoDup (map b_pod (brs s)).

(** ** reading a view *)
Definition lookup {A} (l : list (positive * A)) (k : positive) : option A :=
  match find (fun x => Pos.eqb (fst x) k) l with
  | Some x => Some (snd x)
  | None => None
  end.

Definition charged_on (v : view) (n : positive) : list positive :=
  match lookup (v_charged v) n with Some l => l | None => [] end.

Definition charged_anywhere (v : view) (p : positive) : bool :=
  existsb (fun nl => memp p (snd nl)) (v_charged v).

Definition expected_groups (b : bindreq) (pd : pod) : list positive :=
  match b_groups b with [] => p_groups pd | _ :: _ => b_groups b end.

(** the task of an in-flight pod *)
Definition binding_task (b : bindreq) (pd : pod) : task :=
  {| t_node := Some (b_node b);
     t_status := if p_deleting pd then TReleasing else TBinding;
     t_groups := expected_groups b pd |}.

(** the task of a pod that is schedulable again *)
Definition pending_task (pd : pod) : task :=
  {| t_node := None;
     t_status := if p_gated pd then TGated else TPending;
     t_groups := p_groups pd |}.

(** a request whose selected node is gone, or that is terminally failed *)
Definition stale (s : store) (b : bindreq) : bool :=
  negb (memp (b_node b) (nodes s)) || spec_failed b.

(** ** failing attempts *)
Definition attempt_fails (s : store) (p : positive) (o : outcome) : bool :=
  match find_br (brs s) p with
  | None => false
  | Some b =>
      match b_phase b with
      | BSucceeded => false
      | _ =>
          match find_pod (pods s) (b_pod b) with
          | None => true
          | Some pd =>
              match p_node pd with
              | Some _ => false
              | None => negb (memp (b_node b) (nodes s)) || match o with Fail => true | Succeed => false end
              end
          end
      end
  end.

Definition ghost := positive -> option Z.
Definition gset (g : ghost) (p : positive) (v : option Z) : ghost :=
  fun q => if Pos.eqb q p then v else g q.
Definition g_none : ghost := fun _ => None.

Definition ghost_step (s : store) (e : event) (g : ghost) : ghost :=
  match e with
  | Commit p _ _ _ =>
      match find_br (brs s) p with
      | None => gset g p (Some 0)
      | Some _ => g
      end
  | Reconcile p o =>
      if attempt_fails s p o
      then gset g p (match g p with Some k => Some (k + 1) | None => None end)
      else g
  | _ => g
  end.

Fixpoint run_g (upd : bindreq -> bool -> upd_result) (s : store) (g : ghost) (tr : list event)
  : store * ghost :=
  match tr with
  | [] => (s, g)
  | e :: tr' => run_g upd (step upd s e) (ghost_step s e g) tr'
  end.

(** the limit is reached after k failing attempts (no limit: at once) *)
Definition limit_reached (b : bindreq) (k : Z) : bool :=
  match b_limit b with None => true | Some l => l <=? k end.

(** ** boolean clauses (evaluated on observed outputs) *)
Definition pos_list_eqb (a b : list positive) : bool :=
  (fix go a b := match a, b with
                 | [], [] => true
                 | x :: r, y :: t => Pos.eqb x y && go r t
                 | _, _ => false
                 end) a b.
Definition opt_pos_eqb (a b : option positive) : bool :=
  match a, b with Some x, Some y => Pos.eqb x y | None, None => true | _, _ => false end.
Definition status_eqb (a b : task_status) : bool :=
  match a, b with
  | TPending, TPending | TGated, TGated | TBinding, TBinding | TBound, TBound
  | TRunning, TRunning | TReleasing, TReleasing | TSucceeded, TSucceeded
  | TFailed, TFailed | TUnknown, TUnknown => true
  | _, _ => false
  end.
Definition task_eqb (a b : task) : bool :=
  opt_pos_eqb (t_node a) (t_node b) && status_eqb (t_status a) (t_status b)
  && pos_list_eqb (t_groups a) (t_groups b).
Definition has_task (v : view) (p : positive) (t : task) : bool :=
  match lookup (v_tasks v) p with Some t' => task_eqb t' t | None => false end.
Definition opt_z_eqb (a b : option Z) : bool :=
  match a, b with Some x, Some y => x =? y | None, None => true | _, _ => false end.
Definition br_eqb (a b : bindreq) : bool :=
  Pos.eqb (b_pod a) (b_pod b) && Pos.eqb (b_node a) (b_node b)
  && pos_list_eqb (b_groups a) (b_groups b) && opt_z_eqb (b_limit a) (b_limit b)
  && br_phase_eqb (b_phase a) (b_phase b) && (b_attempts a =? b_attempts b).

Definition sum_req (s : store) (ids : list positive) : Z :=
  fold_right Z.add 0
    (map (fun i => match find_pod (pods s) i with Some pd => p_req pd | None => 0 end) ids).

Definition clause1_pod (s : store) (v : view) (pd : pod) : bool :=
  match p_phase pd with
  | PPending =>
      match p_node pd with
      | Some n => if memp n (nodes s) then memp (p_id pd) (charged_on v n) else true
      | None =>
          match find_br (brs s) (p_id pd) with
          | Some b =>
              if stale s b then true
              else has_task v (p_id pd) (binding_task b pd) && memp (p_id pd) (charged_on v (b_node b))
          | None => true
          end
      end
  | _ => true
  end.

Definition clause1 (s : store) (v : view) : bool :=
  forallb (clause1_pod s v) (pods s)
  && forallb (fun n => opt_z_eqb (lookup (v_used v) n) (Some (sum_req s (charged_on v n)))) (nodes s).

Definition clause2_br (s : store) (v : view) (s' : store) (b : bindreq) : bool :=
  if stale s b then
    match find_br (brs s') (b_pod b) with
    | Some _ => false
    | None =>
        match find_pod (pods s) (b_pod b) with
        | Some pd =>
            match p_phase pd, p_node pd, p_deleting pd with
            | PPending, None, false =>
                has_task v (p_id pd) (pending_task pd) && negb (charged_anywhere v (p_id pd))
            | _, _, _ => true
            end
        | None => true
        end
    end
  else match find_br (brs s') (b_pod b) with
       | Some b' => br_eqb b b'
       | None => false
       end.

Definition reported_failed (v : view) (b : bindreq) : bool :=
  match lookup (v_failed v) (b_pod b) with
  | Some x => Bool.eqb x (spec_failed b)
  | None => false
  end.

Definition clause2 (s : store) (v : view) (s' : store) : bool :=
  forallb (clause2_br s v s') (brs s) && forallb (reported_failed v) (brs s).

Definition quiet (r : rresult) : bool :=
  match r with RDone 0 false => true | _ => false end.

(** the persisted count equals the number of failing attempts, capped by the limit *)
Definition count_ok (b' : bindreq) (gk : option Z) : bool :=
  match gk, b_limit b' with
  | Some k, Some l => if 0 <=? l then b_attempts b' =? Z.min k l else true
  | _, _ => true
  end.

Definition clause3 (s : store) (p : positive) (o : outcome) (s' : store) (r : rresult) (g' : ghost)
  : bool :=
  match find_br (brs s) p with
  | None => true
  | Some b =>
      match find_br (brs s') p with
      | None => false                                   (* the binder never deletes the request *)
      | Some b' =>
          count_ok b' (g' p)
          && (if attempt_fails s p o then
                (match g' p with
                 | Some k => if limit_reached b' k then spec_failed b' else true
                 | None => true
                 end)
                && (if spec_failed b then quiet r && br_eqb b b' else true)
              else
                match b_phase b with
                | BSucceeded => br_eqb b b'             (* terminal: nothing is retried *)
                | _ => br_phase_eqb (b_phase b') BSucceeded
                end)
      end
  end.

(** ** The monitor: the three clauses along a trace of observed steps.
    [s] is the store before the step, [g] the failing attempts counted so far. *)
Record stepobs := mkStep { so_event : event; so_store : store; so_obs : observation }.

Definition step_ok (s : store) (g' : ghost) (st : stepobs) : bool :=
  match so_event st, so_obs st with
  | Snapshot, OView v => clause1 s v && clause2 s v (so_store st)
  | Snapshot, _ => false
  | Reconcile p o, OResult r => clause3 s p o (so_store st) r g'
  | Reconcile _ _, _ => false
  | _, _ => true
  end.

Fixpoint monitor_from (s : store) (g : ghost) (steps : list stepobs) : bool :=
  match steps with
  | [] => true
  | st :: r =>
      let g' := ghost_step s (so_event st) g in
      step_ok s g' st && monitor_from (so_store st) g' r
  end.

(** the trace the model itself produces *)
Fixpoint trace_of (upd : bindreq -> bool -> upd_result) (s : store) (tr : list event) : list stepobs :=
  match tr with
  | [] => []
  | e :: r => mkStep e (step upd s e) (observe upd s e) :: trace_of upd (step upd s e) r
  end.

(** ** Clause 3 as a statement about a status-update rule [upd].
    [ok L] restricts the limits the claim is made for (all of them: [fun _ => True]). *)
Definition bounded_retries_for (ok : Z -> Prop) (upd : bindreq -> bool -> upd_result) : Prop :=
  forall s0 tr s g, brs s0 = [] -> run_g upd s0 g_none tr = (s, g) ->
  forall b, In b (brs s) -> (forall L, b_limit b = Some L -> 0 <= L /\ ok L) ->
  exists k, g (b_pod b) = Some k /\ 0 <= k
    (* the persisted count is the number of failing attempts, capped by the limit *)
    /\ (forall L, b_limit b = Some L -> b_attempts b = Z.min k L)
    (* once the limit is reached the scheduler sees the request as failed *)
    /\ (b_phase b <> BSucceeded -> 1 <= k -> limit_reached b k = true -> is_failed b = true)
    (* and a further failing reconcile changes nothing and asks for no requeue *)
    /\ (is_failed b = true -> forall o, attempt_fails s (b_pod b) o = true ->
          reconcile upd s (b_pod b) o = (s, RDone 0 false)).

Definition bounded_retries_statement (upd : bindreq -> bool -> upd_result) : Prop :=
  bounded_retries_for (fun _ => True) upd.

(** ** Examples used by the non-vacuity and refutation theorems *)
Definition ex_pod : pod :=
  {| p_id := 1; p_node := None; p_phase := PPending; p_deleting := false; p_gated := false;
     p_groups := []; p_req := 100 |}.
Definition ex_s0 : store := {| pods := [ex_pod]; nodes := [1%positive]; brs := [] |}.
Definition ex_commit (L : Z) : event := Commit 1 1 [2%positive] (Some L).
Definition ex_fails (k : nat) : list event := repeat (Reconcile 1 Fail) k.
Definition stuck_br (L : Z) : bindreq :=
  {| b_pod := 1; b_node := 1; b_groups := [2%positive]; b_limit := Some L; b_phase := BFailed; b_attempts := 1 |}.
Definition stuck_store (L : Z) : store := {| pods := [ex_pod]; nodes := [1%positive]; brs := [stuck_br L] |}.
