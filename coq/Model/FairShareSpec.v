(** Declarative side of property C09: what the documented contract of the
    fair-share division says about the result, written without reference to the
    control flow of the Go code.  Everything is stated on pairs (queue as given,
    fair share it received), so the same definitions serve
    - as [Prop]s about the model's output (Properties/C09.v), and
    - as the executable monitor on what the real SetResourcesShare returned
      (Run/C09.v; [eps] is 0 when float arithmetic was exact on the case).
    Plain [Q] arithmetic (no normalisation needed: nothing is iterated). *)
From Coq Require Import List ZArith QArith Qminmax Bool PArith.
From KaiV Require Import Model.FairShare.
Import ListNotations.
Open Scope Q_scope.

(** request capped by the limit (-1 = no limit) *)
Definition cap (q : queue) : Q :=
  if Qeq_bool (q_limit q) unlimited then q_request q else Qmin (q_limit q) (q_request q).

(** deserved quota; an unlimited quota means "the whole amount being divided" *)
Definition eff_deserved (T : Q) (q : queue) : Q :=
  if Qeq_bool (q_deserved q) unlimited then T else q_deserved q.

(** the in-quota part every queue gets unconditionally *)
Definition phase1 (T : Q) (q : queue) : Q := Qmin (eff_deserved T q) (cap q).

Definition sum_fair (l : list queue) : Q := fold_right (fun q a => q_fair q + a) 0 l.
Definition sum_phase1 (T : Q) (l : list queue) : Q := fold_right (fun q a => phase1 T q + a) 0 l.

(** the static part of a queue (everything but the fair share) *)
Definition static (q : queue) : queue :=
  mkQ (q_uid q) (q_prio q) (q_created q) (q_deserved q) (q_limit q) (q_weight q)
      (q_request q) (q_usage q) 0.

(** inputs of the documented domain *)
Definition wf_queue (q : queue) : bool :=
  Qle_bool 0 (q_weight q) && Qle_bool 0 (q_usage q) && Qle_bool 0 (q_request q)
  && (Qeq_bool (q_limit q) unlimited || Qle_bool 0 (q_limit q))
  && (Qeq_bool (q_deserved q) unlimited || Qle_bool 0 (q_deserved q)).
Definition wf_input (T k : Q) (qs : list queue) : bool :=
  Qle_bool 0 T && Qle_bool 0 k && forallb wf_queue qs.

(** ---- the contract on (queue, received fair share) pairs ---- *)
Definition qf : Type := queue * Q.

Definition Qlt_bool (a b : Q) : bool := negb (Qle_bool b a).

Definition sumf (l : list qf) : Q := fold_right (fun x a => snd x + a) 0 l.
Definition sumph (T : Q) (l : list qf) : Q := fold_right (fun x a => phase1 T (fst x) + a) 0 l.
Definition surplus (T : Q) (x : qf) : Q := snd x - phase1 T (fst x).

(** still wanting more than it got *)
Definition unsat (eps : Q) (x : qf) : bool := Qlt_bool eps (cap (fst x) - snd x).

Definition in_band (p : Z) (x : qf) : bool := (q_prio (fst x) =? p)%Z.

(** total over-quota weight of the unsatisfied queues of a band, and the effective
    (usage-adjusted, time-based fairness) weight of a queue within its band *)
Definition band_weight (eps : Q) (p : Z) (l : list qf) : Q :=
  fold_right (fun x a => if in_band p x && unsat eps x then q_weight (fst x) + a else a) 0 l.
Definition eff_weight (eps k : Q) (l : list qf) (x : qf) : Q :=
  let W := band_weight eps (q_prio (fst x)) l in
  if Qeq_bool W 0 then 0
  else let nw := q_weight (fst x) / W in Qmax 0 (nw + k * (nw - q_usage (fst x))).

(** 2. lower bound *)
Definition lower_ok (eps T : Q) (l : list qf) : bool :=
  forallb (fun x => Qle_bool (phase1 T (fst x) - eps) (snd x)) l.
(** 3. upper bound *)
Definition upper_ok (eps : Q) (l : list qf) : bool :=
  forallb (fun x => Qlt_bool (snd x) (cap (fst x) + 1 + eps)) l.
(** 4. conservation (also: children divide their parent's fair share [T]) *)
Definition conservation_ok (eps T : Q) (l : list qf) : bool :=
  Qle_bool (sumf l) (Qmax T (sumph T l) + eps).
(** 5. surplus stays idle only if every queue with positive effective weight is satisfied *)
Definition no_idle_ok (eps T k : Q) (l : list qf) : bool :=
  if Qlt_bool eps (T - sumph T l) && Qlt_bool eps (T - sumf l)
  then forallb (fun x => negb (unsat eps x) || Qle_bool (eff_weight eps k l x) eps) l
  else true.
(** 6. while a queue of a band is unsatisfied (with positive effective weight), all
    lower bands together receive less than one unit per queue of that band *)
Definition lower_surplus (T : Q) (p : Z) (l : list qf) : Q :=
  fold_right (fun x a => if (q_prio (fst x) <? p)%Z then surplus T x + a else a) 0 l.
Definition band_size (p : Z) (l : list qf) : Q :=
  inject_Z (Z.of_nat (length (filter (in_band p) l))).
Definition priority_ok (eps T k : Q) (l : list qf) : bool :=
  forallb (fun x =>
             negb (unsat eps x && Qlt_bool eps (eff_weight eps k l x))
             || Qlt_bool (lower_surplus T (q_prio (fst x)) l)
                         (band_size (q_prio (fst x)) l + eps)) l.
(** 7. within a band, same situation and smaller-or-equal weight => at most one unit more *)
Definition same_situation (a b : queue) : bool :=
  (q_prio a =? q_prio b)%Z && Qeq_bool (q_deserved a) (q_deserved b)
  && Qeq_bool (q_limit a) (q_limit b) && Qeq_bool (q_request a) (q_request b)
  && Qeq_bool (q_usage a) (q_usage b).
Definition weight_mono_ok (eps : Q) (l : list qf) : bool :=
  forallb (fun x => forallb (fun y =>
     negb (same_situation (fst x) (fst y) && Qle_bool (q_weight (fst x)) (q_weight (fst y)))
     || Qle_bool (snd x) (snd y + 1 + eps)) l) l.

(** all per-result clauses; 5-7 are part of the contract on well-formed inputs only *)
Definition contract_ok (eps T k : Q) (l : list qf) : bool :=
  lower_ok eps T l && upper_ok eps l && conservation_ok eps T l
  && (if wf_input T k (map fst l)
      then no_idle_ok eps T k l && priority_ok eps T k l && weight_mono_ok eps l
      else true).

(** pairing the given queues with a result *)
Fixpoint pair_with (look : positive -> option Q) (qs : list queue) : option (list qf) :=
  match qs with
  | [] => Some []
  | q :: r => match look (q_uid q), pair_with look r with
              | Some f, Some l => Some ((q, f) :: l)
              | _, _ => None
              end
  end.
