(** Critical sections with bodies: the per-group lock of Model/GroupMutex.v
    together with the state the sections work on (C17: why the reservation
    model may treat a group's section as ONE atomic step, and why the race
    check compares a real interleaving with the two sequential orders).

    Go code modelled: the shape of every user of the lock in
      pkg/binder/binding/resourcereservation/resource_reservation.go
        ReserveGpuDevice, SyncForGpuGroup:
          LockMutexForGroup(g) ; defer ReleaseMutex(g) ; <body: a sequence of API calls>
    The lock protocol (four atomic steps A1 A2 R1 R2) is Model/GroupMutex.v's
    [step_thread], reused as it is.  New here: between A2 and R1 the thread runs
    its BODY, one atomic action (an API call) per scheduler tick, so that bodies
    of different threads interleave at the granularity of single API calls --
    exactly what the race harness provokes on the real code.

    A body is a resumable program [prog]: [Act f k] performs the atomic action
    [f] on the shared state and continues with [k s] where [s] is the state the
    action saw (so whatever the Go function keeps in local variables between
    two API calls lives in the closure [k]).  [run_prog] runs a body to its end
    without interruption: that is what "the section as one atomic step" means.

    The shared state is a family of components indexed by the group: a section
    on group x reads and writes component x only.  In the real store sections
    of different groups share the consumer pods: the second machine below
    ([gstep]) runs bodies that are plain lists of actions over ONE shared state
    (Properties/C17.v, [C17_interleavings_serialise]: commuting actions instead
    of disjoint components).

    Ghost state (does not influence the run): [sc_log x], the bodies of the
    sections on x in the order in which they acquired the lock.
    No proofs in this file. *)
From Coq Require Import List PArith Bool.
From KaiV Require Import Model.GroupMutex.
Import ListNotations.

Section Sections.
  Context {T : Type}.

  Inductive prog :=
  | Ret
  | Act (f : T -> T) (k : T -> prog).

  (** the body, uninterrupted *)
  Fixpoint run_prog (p : prog) (s : T) : T :=
    match p with
    | Ret => s
    | Act f k => run_prog (k s) (f s)
    end.

  Record sthread := mkST {
    st_thr : thread;          (* program counter, current group, groups of the sections still to run *)
    st_cur : prog;            (* what is left of the current section's body *)
    st_bodies : list prog     (* bodies of the sections still to run (as many as [t_todo]) *)
  }.

  Record sconfig := mkSC {
    sc_gm : gmutex;
    sc_thr : list sthread;
    sc_sh : group -> T;                 (* shared state, one component per group *)
    sc_log : group -> list prog         (* ghost: bodies in lock-acquisition order *)
  }.

  Definition set_at {A} (x : group) (v : A) (f : group -> A) : group -> A :=
    fun y => if Pos.eqb y x then v else f y.

  (** one tick of one thread: an action of its body if it is inside a section
      whose body is not finished; otherwise a step of the lock protocol *)
  Definition sstep_thread (g : gmutex) (sh : group -> T) (lg : group -> list prog) (t : sthread)
    : gmutex * (group -> T) * (group -> list prog) * sthread :=
    match t_pc (st_thr t), st_cur t with
    | PHold _, Act f k =>
        let x := t_grp (st_thr t) in
        (g, set_at x (f (sh x)) sh, lg, mkST (st_thr t) (k (sh x)) (st_bodies t))
    | pc0, _ =>
        let (g', t') := step_thread g (st_thr t) in
        match pc0, t_pc t' with
        | PIdle, PWait _ =>
            (* A1: the next section is picked; its body is loaded *)
            (g', sh, lg, mkST t' (hd Ret (st_bodies t)) (tl (st_bodies t)))
        | PWait _, PHold _ =>
            (* A2: the lock is taken; ghost: the section is appended to its group's log *)
            (g', sh, set_at (t_grp t') (lg (t_grp t') ++ [st_cur t]) lg, mkST t' (st_cur t) (st_bodies t))
        | _, _ => (g', sh, lg, mkST t' (st_cur t) (st_bodies t))
        end
    end.

  Definition sstep (c : sconfig) (i : nat) : sconfig :=
    match nth_error (sc_thr c) i with
    | None => c
    | Some t =>
        let '(g', sh', lg', t') := sstep_thread (sc_gm c) (sc_sh c) (sc_log c) t in
        mkSC g' (upd i t' (sc_thr c)) sh' lg'
    end.

  Definition srun (sched : list nat) (c : sconfig) : sconfig := fold_left sstep sched c.

  (** a thread's program: its sections, each a group and a body *)
  Definition sinit (progs : list (list (group * prog))) (sh0 : group -> T) : sconfig :=
    mkSC gm_empty
         (map (fun p => mkST (mkT PIdle 1%positive (map fst p)) Ret (map snd p)) progs)
         sh0 (fun _ => []).

  Definition sdone (t : sthread) : Prop := done (st_thr t).

  (** the bodies of all sections on group x, over all threads *)
  Definition bodies_on (x : group) (progs : list (list (group * prog))) : list prog :=
    flat_map (fun p => map snd (filter (fun s => Pos.eqb (fst s) x) p)) progs.

  (** the sections one after the other, each uninterrupted *)
  Definition serial (order : list prog) (s : T) : T := fold_left (fun s p => run_prog p s) order s.

  (** ** the same machine over ONE shared state (not a family of components):
      an action of a section on group x may touch anything.  Bodies are plain
      lists of actions (no local state).  Ghost (does not influence the run):
      [lt_full] the whole body of the current section, [gc_hold] the threads
      that are inside a section in the order in which they entered, [gc_log]
      the bodies of the finished sections in the order in which they finished. *)
  Definition body := list (T -> T).
  Definition run_body (b : body) (s : T) : T := fold_left (fun s f => f s) b s.

  Record lthread := mkLT {
    lt_thr : thread;
    lt_cur : body;             (* actions of the current section still to perform *)
    lt_full : body;            (* ghost *)
    lt_bodies : list body      (* bodies of the sections still to run *)
  }.
  Record gconfig := mkGC {
    gc_gm : gmutex;
    gc_thr : list lthread;
    gc_st : T;
    gc_hold : list nat;        (* ghost *)
    gc_log : list body         (* ghost *)
  }.

  Definition remove_nat (i : nat) (l : list nat) : list nat := filter (fun j => negb (Nat.eqb j i)) l.

  Definition gstep_thread (i : nat) (g : gmutex) (s : T) (hold : list nat) (lg : list body) (t : lthread)
    : gmutex * T * list nat * list body * lthread :=
    match t_pc (lt_thr t), lt_cur t with
    | PHold _, f :: r => (g, f s, hold, lg, mkLT (lt_thr t) r (lt_full t) (lt_bodies t))
    | pc0, _ =>
        let (g', t') := step_thread g (lt_thr t) in
        match pc0, t_pc t' with
        | PIdle, PWait _ =>
            (g', s, hold, lg, mkLT t' (hd [] (lt_bodies t)) (hd [] (lt_bodies t)) (tl (lt_bodies t)))
        | PWait _, PHold _ => (g', s, hold ++ [i], lg, mkLT t' (lt_cur t) (lt_full t) (lt_bodies t))
        | PHold _, PRel _ => (g', s, remove_nat i hold, lg ++ [lt_full t], mkLT t' (lt_cur t) (lt_full t) (lt_bodies t))
        | _, _ => (g', s, hold, lg, mkLT t' (lt_cur t) (lt_full t) (lt_bodies t))
        end
    end.
  Definition gstep (c : gconfig) (i : nat) : gconfig :=
    match nth_error (gc_thr c) i with
    | None => c
    | Some t =>
        let '(g', s', h', l', t') := gstep_thread i (gc_gm c) (gc_st c) (gc_hold c) (gc_log c) t in
        mkGC g' (upd i t' (gc_thr c)) s' h' l'
    end.
  Definition grun (sched : list nat) (c : gconfig) : gconfig := fold_left gstep sched c.
  Definition ginit (progs : list (list (group * body))) (s0 : T) : gconfig :=
    mkGC gm_empty (map (fun p => mkLT (mkT PIdle 1%positive (map fst p)) [] [] (map snd p)) progs) s0 [] [].
  Definition ldone (t : lthread) : Prop := done (lt_thr t).

  (** the bodies one after the other, each uninterrupted *)
  Definition serial_bodies (order : list body) (s : T) : T := fold_left (fun s b => run_body b s) order s.
End Sections.

Arguments prog : clear implicits.
Arguments sthread : clear implicits.
Arguments sconfig : clear implicits.
Arguments gconfig : clear implicits.
Arguments lthread : clear implicits.
Arguments body : clear implicits.
