(** The attempt loop of the scenario solver on top of the statement machine (property C13, solver level).

    pkg/scheduler/actions/common/solvers/by_pod_solver.go, [byPodSolver.solve]: one statement per
    scenario; the recorded victims (of the partial solutions found so far) are evicted first; then
    [solveOnPotentialNodes] tries the nodes of the latest potential victim job one at a time.  One
    per-node attempt is

        cp := statement.Checkpoint()                      (evictPotentialVictimsFromNode)
        evict every potential victim that touches the node
        simulate: try to place the pending job and the victims' jobs (runSimulation)
        success -> return the statement as the solution
        failure -> statement.Rollback(cp); next node

    and a scenario none of whose nodes succeeds ends in statement.Discard().

    [attempt]: the victims the attempt evicts and its simulation.  What the simulation does is
    decided by plugins, node order, predicates: it is an ORACLE here - a function from the session
    the simulation starts in to the placing commands it issues and whether it succeeded; the theorems
    quantify over all of them.  The simulation is represented by the commands it leaves in effect
    (Evict / Unevict / Pipeline / Allocate: [plain_cmd]); the what-ifs nested INSIDE one simulation
    (AllocateJob tries node sets under checkpoints of its own) are abandoned parts of the kind
    C13_erasure_open covers.

    [loop]: the commands the loop issues from session [s] (the run is followed, since checkpoint
    values are log lengths and the oracle reads the session), and the commands of the successful
    attempt alone (None: no attempt succeeded).
    [loop_late]: the same loop with the checkpoint taken AFTER the evictions of the attempt (the
    seeded change C13-4); NOT the code.  Used by the [_refuted] witness only. *)
From Coq Require Import List ZArith PArith Bool Arith.
From KaiV Require Import Model.Res Model.Status Model.AMap Model.Node Model.Session.
Import ListNotations.

Definition oracle := sess -> list cmd * bool.
Record attempt := mkAtt { at_victims : list positive; at_sim : oracle }.

Definition evictions (vs : list positive) : list cmd := map Evict vs.

Definition plain_cmd (c : cmd) : bool :=
  match c with
  | Evict _ | Unevict _ | Pipeline _ _ _ _ | Allocate _ _ _ => true
  | _ => false
  end.
(** every simulation issues placing commands only, whatever session it is started in *)
Definition plain_oracle (a : attempt) : Prop := forall s, forallb plain_cmd (fst (at_sim a s)) = true.

Fixpoint loop (fails : nat -> bool) (s : sess) (atts : list attempt) : list cmd * option (list cmd) :=
  match atts with
  | [] => ([], None)
  | a :: r =>
      let cp := length (s_log s) in
      let ev := evictions (at_victims a) in
      let s1 := run fails s ev in
      let '(sim, ok) := at_sim a s1 in
      if ok then (Checkpoint :: ev ++ sim, Some (ev ++ sim))
      else
        let s3 := fst (step fails (run fails s1 sim) (Rollback cp)) in
        let '(p, w) := loop fails s3 r in
        (Checkpoint :: ev ++ sim ++ Rollback cp :: p, w)
  end.

(** [byPodSolver.solve]: the recorded victims, the loop, Discard when nothing succeeded.
    (commands issued, commands of the solution alone) *)
Definition solve (fails : nat -> bool) (s : sess) (recorded : list positive) (atts : list attempt)
  : list cmd * option (list cmd) :=
  let pre := evictions recorded in
  let '(p, w) := loop fails (run fails s pre) atts in
  match w with
  | Some x => (pre ++ p, Some (pre ++ x))
  | None => (pre ++ p ++ [Discard], None)
  end.

(** the victims the solver reports for a solution: the recorded ones and those of the successful attempt *)
Fixpoint winner_victims (fails : nat -> bool) (s : sess) (atts : list attempt) : list positive :=
  match atts with
  | [] => []
  | a :: r =>
      let cp := length (s_log s) in
      let s1 := run fails s (evictions (at_victims a)) in
      let '(sim, ok) := at_sim a s1 in
      if ok then at_victims a
      else winner_victims fails (fst (step fails (run fails s1 sim) (Rollback cp))) r
  end.

(** * The loop with the checkpoint after the evictions (seeded change C13-4; not the code) *)
Fixpoint loop_late (fails : nat -> bool) (s : sess) (atts : list attempt) : list cmd * option (list cmd) :=
  match atts with
  | [] => ([], None)
  | a :: r =>
      let ev := evictions (at_victims a) in
      let s1 := run fails s ev in
      let cp := length (s_log s1) in
      let '(sim, ok) := at_sim a s1 in
      if ok then (ev ++ Checkpoint :: sim, Some (ev ++ sim))
      else
        let s3 := fst (step fails (run fails s1 sim) (Rollback cp)) in
        let '(p, w) := loop_late fails s3 r in
        (ev ++ Checkpoint :: sim ++ Rollback cp :: p, w)
  end.
Fixpoint winner_victims_late (fails : nat -> bool) (s : sess) (atts : list attempt) : list positive :=
  match atts with
  | [] => []
  | a :: r =>
      let s1 := run fails s (evictions (at_victims a)) in
      let cp := length (s_log s1) in
      let '(sim, ok) := at_sim a s1 in
      if ok then at_victims a
      else winner_victims_late fails (fst (step fails (run fails s1 sim) (Rollback cp))) r
  end.

(** pods for which a call list holds an Evict *)
Definition evicted_by (cs : list api_call) : list positive :=
  flat_map (fun c => match c with AEvict p => [p] | _ => [] end) cs.
(** pods with an evict entry in an operation log *)
Definition evict_entries (L : list op) : list positive :=
  flat_map (fun o => match o with OEvict p _ _ _ _ => [p] | _ => [] end) L.
