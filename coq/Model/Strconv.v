(** Model of Go's strconv.ParseUint(s,10,64) / ParseInt(s,10,64) and of the
    comparisons of an IEEE-754 double (given by its bit pattern) with 0 and 1.
    strconv.ParseFloat itself is an oracle (see Model/GpuRequest.v). *)
From Coq Require Import List ZArith NArith String Ascii Bool.
Import ListNotations.
Open Scope N_scope.

Definition digit (a : ascii) : option N :=
  let n := N_of_ascii a in
  if (48 <=? n) && (n <=? 57) then Some (n - 48) else None.

Fixpoint digits (s : string) (acc : N) : option N :=
  match s with
  | EmptyString => Some acc
  | String a r => match digit a with
                  | Some d => digits r (10 * acc + d)
                  | None => None
                  end
  end.

Definition two64 : N := 18446744073709551616.
Definition two63 : N := 9223372036854775808.

(** ParseUint(s, 10, 64): None = any error (syntax or range). *)
Definition parse_uint (s : string) : option N :=
  match s with
  | EmptyString => None
  | _ => match digits s 0 with
         | Some n => if n <? two64 then Some n else None
         | None => None
         end
  end.

(** ParseInt(s, 10, 64): None = any error. *)
Definition parse_int (s : string) : option Z :=
  match s with
  | EmptyString => None
  | String a r =>
      let '(neg, body) :=
        if N_of_ascii a =? 43 then (false, r)
        else if N_of_ascii a =? 45 then (true, r)
        else (false, s) in
      match body with
      | EmptyString => None
      | _ => match digits body 0 with
             | None => None
             | Some n =>
                 if neg then (if n <=? two63 then Some (- Z.of_N n)%Z else None)
                 else (if n <? two63 then Some (Z.of_N n) else None)
             end
      end
  end.

(** The value strconv.ParseInt(s, 10, 64) returns whether or not it also returns an
    error: 0 on a syntax error, the nearest bound on a range error.  (The
    scheduler keeps using the gpu-memory value it parsed when it builds a
    multi-fraction request, without looking at the error again.) *)
Definition parse_int_raw (s : string) : Z :=
  match s with
  | EmptyString => 0%Z
  | String a r =>
      let '(neg, body) :=
        if N_of_ascii a =? 43 then (false, r)
        else if N_of_ascii a =? 45 then (true, r)
        else (false, s) in
      match body with
      | EmptyString => 0%Z
      | _ => match digits body 0 with
             | None => 0%Z
             | Some n =>
                 if neg then (if n <=? two63 then (- Z.of_N n)%Z else (- Z.of_N two63)%Z)
                 else (if n <? two63 then Z.of_N n else (Z.of_N two63 - 1)%Z)
             end
      end
  end.

(** * Doubles by bit pattern.  Sign bit 63, exponent bits 52..62, mantissa 0..51. *)
Definition f_sign (b : N) : bool := N.testbit b 63.
Definition f_exp (b : N) : N := N.land (N.shiftr b 52) 2047.
Definition f_man (b : N) : N := N.land b 4503599627370495.
Definition f_abs (b : N) : N := N.land b 9223372036854775807.

Definition f_is_nan (b : N) : bool := (f_exp b =? 2047) && negb (f_man b =? 0).
Definition f_is_inf (b : N) : bool := (f_exp b =? 2047) && (f_man b =? 0).
Definition f_is_finite (b : N) : bool := negb (f_exp b =? 2047).
Definition f_is_zero (b : N) : bool := f_abs b =? 0.

Definition one_bits : N := 4607182418800017408. (* 0x3FF0000000000000 *)

(** [f > 0]: not NaN, sign clear, not zero. *)
Definition f_gt0 (b : N) : bool := negb (f_is_nan b) && negb (f_sign b) && negb (f_is_zero b).
(** [f <= 0]: not NaN and (zero or negative). *)
Definition f_le0 (b : N) : bool := negb (f_is_nan b) && (f_is_zero b || f_sign b).
(** [f >= 1]: not NaN, positive and bit pattern at least that of 1.0
    (for positive doubles the order of values is the order of bit patterns). *)
Definition f_ge1 (b : N) : bool := negb (f_is_nan b) && negb (f_sign b) && (one_bits <=? f_abs b).
Definition f_gt1 (b : N) : bool := negb (f_is_nan b) && negb (f_sign b) && (one_bits <? f_abs b).
Definition f_lt1 (b : N) : bool := negb (f_is_nan b) && (f_sign b || (f_abs b <? one_bits)).
