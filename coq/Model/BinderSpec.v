(** Declarative side of C11: what "bound with side objects in place", "unbound,
    reported, nothing left behind" and "no-op" mean on an API store.  Written
    against the store only (not against the control flow of the reconcile); the
    same boolean predicates are used by the theorems (on the model's final
    store) and by the monitor (on the real final store).  No proofs here. *)
From Coq Require Import List Arith Bool PeanoNat.
From KaiV Require Import Model.Binder.
Import ListNotations.

Definition opt_rtype_eqb (a b : option rtype) : bool :=
  match a, b with Some x, Some y => rtype_eqb x y | None, None => true | _, _ => false end.
Definition opt_bool_eqb (a b : option bool) : bool :=
  match a, b with Some x, Some y => Bool.eqb x y | None, None => true | _, _ => false end.

Fixpoint nodup_nat (l : list nat) : bool :=
  match l with
  | [] => true
  | x :: r => negb (mem_nat x r) && nodup_nat r
  end.

(** a request the scheduler can have written: a shared-GPU request names at
    least one group, no group twice, and more than one only for a multi-fraction pod *)
Definition wf_shape (sc : scen) : bool :=
  if sc_fraction sc then
    match sc_groups sc with
    | [] => false
    | [_] => true
    | _ => sc_multi sc
    end && nodup_nat (sc_groups sc)
  else true.

Definition bound (st : store) : bool := self_alive st && (p_node (self st) =? 1).
Definition unbound (st : store) : bool := self_alive st && (p_node (self st) =? 0).

(** device index of the (first) reservation pod of group [g] (a group is one physical GPU, hence one node) *)
Definition rsv_idx (g : gid) (st : store) : option nat :=
  match filter (fun p => p_rsv p && opt_nat_eqb (p_plain p) (Some g)) (others st) with
  | p :: _ => p_idx p
  | [] => None
  end.

Fixpoint all_idx (gs : list gid) (st : store) : option (list nat) :=
  match gs with
  | [] => Some []
  | g :: r =>
      match rsv_idx g st, all_idx r st with
      | Some i, Some l => Some (i :: l)
      | _, _ => None
      end
  end.

Definition labels_ok (sc : scen) (p : pod) : bool :=
  if sc_multi sc then forallb (fun g => mem_nat g (p_multi p)) (sc_groups sc)
  else match sc_groups sc with
       | [g] => opt_nat_eqb (p_plain p) (Some g)
       | _ => false
       end.

Definition cm_value (x : cmref) (k : envkey) (st : store) : option cval :=
  match cm_get x st with
  | Some v => data_get k (cm_data v)
  | None => None
  end.

(** the side objects of a bound pod: received-type annotation; for a shared-GPU
    request also the GPU-group labels, an annotated reservation pod per group on
    the node, both config maps, the visible devices (= the reserved devices, in
    group order) and the portion *)
Definition side_ok (sc : scen) (st : store) : bool :=
  opt_rtype_eqb (p_recv (self st)) (Some (recv_type sc)) &&
  (if sc_fraction sc then
     labels_ok sc (self st) &&
     match all_idx (sc_groups sc) st with
     | Some idxs =>
         opt_is_some (cm_cap st) && opt_is_some (cm_evar st) &&
         opt_cval_eqb (cm_value (if sc_vis_in_spec sc then CmCap else CmEvar) EVisible st) (Some (VList idxs)) &&
         opt_cval_eqb (cm_value CmCap EPortion st) (Some VPortion) &&
         opt_cval_eqb (cm_value CmCap ENumGpusBC st) (Some VPortion)
     | None => false
     end
   else true).

(** the side objects that sit on the pod itself: the received-type annotation and, for a shared-GPU
    request, the GPU-group labels of all its groups *)
Definition pod_side_ok (sc : scen) (p : pod) : bool :=
  opt_rtype_eqb (p_recv p) (Some (recv_type sc)) && (if sc_fraction sc then labels_ok sc p else true).

(** leftovers of an attempt that no later sync removes: GPU-group labels on the
    consumer and config maps that were not there before.  (Reservation pods
    without a labelled Pending/Running consumer are deleted by the next
    SyncForGpuGroup / SyncForNode by construction; a labelled consumer pins them.) *)
Definition new_plain (init fin : pod) : bool :=
  match p_plain fin with
  | Some g => negb (opt_nat_eqb (p_plain init) (Some g))
  | None => false
  end.
Definition new_multi (init fin : pod) : list gid :=
  filter (fun g => negb (mem_nat g (p_multi init))) (p_multi fin).
Definition new_cms (init fin : store) : list cmref :=
  filter (fun x => opt_is_some (cm_get x fin) && negb (opt_is_some (cm_get x init))) [CmCap; CmEvar].
Definition clean (init fin : store) : bool :=
  negb (new_plain (self init) (self fin)) &&
  match new_multi (self init) (self fin) with [] => true | _ => false end &&
  match new_cms init fin with [] => true | _ => false end.

(** the failure is visible to whoever retries: the request is Failed (or gone),
    or the reconcile returned an error (requeue), or the binder crashed *)
Definition reported (fin : store) (crashed returned_err : bool) : bool :=
  match br fin with
  | Some b => brphase_eqb (b_phase b) BFailed
  | None => true
  end || crashed || returned_err.

(** ... or the binder did nothing at all: the Get of the request was the only call
    of the reconcile (it was answered NotFound: "BindRequest not found, probably
    deleted" - the request stays as it is for the next event) *)
Definition nothing_done (log : list (cobs * outcome)) : bool :=
  match log with [(CGetBR, _)] => true | _ => false end.

(** the request is (still / now) Succeeded *)
Definition br_succeeded (st : store) : bool :=
  match br st with Some b => brphase_eqb (b_phase b) BSucceeded | None => false end.

(** ** Concurrent actors *)
Definition estep_eqb (a b : estep) : bool :=
  match a, b with
  | EvBindElsewhere, EvBindElsewhere | EvTerminate, EvTerminate | EvRemove, EvRemove
  | EvRecreate, EvRecreate | EvDeleteBR, EvDeleteBR => true
  | EvDeleteRsv x, EvDeleteRsv y => x =? y
  | _, _ => false
  end.
(** nobody else touches the store during the reconcile *)
Definition env_quiet (env : nat -> list estep) : Prop := forall k, env k = [].
(** nobody binds the pod before the reconciler has read it (calls 0 and 1 are the
    Gets of the request and of the pod): the reconciler reads it as unbound - the
    other case is the "pod already bound" no-op of [C11_noop_bound] *)
Definition read_unbound (env : nat -> list estep) : Prop :=
  forall k, k <= 1 -> ~ In EvBindElsewhere (env k).
(** the consumer the request was written for is still the one in the store *)
Definition same_pod (init fin : store) : Prop :=
  self_alive fin = true /\ p_uid (self fin) = p_uid (self init).

(** nothing between "Rollback begins" and "Rollback ends" was hit by an injected fault *)
Definition cleanup_unfaulted (s : state) : bool :=
  match s_mark s, s_mark_end s with
  | Some (_, a), Some b => a =? b
  | None, _ => true
  | Some _, None => false
  end.

(** same binding state: everything but the request status and the PodBound condition *)
Definition pod_same_binding (a b : pod) : bool :=
  (p_name a =? p_name b) && Bool.eqb (p_rsv a) (p_rsv b) && (p_node a =? p_node b) &&
  pphase_eqb (p_phase a) (p_phase b) && opt_nat_eqb (p_plain a) (p_plain b) &&
  list_nat_eqb (p_multi a) (p_multi b) && opt_nat_eqb (p_idx a) (p_idx b) &&
  opt_rtype_eqb (p_recv a) (p_recv b) && (p_uid a =? p_uid b) && Bool.eqb (p_term a) (p_term b).
Definition pod_eqb (a b : pod) : bool := pod_same_binding a b && opt_bool_eqb (p_cond a) (p_cond b).

Fixpoint list_eqb {A} (e : A -> A -> bool) (a b : list A) : bool :=
  match a, b with
  | [], [] => true
  | x :: r, y :: s => e x y && list_eqb e r s
  | _, _ => false
  end.
Definition data_eqb (a b : cdata) : bool :=
  opt_cval_eqb (d_num a) (d_num b) && opt_cval_eqb (d_portion a) (d_portion b) &&
  opt_cval_eqb (d_vis a) (d_vis b) && opt_cval_eqb (d_visbc a) (d_visbc b).
Definition cm_eqb (a b : option cm) : bool :=
  match a, b with
  | Some x, Some y => (cm_owner x =? cm_owner y) && data_eqb (cm_data x) (cm_data y)
  | None, None => true
  | _, _ => false
  end.
Definition br_eqb (a b : option brst) : bool :=
  match a, b with
  | Some x, Some y => brphase_eqb (b_phase x) (b_phase y) && (b_attempts x =? b_attempts y)
  | None, None => true
  | _, _ => false
  end.

Definition same_binding_state (a b : store) : bool :=
  pod_same_binding (self a) (self b) && Bool.eqb (self_alive a) (self_alive b) &&
  list_eqb pod_eqb (others a) (others b) && cm_eqb (cm_cap a) (cm_cap b) && cm_eqb (cm_evar a) (cm_evar b) &&
  Bool.eqb (node_ok a) (node_ok b).
Definition store_eqb (a b : store) : bool :=
  same_binding_state a b && opt_bool_eqb (p_cond (self a)) (p_cond (self b)) && br_eqb (br a) (br b).

(** the environment catching up between two attempts: a reservation pod that
    was created but whose device index was not waited for reports it by itself *)
Definition env_annotate (f : nat -> nat) (st : store) : store :=
  set_others st (map (fun p => if p_rsv p && negb (opt_is_some (p_idx p)) then with_idx p (Some (f (p_name p))) else p)
                     (others st)).

(** successful pods/binding calls in a log *)
Definition is_bind_ok (e : cobs * outcome) : bool :=
  match e with (CBind _, OkO) => true | _ => false end.
Definition binds (log : list (cobs * outcome)) : nat := length (filter is_bind_ok log).
Definition is_bind_elsewhere (e : cobs * outcome) : bool :=
  match e with (CBind false, _) => true | _ => false end.

(** ** Hypotheses of the theorems (Prop level) *)

(** the consumer as the binder finds it: an existing, unbound, Pending pod that is not being deleted, with a
    request that has not Succeeded; no other pod shares its name *)
Definition init_ok (st : store) : Prop :=
  self_alive st = true /\ p_name (self st) = 0 /\ p_rsv (self st) = false /\ p_phase (self st) = PhPending
  /\ p_term (self st) = false
  /\ p_node (self st) = 0 /\ Forall (fun p => p_name p <> 0) (others st)
  /\ exists b, br st = Some b /\ b_phase b <> BSucceeded.

(** the static oracles allow a fault-free attempt to succeed: the upstream
    (volume / DRA) pre-bind succeeds; a shared-GPU pod carries the config-map
    annotation and the request names a group *)
Definition attemptable_sc (sc : scen) : Prop :=
  sc_k8s_ok sc = true /\ (sc_fraction sc = true -> sc_cmann sc = true /\ sc_groups sc <> []).

(** the consumer is the only non-reservation pod; reservation pods carry their conventional names *)
Definition rsv_only (st : store) : Prop := Forall (fun p => p_rsv p = true) (others st).
Definition names_ok (st : store) : Prop :=
  Forall (fun p => forall g, p_name p = rsv_name g -> p_plain p = Some g) (others st).
Definition SH (st : store) : Prop := rsv_only st /\ names_ok st.

(** nothing but the request status and the PodBound condition differs *)
Definition bc_frame (st st' : store) : Prop :=
  with_cond (self st') None = with_cond (self st) None /\ self_alive st' = self_alive st
  /\ others st' = others st /\ cm_cap st' = cm_cap st /\ cm_evar st' = cm_evar st
  /\ node_ok st' = node_ok st.
