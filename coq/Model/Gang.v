(** Model of the gang bookkeeping of a pod group (property C03):
      pkg/scheduler/api/podgroup_info/allocation_info.go
        GetTasksToAllocate, getNumTasksToAllocate, getMaxNumSubGroupsToAllocate
      pkg/scheduler/api/podgroup_info/eviction_info.go
        GetTasksToEvict, getNumOfSubGroupsToEvict, getMaxTasksToEvict
      pkg/scheduler/api/podgroup_info/job_info.go
        IsReadyForScheduling, IsGangSatisfied, ShouldPipelineJob
      pkg/scheduler/api/podgroup_info/subgroup_info/podset.go (counters)
    at the level of counts per pod set.  The order in which pod sets and tasks
    are popped (PodSetOrderFn / TaskOrderFn) is an oracle: pod sets are given as
    a list in pop order; which tasks are taken within a pod set does not matter
    for counts. *)
From Coq Require Import List ZArith PArith Bool.
From KaiV Require Import Model.Status.
Import ListNotations.
Open Scope Z_scope.

Record ptask := mkPT { pt_id : positive; pt_status : status; pt_virtual : bool }.
Record pset := mkPS { ps_id : positive; ps_min : Z; ps_tasks : list ptask }.

Definition countb {A} (p : A -> bool) (l : list A) : Z := Z.of_nat (List.length (filter p l)).

Definition n_active_alloc (ps : pset) : Z := countb (fun t => active_allocated (pt_status t)) (ps_tasks ps).
Definition n_active_used (ps : pset) : Z := countb (fun t => active_used (pt_status t)) (ps_tasks ps).
Definition n_alive (ps : pset) : Z := countb (fun t => alive (pt_status t)) (ps_tasks ps).
Definition n_gated (ps : pset) : Z := countb (fun t => status_eqb (pt_status t) Gated) (ps_tasks ps).

(** PodInfo.ShouldAllocate *)
Definition should_allocate (real : bool) (t : ptask) : bool :=
  status_eqb (pt_status t) Pending
  || (negb real && status_eqb (pt_status t) Releasing && pt_virtual t).
Definition n_allocatable (real : bool) (ps : pset) : Z := countb (should_allocate real) (ps_tasks ps).

Definition ready (ps : pset) : bool := ps_min ps <=? n_alive ps - n_gated ps.
Definition gang_satisfied (ps : pset) : bool := ps_min ps <=? n_active_used ps.

(** getNumTasksToAllocate *)
Definition num_to_allocate (real : bool) (ps : pset) : Z :=
  if ps_min ps <=? n_active_alloc ps then Z.min (n_allocatable real ps) 1
  else ps_min ps - n_active_alloc ps.

(** getMaxNumSubGroupsToAllocate *)
Definition max_sets_to_allocate (pss : list pset) : Z :=
  let unsat := countb (fun ps => n_active_alloc ps <? ps_min ps) pss in
  if 0 <? unsat then unsat else 1.

(** GetTasksToAllocate: (pod set, number of tasks taken), pod sets in pop order *)
Fixpoint tasks_to_allocate_go (real : bool) (budget : Z) (pss : list pset) : list (positive * Z) :=
  match pss with
  | [] => []
  | ps :: r =>
      if budget <=? 0 then []
      else if n_allocatable real ps =? 0 then tasks_to_allocate_go real budget r
      else (ps_id ps, Z.min (num_to_allocate real ps) (n_allocatable real ps))
             :: tasks_to_allocate_go real (budget - 1) r
  end.
Definition tasks_to_allocate (real : bool) (pss : list pset) : list (positive * Z) :=
  tasks_to_allocate_go real (max_sets_to_allocate pss) pss.

(** getNumOfSubGroupsToEvict *)
Definition sets_to_evict (pss : list pset) : Z :=
  if existsb (fun ps => ps_min ps <? n_active_alloc ps) pss then 1 else Z.of_nat (List.length pss).
(** getMaxTasksToEvict *)
Definition max_to_evict (ps : pset) : Z :=
  if ps_min ps <? n_active_alloc ps then 1 else n_active_alloc ps.

(** GetTasksToEvict: (pod set, number of tasks evicted), pod sets in (reverse-order) pop order *)
Fixpoint tasks_to_evict_go (budget : Z) (pss : list pset) : list (positive * Z) :=
  match pss with
  | [] => []
  | ps :: r =>
      if budget <=? 0 then []
      else (ps_id ps, max_to_evict ps) :: tasks_to_evict_go (budget - 1) r
  end.
Definition tasks_to_evict (pss : list pset) : list (positive * Z) := tasks_to_evict_go (sets_to_evict pss) pss.
Definition evict_has_more (pss : list pset) : bool :=
  fold_right Z.add 0 (map snd (tasks_to_evict pss)) <? fold_right Z.add 0 (map n_active_alloc pss).

(** ShouldPipelineJob *)
Definition should_pipeline (pss : list pset) : bool :=
  existsb (fun ps =>
             existsb (fun t => status_eqb (pt_status t) Pipelined) (ps_tasks ps)
             && (countb (fun t => negb (status_eqb (pt_status t) Pipelined) && active_allocated (pt_status t)) (ps_tasks ps)
                 <? ps_min ps)) pss.
