(** Session level of C07: several reclaims are committed one after the other in ONE
    scheduling session (pkg/scheduler/actions/reclaim/reclaim.go, Execute: for every pending
    job  CanReclaimResources -> OnJobSolutionStart -> solver -> validator -> Commit).
    Modelled here:
    - proportion.go, OnJobSolutionStartFn: the validator's input [jobSimulationQueues] is a
      clone of the plugin's queue map taken when THIS job starts to be solved, i.e. the state
      produced by all earlier commits ([accepted_on_current]);
    - proportion.go, allocateHandlerFn / deallocateHandlerFn as they act on a committed
      statement: every victim's resources leave [Allocated] of its queue and of every
      ancestor, the reclaimer's resources enter [Allocated] (and [AllocatedNotPreemptible]
      when the reclaimer is not preemptible) of its queue and of every ancestor
      ([apply_commit]).  Victims of reclaim are preemptible jobs (reclaim.go,
      getOrderedVictimsQueue: FilterNonPreemptible), so they never change
      [AllocatedNotPreemptible].
    - what the session looks like when the validator input is NOT refreshed per job
      ([accepted_on_stale]: the gate CanReclaimResources reads the live map, the validator a
      fixed earlier clone); used only for the refutation witness.
    Deserved quota, fair share, limits and the tree do not change during a session.
    Left out: the solver (which victims are proposed), the allocate action. *)
From Coq Require Import List ZArith QArith Bool.
From KaiV Require Import Model.Reclaim Model.ReclaimSpec.
Import ListNotations.
Open Scope Q_scope.

(** one committed reclaim statement *)
Record commit := { c_rc : reclaimer; c_victims : list (qid * list res) }.

Definition set_alloc (s : rshare) (a np : Q) : rshare :=
  {| s_deserved := s_deserved s; s_fair := s_fair s; s_max := s_max s; s_alloc := a; s_allocnp := np |}.

Definition set_queue_alloc (q : queue) (a np : vec) : queue :=
  {| q_id := q_id q; q_parent := q_parent q;
     q_cpu := set_alloc (q_cpu q) (v_cpu a) (v_cpu np);
     q_mem := set_alloc (q_mem q) (v_mem a) (v_mem np);
     q_gpu := set_alloc (q_gpu q) (v_gpu a) (v_gpu np) |}.

(** what queue [id], holding [h], still holds once the victims [done] have been taken: each
    victim is charged to its own queue and to every ancestor ([rem_before] with an explicit
    starting point) *)
Definition take (qs : list queue) (done : list (qid * res)) (id : qid) (h : vec) : vec :=
  fold_left (fun acc kv => if on_chain qs (fst kv) id then vsub acc (quantify (snd kv)) else acc) done h.

(** ... and once the whole commit is through: the reclaimer is charged to its queue and to
    every ancestor *)
Definition give (qs : list queue) (c : commit) (id : qid) (h : vec) : vec :=
  let h1 := take qs (flatten (c_victims c)) id h in
  if on_chain qs (rc_queue (c_rc c)) id then vadd h1 (quantify (rc_res (c_rc c))) else h1.

Definition give_np (qs : list queue) (c : commit) (id : qid) (h : vec) : vec :=
  if negb (rc_preemptible (c_rc c)) && on_chain qs (rc_queue (c_rc c)) id
  then vadd h (quantify (rc_res (c_rc c))) else h.

(** the plugin's queue map after the statement has been committed *)
Definition apply_commit (qs : list queue) (c : commit) : list queue :=
  map (fun q => set_queue_alloc q (give qs c (q_id q) (alloc_vec q))
                                  (give_np qs c (q_id q) (allocnp_vec q))) qs.

Definition run (qs : list queue) (cs : list commit) : list queue := fold_left apply_commit cs qs.

(** Declarative side: what queue [id] holds after the commits [cs], told from the initial
    holding [h0] and the history alone (no intermediate queue maps). *)
Definition holding (qs0 : list queue) (cs : list commit) (id : qid) (h0 : vec) : vec :=
  fold_left (fun h c => give qs0 c id h) cs h0.
Definition holding_np (qs0 : list queue) (cs : list commit) (id : qid) (h0 : vec) : vec :=
  fold_left (fun h c => give_np qs0 c id h) cs h0.

(** The session as the code runs it: every gate and every validator verdict is computed on
    the CURRENT state, the one produced by the commits before it. *)
Fixpoint accepted_on_current (m : Q) (qs : list queue) (cs : list commit) : Prop :=
  match cs with
  | [] => True
  | c :: r => can_reclaim qs (c_rc c) = Ok true
              /\ reclaimable m qs (c_rc c) (c_victims c) = Ok true
              /\ accepted_on_current m (apply_commit qs c) r
  end.

Definition is_ok_true (r : result bool) : bool := match r with Ok true => true | _ => false end.

Fixpoint accepted_on_currentb (m : Q) (qs : list queue) (cs : list commit) : bool :=
  match cs with
  | [] => true
  | c :: r => is_ok_true (can_reclaim qs (c_rc c))
              && is_ok_true (reclaimable m qs (c_rc c) (c_victims c))
              && accepted_on_currentb m (apply_commit qs c) r
  end.

(** The session with a validator input that is not refreshed: the gate reads the live map,
    the validator the clone [stale] made for an earlier job. *)
Fixpoint accepted_on_stale (m : Q) (live stale : list queue) (cs : list commit) : Prop :=
  match cs with
  | [] => True
  | c :: r => can_reclaim live (c_rc c) = Ok true
              /\ reclaimable m stale (c_rc c) (c_victims c) = Ok true
              /\ accepted_on_stale m (apply_commit live c) stale r
  end.

Fixpoint accepted_on_staleb (m : Q) (live stale : list queue) (cs : list commit) : bool :=
  match cs with
  | [] => true
  | c :: r => is_ok_true (can_reclaim live (c_rc c))
              && is_ok_true (reclaimable m stale (c_rc c) (c_victims c))
              && accepted_on_staleb m (apply_commit live c) stale r
  end.
