(** Model of the three readers of a pod's GPU request (property C19):
    - admission / binder validation:
        pkg/admission/webhook/v1alpha2/gpusharing.(GPUSharing).Validate
        pkg/binder/plugins/gpusharing/gpu-request.ValidateGpuRequests
    - the scheduler's interpretation:
        pkg/scheduler/api/pod_info.NewTaskInfo (getPodResourceRequest +
        updatePodAdditionalFields), resource_info.RequirementsFromResourceList
    - admission's mutation: gpusharing.(GPUSharing).Mutate
    strconv.ParseFloat is an oracle [pf]: all three components call the same
    function on the same string, so the theorems quantify over every oracle.
    Not modelled: DRA claims, legacy MIG annotations, non-integer GPU
    quantities in container resources, AMD GPUs. *)
From Coq Require Import List ZArith NArith String Ascii Bool.
From KaiV Require Import Model.Strconv.
Import ListNotations.
Open Scope Z_scope.

Record container := {
  c_name : string;
  c_gpu_req : option Z;   (* resources.requests["nvidia.com/gpu"], integer *)
  c_gpu_lim : option Z;   (* resources.limits["nvidia.com/gpu"] *)
  c_env : list (string * string);  (* env var name, referenced config map *)
  c_envfrom : list string;         (* envFrom config-map names *)
}.

Record gpod := {
  a_fraction : option string;  (* annotation gpu-fraction *)
  a_memory : option string;    (* annotation gpu-memory *)
  a_numdev : option string;    (* annotation gpu-fraction-num-devices *)
  a_mps : option string;       (* annotation mps *)
  a_cname : option string;     (* annotation gpu-fraction-container-name *)
  a_cm : option string;        (* annotation runai/shared-gpu-configmap *)
  p_name : string;             (* base name used for a fresh config-map prefix *)
  containers : list container;
  inits : list container;
  volumes : list (string * string);   (* volume name, config map *)
}.

(** What strconv.ParseFloat(s, 64) returned: bit pattern and "err != nil". *)
Record pfres := { pf_bits : N; pf_err : bool }.

Definition oget (o : option string) : string :=
  match o with Some s => s | None => EmptyString end.
Definition isSome {A} (o : option A) : bool := match o with Some _ => true | None => false end.

(** * Validation (admission webhook and binder share this code) *)

Definition first_gpu_limit (p : gpod) : bool :=
  existsb (fun c => isSome (c_gpu_lim c)) (containers p ++ inits p).

Definition requests_gpu_fraction (p : gpod) : bool :=
  isSome (a_fraction p) || isSome (a_memory p).

Definition valid_memory (p : gpod) : bool :=
  match a_memory p with
  | None => true
  | Some s => match parse_int s with
              | Some n => 0 <? n
              | None => false
              end
  end.

Definition valid_fraction (pf : string -> pfres) (p : gpod) : bool :=
  match a_fraction p with
  | None => true
  | Some s => let r := pf s in
              negb (pf_err r) && f_gt0 (pf_bits r) && f_lt1 (pf_bits r)
  end.

Definition valid_numdev (p : gpod) : bool :=
  match a_numdev p with
  | None => true
  | Some s => match parse_int s with
              | Some n => 0 <? n
              | None => false
              end
  end.

Definition validate_gpu_requests (pf : string -> pfres) (p : gpod) : bool :=
  let hasF := isSome (a_fraction p) in
  let hasM := isSome (a_memory p) in
  let hasN := isSome (a_numdev p) in
  let whole := first_gpu_limit p in
  let isFrac := hasF || hasM in
  if negb isFrac && (match a_mps p with Some s => String.eqb s "true" | None => false end) then false
  else if hasF && whole then false
  else if hasM && (hasF || whole) then false
  else if hasN && negb (hasF || hasM) then false
  else valid_memory p && valid_fraction pf p && valid_numdev p.

(** [true] = accepted. *)
Definition admission_validate (sharing_enabled : bool) (pf : string -> pfres) (p : gpod) : bool :=
  if negb sharing_enabled && requests_gpu_fraction p then false
  else validate_gpu_requests pf p.

(** * Scheduler interpretation *)

Inductive rtype := Regular | Fraction | GpuMemory.

Record greq := {
  g_type : rtype;
  g_count : Z;
  g_portion : N;      (* bit pattern of the float64 portion *)
  g_memory : Z;
}.

Definition zero_bits : N := 0%N.

(** RequirementsFromResourceList restricted to the GPU key, integer values:
    (count, portion-is-one). [None] = no GPU key present. *)
Definition gpu_from_list (v : option Z) : Z * bool :=
  match v with
  | None => (0, false)
  | Some q => if 1 <=? q then (q, true) else (1, false)
  end.

Definition sum_gpu_requests (cs : list container) : option Z :=
  fold_left (fun acc c =>
               match c_gpu_req c with
               | None => acc
               | Some q => Some (match acc with Some a => a + q | None => q end)
               end) cs None.

(** getExtendedResourceGpus on portion in {0,1}. *)
Definition ext_gpus (cp : Z * bool) : Z := if snd cp then fst cp else 0.

(** SetMaxResource on the GPU part (portions are 0 or 1, so the
    "different fractional portions" error can only arise when both are
    non-zero and differ, which cannot happen here). *)
Definition set_max (g gg : Z * bool) : Z * bool :=
  if ext_gpus g <? ext_gpus gg then gg else g.

Definition init_gpu (p : gpod) : Z * bool :=
  fold_left (fun g c => set_max g (gpu_from_list (c_gpu_req c)))
            (inits p) (gpu_from_list (sum_gpu_requests (containers p))).

Definition scheduler_interpret (pf : string -> pfres) (p : gpod) : greq :=
  let g0 := init_gpu p in
  let r0 := {| g_type := Regular; g_count := fst g0;
               g_portion := if snd g0 then one_bits else zero_bits; g_memory := 0 |} in
  (* gpu-memory *)
  let mem := parse_int (oget (a_memory p)) in
  let memv := parse_int_raw (oget (a_memory p)) in
  let r1 := match mem with
            | Some n => if 0 <? n
                        then {| g_type := GpuMemory; g_count := 1; g_portion := zero_bits; g_memory := n |}
                        else r0
            | None => r0
            end in
  (* gpu-fraction *)
  let fr := pf (oget (a_fraction p)) in
  let fb := pf_bits fr in
  let r2 := if negb (f_le0 fb || f_gt1 fb || pf_err fr)
            then (if f_ge1 fb
                  then {| g_type := Fraction; g_count := 1; g_portion := one_bits; g_memory := 0 |}
                  else {| g_type := Fraction;
                          g_count := if f_gt0 fb then 1 else 0;
                          g_portion := fb; g_memory := 0 |})
            else r1 in
  (* multi fraction *)
  match g_type r2 with
  | Regular => r2
  | _ => match a_numdev p with
         | Some s => if String.eqb s "" then r2
                     else match parse_int s with
                          | Some n => {| g_type := g_type r2; g_count := n;
                                         g_portion := fb; g_memory := memv |}
                          | None => r2
                          end
         | None => r2
         end
  end.

(** * Mutation *)

Definition nvidia_visible_devices : string := "NVIDIA_VISIBLE_DEVICES".
Definition runai_num_of_gpus : string := "RUNAI_NUM_OF_GPUS".
Definition gpu_portion_env : string := "GPU_PORTION".

Inductive ctype := RegularC | InitC.

Fixpoint find_container (name : string) (cs : list container) (i : nat) : option nat :=
  match cs with
  | [] => None
  | c :: r => if String.eqb (c_name c) name then Some i else find_container name r (S i)
  end.

(** GetFractionContainerRef: None = error (named container not found). *)
Definition fraction_container_ref (p : gpod) : option (ctype * nat) :=
  match a_cname p with
  | None => Some (RegularC, 0%nat)
  | Some name =>
      match find_container name (inits p) 0 with
      | Some i => Some (InitC, i)
      | None => match find_container name (containers p) 0 with
                | Some i => Some (RegularC, i)
                | None => None
                end
      end
  end.

Definition add_env (env : list (string * string)) (name cm : string) : list (string * string) :=
  filter (fun e => negb (String.eqb (fst e) name)) env ++ [(name, cm)].

Definition mutate_container (c : container) (cap evar : string) : container :=
  let e1 := add_env (c_env c) nvidia_visible_devices cap in
  let e2 := add_env e1 runai_num_of_gpus cap in
  let e3 := add_env e2 gpu_portion_env cap in
  {| c_name := c_name c; c_gpu_req := c_gpu_req c; c_gpu_lim := c_gpu_lim c;
     c_env := e3;
     c_envfrom := if existsb (String.eqb evar) (c_envfrom c) then c_envfrom c
                  else c_envfrom c ++ [evar] |}.

Fixpoint update_nth {A} (n : nat) (f : A -> A) (l : list A) : list A :=
  match l, n with
  | [], _ => []
  | x :: r, O => f x :: r
  | x :: r, S k => x :: update_nth k f r
  end.

(** [idx_str] renders the container index ("0", "i1", ...) — an injective
    rendering supplied by the caller (strconv.Itoa); [fresh] is the prefix
    generateConfigMapNamePrefix would produce (it contains random characters). *)
Definition mutate (idx_str : ctype -> nat -> string) (fresh : string) (p : gpod) : gpod :=
  match containers p with
  | [] => p
  | _ =>
    if negb (requests_gpu_fraction p) then p else
    match fraction_container_ref p with
    | None => p
    | Some (ty, i) =>
        let prefix := match a_cm p with Some s => s | None => fresh end in
        let cap := (prefix ++ "-" ++ idx_str ty i)%string in
        let evar := (cap ++ "-evar")%string in
        let vol := (cap ++ "-vol")%string in
        let f := fun c => mutate_container c cap evar in
        {| a_fraction := a_fraction p; a_memory := a_memory p; a_numdev := a_numdev p;
           a_mps := a_mps p; a_cname := a_cname p;
           a_cm := Some prefix;
           p_name := p_name p;
           containers := match ty with RegularC => update_nth i f (containers p) | InitC => containers p end;
           inits := match ty with InitC => update_nth i f (inits p) | RegularC => inits p end;
           volumes := filter (fun v => negb (String.eqb (fst v) vol)) (volumes p) ++ [(vol, cap)] |}
    end
  end.

(** * The life of a pod object at the API server: a creation followed by updates.
    Every write goes through the validating webhook (podValidator.ValidateCreate /
    ValidateUpdate run the same plugin validation on the NEW object, whatever the
    old one was); a refused write leaves the stored object as it was.  The
    scheduler reads the stored object at every snapshot. *)
Definition write (en : bool) (pf : string -> pfres) (stored : option gpod) (new : gpod) : option gpod :=
  if admission_validate en pf new then Some new else stored.
Definition stored_after (en : bool) (pf : string -> pfres) (writes : list gpod) : option gpod :=
  fold_left (write en pf) writes None.
(** the variant that skips validation for an update that leaves the (non-annotation) spec alone:
    NOT the code; the witness of Properties/C19.v uses it *)
Fixpoint strs_eqb (a b : list string) : bool :=
  match a, b with
  | [], [] => true
  | x :: r, y :: r' => String.eqb x y && strs_eqb r r'
  | _, _ => false
  end.
Definition same_spec (a b : gpod) : bool :=
  strs_eqb (map c_name (containers a)) (map c_name (containers b))
  && strs_eqb (map c_name (inits a)) (map c_name (inits b)).
Definition write_skipping_unchanged_spec (en : bool) (pf : string -> pfres) (stored : option gpod) (new : gpod) : option gpod :=
  match stored with
  | Some old => if same_spec old new then Some new else write en pf stored new
  | None => write en pf stored new
  end.
