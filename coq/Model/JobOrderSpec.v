(** Declarative side of C16: what "priority, then FIFO" demands, written
    independently of the heap and of the queue tree.

    - [ideal_push]/[ideal_pop]: a bounded priority set that keeps the [depth] best
      elements (drops the worst one on overflow) and pops a least element. The
      monitors compare the real pops with it.
    - [d_best]: the [depth] smallest elements of everything pushed so far;
      [pq_push_all]: the model's queue after a sequence of pushes.
    - [C16_decision_stmt depth]: the decision-level statement for the allocate
      loop of Model/JobOrder.v with [MaxJobsQueueDepth = depth];
      [C16_decision_stmt_any_repush] is the same statement without the hypotheses
      that tie a re-pushed job to the job that was popped. *)
From Coq Require Import List ZArith Bool.
From KaiV Require Import Model.JobOrder.
Import ListNotations.
Open Scope Z_scope.

Section Ideal.
  Context {A : Type}.
  Variable less : A -> A -> bool.

  (** insertion into a list kept sorted by [less] (stable: after its equals) *)
  Fixpoint insert_sorted (x : A) (l : list A) : list A :=
    match l with
    | [] => [x]
    | y :: r => if less x y then x :: l else y :: insert_sorted x r
    end.

  (** keep the [depth] best; [-1] = unlimited *)
  Definition ideal_push (depth : Z) (l : list A) (x : A) : list A :=
    let l1 := insert_sorted x l in
    if depth =? -1 then l1 else firstn (Z.to_nat depth) l1.

  Definition ideal_pop (l : list A) : option A * list A :=
    match l with
    | [] => (None, [])
    | x :: r => (Some x, r)
    end.

  (** insertion sort of everything pushed, and its [depth] first elements *)
  Definition sort_by (xs : list A) : list A := fold_left (fun acc x => insert_sorted x acc) xs [].
  Definition d_best (depth : Z) (xs : list A) : list A :=
    if depth =? -1 then sort_by xs else firstn (Z.to_nat depth) (sort_by xs).

  (** the real queue (model of PriorityQueue.Push) after pushing [xs] in this order *)
  Fixpoint pq_push_all (depth : Z) (l : list A) (xs : list A) : res (list A) :=
    match xs with
    | [] => Ok l
    | x :: r => l' <- pq_push less depth l x ;; pq_push_all depth l' r
    end.

  (** [less] is total on the elements of [xs] (no two different elements tie) *)
  Definition total_on (xs : list A) : Prop :=
    forall a b, In a xs -> In b xs -> a = b \/ less a b = true \/ less b a = true.
End Ideal.

(** The decision-level statement. [attempt] is the placement oracle over an
    abstract remaining capacity ordered by [cle]; capacity only shrinks during the
    action; [a] and [b] are two jobs of one leaf queue for which "fits" is the same
    monotone predicate of the remaining capacity (identical template, gang shape and
    preemptibility), and the comparator chain puts [a] first (higher priority, or
    equal priority and older). If the action completes and places [b], it places [a].

    [a] and [b] are pending jobs of the snapshot ([jobs], distinct UIDs). The job
    that allocate.Execute pushes back when tasks remain is the popped
    *PodGroupInfo itself, so [repush_same_job]: it keeps queue and UID (its
    priority, creation time and elastic state may be anything). With a finite depth
    these hypotheses are needed: an oracle that re-pushes a foreign job can fill a
    queue with jobs that never were pending ([C16_decision_stmt_any_repush] is
    refuted for depth 1 in Properties/C16.v); with unlimited depth they are not. *)
Definition fits {C : Type} (attempt : job -> C -> option (C * option job)) (j : job) (c : C) : bool :=
  match attempt j c with Some _ => true | None => false end.

Definition repush_same_job {C : Type} (attempt : job -> C -> option (C * option job)) : Prop :=
  forall j c c' j', attempt j c = Some (c', Some j') -> j_queue j' = j_queue j /\ j_uid j' = j_uid j.

Definition C16_decision_stmt (depth : Z) : Prop :=
  forall (qs : list qinfo) (qord : Z -> Z -> option job -> option job -> bool)
         (C : Type) (attempt : job -> C -> option (C * option job)) (cle : C -> C -> Prop)
         (a b : job) (fuel : nat) (jobs : list job) (c0 : C) (out : list (job * bool)),
    (forall c, cle c c) ->
    (forall c1 c2 c3, cle c1 c2 -> cle c2 c3 -> cle c1 c3) ->
    (forall j c c' r, attempt j c = Some (c', r) -> cle c' c) ->
    (forall c c', cle c' c -> fits attempt a c' = true -> fits attempt a c = true) ->
    (forall c, fits attempt a c = fits attempt b c) ->
    repush_same_job attempt ->
    j_queue a = j_queue b ->
    job_less a b = true ->
    NoDup (map j_uid jobs) ->
    In a jobs -> In b jobs -> queue_ok qs (j_queue a) = true ->
    allocate qs qord depth attempt fuel jobs c0 = Ok out ->
    In (b, true) out -> In (a, true) out.

(** the property for every MaxJobsQueueDepth (a theorem: Properties/C16.v) *)
Definition C16_finite_depth_stmt : Prop := forall depth, -1 <= depth -> C16_decision_stmt depth.

(** the same for an oracle that may re-push any job, [b] not necessarily pending *)
Definition C16_decision_stmt_any_repush (depth : Z) : Prop :=
  forall (qs : list qinfo) (qord : Z -> Z -> option job -> option job -> bool)
         (C : Type) (attempt : job -> C -> option (C * option job)) (cle : C -> C -> Prop)
         (a b : job) (fuel : nat) (jobs : list job) (c0 : C) (out : list (job * bool)),
    (forall c, cle c c) ->
    (forall c1 c2 c3, cle c1 c2 -> cle c2 c3 -> cle c1 c3) ->
    (forall j c c' r, attempt j c = Some (c', r) -> cle c' c) ->
    (forall c c', cle c' c -> fits attempt a c' = true -> fits attempt a c = true) ->
    (forall c, fits attempt a c = fits attempt b c) ->
    j_queue a = j_queue b ->
    job_less a b = true ->
    In a jobs -> queue_ok qs (j_queue a) = true ->
    allocate qs qord depth attempt fuel jobs c0 = Ok out ->
    In (b, true) out -> In (a, true) out.

(** * Which jobs a cycle collects (InitializeWithJobs)

    [jobs] is what the status filters let through (ready pod groups with a pending
    pod), in the order in which Go's map iteration yields them. A job is
    [eligible] when its queue exists, the queue's parent exists (or the queue is
    top level) and the queue is a leaf ([queue_ok], the three queue guards of
    InitializeWithJobs; in a snapshot whose queue map is closed under parents -
    cleanQueueOrphans / cleanQueueCycles delete every queue with a broken chain -
    this is "the queue and its whole ancestor chain exist"). Everything else is a
    "ghost": a pod group of a deleted or misspelt queue, of a queue whose parent is
    gone, or of a non-leaf queue. The collection is specified declaratively:
    leaf queue [q] holds the [depth] best of [eligible_of qs q jobs], whatever the
    order of [jobs] and whatever ghosts stand between them. *)
Definition eligible (qs : list qinfo) (j : job) : bool := queue_ok qs (j_queue j).

Definition eligible_of (qs : list qinfo) (q : Z) (jobs : list job) : list job :=
  filter (fun j => eligible qs j && (j_queue j =? q)) jobs.

Definition ghost_free (qs : list qinfo) (jobs : list job) : list job := filter (eligible qs) jobs.
