(** Model of the proportion plugin's fair-share division (property C09), one
    resource at a time, over exact rationals:
    - pkg/scheduler/plugins/proportion/resource_division/resource_division.go:
        SetResourcesShare / setResourceShare   -> [set_resource_share] (per resource;
                                                  the three resources are independent)
        setDeservedResource                    -> [set_deserved]
        divideOverQuotaResource                -> [divide_over_quota]
        getQueuesByPriority                    -> [priorities] + [band]
        divideUpToFairShare (the [for {}] loop)-> [divide_up_to] (fuel) / [round_queues] / [visit]
        calcShareWeights, getTotalWeightsForUnsatisfied
                                               -> [total_weights], [share_weight],
                                                  [share_weights_sum]
        isQueueSatisfied, getRemainingRequested-> [satisfied], [remaining_requested]
        getResourceToGiveInCurrentRound        -> [give_in_round]
        divideRemainingResource, sortByOverQuotaWeight, remainingRequestedOrderFn
                                               -> [divide_remaining], [entry_before]
    - pkg/scheduler/plugins/proportion/resource_share/resource_share.go:
        GetRequestableShare -> [requestable]; QueueResourceShare.AddResourceShare -> [add_share]
    - pkg/scheduler/plugins/proportion/proportion.go: setFairShareForQueues calls
        SetResourcesShare on the children of a queue with totalResources := the
        queue's fair share -> [set_children] (one level, one resource) and, for the
        whole hierarchy and the three resources together,
        setFairShare / setFairShareForQueues / getTopQueues / getChildQueues
                                               -> [set_fair_share_tree] (see the last
                                                  section of this file).

    Conventions.
    * Amounts are [Q]; every arithmetic result is normalised with [Qred], so values
      are canonical fractions (evaluation stays fast and equal values are identical).
      Go's float64 rounding is NOT modelled (see Run/C09.v for how cases on which
      float arithmetic is not exact are recognised).
    * UnlimitedResourceQuantity is -1 ([unlimited]).
    * Go map iteration order = the order of the list argument.  UIDs are unique map
      keys and map key = QueueAttributes.UID is assumed, so the
      [map[QueueID]*remainingRequestedResource] of one priority is modelled as an
      [option Q] entry attached to each queue of the band, and
      [shareWeightsPerQueue[queue.UID]] as a function of the queue.
    * [q_uid] is the rank of the UID string in Go's string order, [q_created] the
      creation timestamp (any integer clock).
    * scheduler_util.PriorityQueue (container/heap) with a total order pops the
      elements in sorted order: modelled by insertion sort.
    Left out: nil *QueueAttributes in the map (Go panics), NaN/Inf/-0 inputs, integer
    overflow of [j - i] in the priority sort, metrics and logging
    (reportDivisionResult). *)
From Coq Require Import List ZArith QArith Qround Bool PArith.
Import ListNotations.
Open Scope Q_scope.

Definition unlimited : Q := (-1) # 1.

(** normalised arithmetic and Go's comparisons (no NaN) *)
Definition qadd (a b : Q) : Q := Qred (a + b).
Definition qsub (a b : Q) : Q := Qred (a - b).
Definition qmul (a b : Q) : Q := Qred (a * b).
Definition qdiv (a b : Q) : Q := Qred (a / b).      (* only used after a [b <> 0] test *)
Definition qeqb (a b : Q) : bool := Qeq_bool a b.
Definition qleb (a b : Q) : bool := Qle_bool a b.
Definition qltb (a b : Q) : bool := negb (Qle_bool b a).
Definition qmin (a b : Q) : Q := if qleb a b then a else b.   (* math.Min *)
Definition qmax (a b : Q) : Q := if qleb a b then b else a.   (* math.Max *)
Definition qfloor (a : Q) : Q := inject_Z (Qfloor a).         (* math.Floor *)

(** One queue as seen for one resource (QueueAttributes + ResourceShare). *)
Record queue := mkQ {
  q_uid : positive;
  q_prio : Z;
  q_created : Z;
  q_deserved : Q;   (* Deserved, -1 = unlimited *)
  q_limit : Q;      (* MaxAllowed, -1 = unlimited *)
  q_weight : Q;     (* OverQuotaWeight *)
  q_request : Q;    (* Request *)
  q_usage : Q;      (* Usage (historical, normalised) *)
  q_fair : Q;       (* FairShare *)
}.

Definition add_share (q : queue) (amt : Q) : queue :=
  mkQ (q_uid q) (q_prio q) (q_created q) (q_deserved q) (q_limit q) (q_weight q)
      (q_request q) (q_usage q) (qadd (q_fair q) amt).

Definition requestable (q : queue) : Q :=
  if qeqb (q_limit q) unlimited then q_request q else qmin (q_limit q) (q_request q).

Definition remaining_requested (q : queue) : Q :=
  let r := requestable q in
  if qltb r (q_fair q) then 0 else qsub r (q_fair q).

Definition satisfied (q : queue) : bool :=
  qleb (q_request q) (q_fair q)
  || (negb (qeqb (q_limit q) unlimited) && qleb (q_limit q) (q_fair q)).

(** setDeservedResource: returns the updated queues and the remaining amount. *)
Fixpoint set_deserved (total rem : Q) (qs : list queue) : list queue * Q :=
  match qs with
  | [] => ([], rem)
  | q :: r =>
      let d := if qeqb (q_deserved q) unlimited then total else q_deserved q in
      let amt := qmin d (requestable q) in
      let '(r', rem') := set_deserved total (qsub rem amt) r in
      (add_share q amt :: r', rem')
  end.

(** A queue of a priority band with its entry in the band's remainingRequested map. *)
Definition rq : Type := queue * option Q.

Definition total_weights (qs : list rq) : Q :=
  fold_left (fun acc (x : rq) =>
               if qltb 0 (remaining_requested (fst x)) then qadd acc (q_weight (fst x)) else acc)
            qs 0.

Definition share_weight (k W : Q) (q : queue) : Q :=
  let nw := qdiv (q_weight q) W in
  qmax 0 (qadd nw (qmul k (qsub nw (q_usage q)))).

Definition share_weights_sum (k W : Q) (qs : list rq) : Q :=
  fold_left (fun acc (x : rq) =>
               if satisfied (fst x) then acc else qadd acc (share_weight k W (fst x)))
            qs 0.

(** getResourceToGiveInCurrentRound: amount to give and the queue's new map entry. *)
Definition give_in_round (fs requested : Q) (old : option Q) : Q * option Q :=
  if qleb requested fs then (requested, None)
  else
    let r := qfloor fs in
    let g := if qltb 0 r then r else 0 in
    let d := qsub fs g in
    (g, if qltb 0 d then Some d else old).

(** What one iteration of the inner [for _, queue := range queues] does to the
    queue it visits: the updated queue and map entry, the amount given (0 = the
    iteration [continue]d before AddResourceShare) and its contribution to
    shouldRunAnotherRound.  It reads only values fixed at the start of the round
    ([amount], the share weights) and the queue itself. *)
Definition visit (amount k W sum : Q) (x : rq) : rq * Q * bool :=
  let q := fst x in
  if satisfied q then (x, 0, false)
  else if qeqb (q_weight q) 0 then (x, 0, false)
  else
    let requested := remaining_requested q in
    let fs := qmul amount (qdiv (share_weight k W q) sum) in
    let '(g, e') := give_in_round fs requested (snd x) in
    if qeqb g 0 then ((q, e'), 0, false)
    else ((add_share q g, e'), g, qltb requested fs).

(** The inner loop of one round, with its [break] when nothing is left. *)
Fixpoint round_queues (amount k W sum : Q) (qs : list rq) (total : Q) (again : bool)
  : list rq * Q * bool :=
  match qs with
  | [] => ([], total, again)
  | x :: r =>
      if qeqb total 0 then (qs, total, again)                       (* break *)
      else
        let '(x', g, a) := visit amount k W sum x in
        let '(r', t', a') :=
          round_queues amount k W sum r (if qeqb g 0 then total else qsub total g) (again || a) in
        (x' :: r', t', a')
  end.

Inductive outcome (A : Type) : Type :=
| Done (a : A)
| OutOfFuel.
Arguments Done {A} a.
Arguments OutOfFuel {A}.

(** divideUpToFairShare: the [for {}] loop, one iteration per unit of fuel. *)
Fixpoint divide_up_to (fuel : nat) (k : Q) (qs : list rq) (total : Q) : outcome (list rq * Q) :=
  match fuel with
  | O => OutOfFuel
  | S f =>
      let W := total_weights qs in
      if qeqb W 0 then Done (qs, total)
      else
        let sum := share_weights_sum k W qs in
        if qeqb sum 0 then Done (qs, total)
        else
          let '(qs', total', again) := round_queues total k W sum qs total false in
          if negb again || qeqb total' 0 then Done (qs', total')
          else divide_up_to f k qs' total'
  end.

(** getQueuesByPriority: distinct priorities in descending order. *)
Fixpoint insert_prio (p : Z) (l : list Z) : list Z :=
  match l with
  | [] => [p]
  | y :: r => if (y <? p)%Z then p :: y :: r
              else if (y =? p)%Z then y :: r
              else y :: insert_prio p r
  end.
Definition priorities (qs : list queue) : list Z :=
  fold_right (fun q acc => insert_prio (q_prio q) acc) [] qs.
Definition band (p : Z) (qs : list queue) : list rq :=
  map (fun q => (q, None)) (filter (fun q => (q_prio q =? p)%Z) qs).

(** First loop of divideOverQuotaResource: bands in descending priority; each
    band's loop gets fuel = number of queues of the band + 1. *)
Fixpoint run_bands (k : Q) (ps : list Z) (qs : list queue) (total : Q)
  : outcome (list (list rq) * Q) :=
  match ps with
  | [] => Done ([], total)
  | p :: r =>
      let b := band p qs in
      match divide_up_to (S (length b)) k b total with
      | OutOfFuel => OutOfFuel
      | Done (b', total') =>
          match run_bands k r qs total' with
          | OutOfFuel => OutOfFuel
          | Done (bs, t) => Done (b' :: bs, t)
          end
      end
  end.

(** remainingRequestedOrderFn: larger remainder first, then older, then smaller UID. *)
Definition entry_amount (x : rq) : Q := match snd x with Some a => a | None => 0 end.
Definition entry_before (x y : rq) : bool :=
  if qltb (entry_amount y) (entry_amount x) then true
  else if qltb (entry_amount x) (entry_amount y) then false
  else if negb (q_created (fst x) =? q_created (fst y))%Z
       then (q_created (fst x) <? q_created (fst y))%Z
       else (q_uid (fst x) <? q_uid (fst y))%positive.

Fixpoint insert_entry (x : rq) (l : list rq) : list rq :=
  match l with
  | [] => [x]
  | y :: r => if entry_before x y then x :: y :: r else y :: insert_entry x r
  end.
Definition sort_entries (l : list rq) : list rq := fold_right insert_entry [] l.

Definition has_entry (x : rq) : bool := match snd x with Some _ => true | None => false end.

(** the pop loop of divideRemainingResource over the sorted entries *)
Fixpoint hand_out (es : list rq) (total : Q) : list rq * Q :=
  match es with
  | [] => ([], total)
  | (q, e) :: r =>
      if qeqb total 0 then (es, total)
      else
        let g := qmin 1 total in
        let '(r', t) := hand_out r (qsub total g) in
        ((add_share q g, e) :: r', t)
  end.

Definition divide_remaining (b : list rq) (total : Q) : list rq * Q :=
  let '(es, t) := hand_out (sort_entries (filter has_entry b)) total in
  (es ++ filter (fun x => negb (has_entry x)) b, t).

(** Second loop of divideOverQuotaResource. *)
Fixpoint hand_out_bands (bs : list (list rq)) (total : Q) : list (list rq) * Q :=
  match bs with
  | [] => ([], total)
  | b :: r =>
      if qleb total 0 then (bs, total)                             (* break *)
      else if negb (existsb has_entry b) then
        let '(r', t) := hand_out_bands r total in (b :: r', t)     (* continue *)
      else
        let '(b', t') := divide_remaining b total in
        let '(r', t) := hand_out_bands r t' in (b' :: r', t)
  end.

Definition divide_over_quota (total k : Q) (qs : list queue) : outcome (list queue * Q) :=
  match run_bands k (priorities qs) qs total with
  | OutOfFuel => OutOfFuel
  | Done (bs, t) =>
      let '(bs', t') := hand_out_bands bs t in
      Done (map fst (concat bs'), t')
  end.

(** setResourceShare: queues after the division (in some order) and the amount left. *)
Definition set_resource_share (total k : Q) (qs : list queue) : outcome (list queue * Q) :=
  let '(qs1, rem) := set_deserved total total qs in
  if qltb 0 rem then divide_over_quota rem k qs1 else Done (qs1, 0).

(** setFairShareForQueues, one level down: the children of [parent] divide the
    parent's fair share. *)
Definition set_children (parent : queue) (k : Q) (children : list queue)
  : outcome (list queue * Q) :=
  set_resource_share (q_fair parent) k children.

(** fair share of a UID in a result *)
Fixpoint fair_of (u : positive) (qs : list queue) : option Q :=
  match qs with
  | [] => None
  | q :: r => if (q_uid q =? u)%positive then Some (q_fair q) else fair_of u r
  end.

(** * The hierarchy: proportion.go setFairShare / setFairShareForQueues

    [setFairShare] divides [pp.totalResource] among the top queues (those with an
    empty ParentQueue: [getTopQueues]); [setFairShareForQueues total k queues]
    returns at once for an empty set, otherwise calls
    resource_division.SetResourcesShare(total, k, queues) - the three resources
    one after the other, each touching only its own ResourceShare of every queue -
    and then, for EVERY queue of the set, recurses into [getChildQueues queue] with
    [queue.GetFairShare()] (the three fair shares just computed) as total.

    A queue carries its three ResourceShares ([queue3]: one [queue] record per
    resource, all three with the queue's UID / priority / creation time); a
    hierarchy is a forest of [qtree]s, the roots being the top queues.  The queue
    objects are mutated in place in Go and found again through the map key; here
    every queue of the sibling set picks its new fair share out of the division's
    result by UID ([updated]).  The recursion is fuelled by the depth of the forest
    ([forest_depth]); Go's recursion is bounded by the same depth because
    ParentQueue / ChildQueues form a tree.

    Left out: a ChildQueues entry that names no queue of the snapshot (nil map
    value: SetResourcesShare panics), queues whose ParentQueue names no queue (they
    are neither top queues nor anybody's child: never divided), parent cycles.

    [fair_share_tree_gen true] is NOT the code: it is the variant with the
    "skip idle sub-trees" shortcut (no recursion below a queue whose fair share is
    <= 0 in all three resources, [ResourceQuantities.LessEqual] against the empty
    quantities), kept under an explicit name for the refutation witness in
    Properties/C09.v. *)
Definition Q3 : Type := (Q * Q * Q)%type.          (* CPU, memory, GPU *)

Inductive resource : Type := Cpu | Mem | Gpu.
Definition all_resources : list resource := [Cpu; Mem; Gpu].
Definition sel (r : resource) (t : Q3) : Q :=
  match r with Cpu => fst (fst t) | Mem => snd (fst t) | Gpu => snd t end.

Record queue3 := mkQ3 { q3_cpu : queue; q3_mem : queue; q3_gpu : queue }.
Definition res_of (r : resource) (q : queue3) : queue :=
  match r with Cpu => q3_cpu q | Mem => q3_mem q | Gpu => q3_gpu q end.

Inductive qtree : Type := QT (q : queue3) (children : list qtree).
Definition troot (t : qtree) : queue3 := match t with QT q _ => q end.
Definition tkids (t : qtree) : list qtree := match t with QT _ c => c end.

Fixpoint tree_depth (t : qtree) : nat :=
  match t with
  | QT _ c => S ((fix fd (l : list qtree) : nat :=
                    match l with [] => O | x :: r => Nat.max (tree_depth x) (fd r) end) c)
  end.
Fixpoint forest_depth (l : list qtree) : nat :=
  match l with [] => O | x :: r => Nat.max (tree_depth x) (forest_depth r) end.

Definition set_fair (q : queue) (f : Q) : queue :=
  mkQ (q_uid q) (q_prio q) (q_created q) (q_deserved q) (q_limit q) (q_weight q)
      (q_request q) (q_usage q) f.

(** the queue object after the division: its fair share is the one the result holds
    under its UID (every queue of the set is in the result: C09_same_queues) *)
Definition updated (out : list queue) (q : queue) : queue :=
  match fair_of (q_uid q) out with Some f => set_fair q f | None => q end.

Definition fair3 (q : queue3) : Q3 :=
  (q_fair (q3_cpu q), q_fair (q3_mem q), q_fair (q3_gpu q)).

(** ResourceQuantities.LessEqual(EmptyResourceQuantities()) with compareQuantities'
    treatment of -1 (only used by the skip variant) *)
Definition nothing_to_divide (t : Q3) : bool :=
  forallb (fun r => negb (qeqb (sel r t) unlimited) && qleb (sel r t) 0) all_resources.

Fixpoint all_done {A} (l : list (outcome A)) : outcome (list A) :=
  match l with
  | [] => Done []
  | OutOfFuel :: _ => OutOfFuel
  | Done a :: r => match all_done r with Done l' => Done (a :: l') | OutOfFuel => OutOfFuel end
  end.

Fixpoint fair_share_tree_gen (skip_idle : bool) (fuel : nat) (totals : Q3) (k : Q)
         (ts : list qtree) : outcome (list qtree) :=
  match ts with
  | [] => Done []                                          (* len(queues) == 0 *)
  | _ :: _ =>
      match fuel with
      | O => OutOfFuel
      | S f =>
          match set_resource_share (sel Cpu totals) k (map (fun t => q3_cpu (troot t)) ts),
                set_resource_share (sel Mem totals) k (map (fun t => q3_mem (troot t)) ts),
                set_resource_share (sel Gpu totals) k (map (fun t => q3_gpu (troot t)) ts) with
          | Done (oc, _), Done (om, _), Done (og, _) =>
              all_done
                (map (fun t =>
                        let q := troot t in
                        let q' := mkQ3 (updated oc (q3_cpu q)) (updated om (q3_mem q))
                                       (updated og (q3_gpu q)) in
                        if skip_idle && nothing_to_divide (fair3 q') then Done (QT q' (tkids t))
                        else match fair_share_tree_gen skip_idle f (fair3 q') k (tkids t) with
                             | Done c => Done (QT q' c)
                             | OutOfFuel => OutOfFuel
                             end) ts)
          | _, _, _ => OutOfFuel
          end
      end
  end.

(** setFairShare on the forest of top queues: the code as it is *)
Definition set_fair_share_tree : nat -> Q3 -> Q -> list qtree -> outcome (list qtree) :=
  fair_share_tree_gen false.

(** NOT the code: the "skip idle sub-trees" variant *)
Definition set_fair_share_tree_skip_idle : nat -> Q3 -> Q -> list qtree -> outcome (list qtree) :=
  fair_share_tree_gen true.
