(** Model of the part of the cluster snapshot that decides which pods are charged to which node:
      pkg/scheduler/cache/cluster_info/cluster_info.go
        snapshotBindRequests (requests whose node is not in the snapshot are set aside),
        getNodeToPodInfosMap (every pod is built with the request found for it), addTasksToNodes
      pkg/scheduler/api/bindrequest_info/binrequest_info.go
        GetBindRequestForPod (a terminally failed request counts as no request), IsFailed (backoff rule)
      pkg/scheduler/api/pod_info/pod_info.go
        NewTaskInfoWithBindRequest (node: spec.nodeName, else the request's selected node),
        getTaskStatus, updatePodAdditionalFields (GPU groups: the request's, else the pod's labels)
      pkg/scheduler/api/node_info/node_info.go
        AddTasksToNode (only active-used statuses are added; AddTask is Model/Node.v add_task)
    and, separately and NOT by reading that code, what it means for a pod of an API world to occupy a node
    ([occupies_on]): the ground truth the property C01 speaks about ("pods already occupying the node: running,
    terminating, bound or being bound").  Not modelled: resource-reservation pods, DRA claims, node-pool
    selectors, several requests for one pod. *)
From Coq Require Import List ZArith PArith Bool.
From KaiV Require Import Model.Res Model.Status Model.AMap Model.Node Model.NodeSpec.
Import ListNotations.
Open Scope Z_scope.

(** * The API world *)

Inductive phase := PhPending | PhRunning | PhSucceeded | PhFailed | PhUnknown.
Inductive brphase := BPending (* "", Pending or anything else *) | BSucceeded | BFailed.

Record wbr := mkWB {
  wb_pod : positive; wb_node : positive; wb_groups : list positive;
  wb_phase : brphase; wb_limit : option Z; wb_attempts : Z;
  wb_deleting : bool;    (* deletionTimestamp set: nothing looks at it *)
}.

(** [wp_task]: the pod's request as a node sees it (kind, resources, devices, memory per device); its
    [t_groups] are the pod's own gpu-group labels, its [t_status] is ignored. *)
Record wpod := mkWP { wp_task : task; wp_node : option positive; wp_phase : phase; wp_del : bool; wp_gated : bool }.

(** [w_nodes]: every node of the cluster, empty (as NewNodeInfo builds it) *)
Record world := mkW { w_nodes : amap node; w_pods : list wpod; w_brs : list wbr }.

Definition wp_id (p : wpod) : positive := t_id (wp_task p).

Definition set_status (t : task) (s : status) (gs : list positive) : task :=
  mkTask (t_id t) (t_job t) s (t_kind t) (t_req t) (t_ndev t) (t_gmem t) gs (t_resv t) (t_besteffort t).

(** * Ground truth: which pods occupy which node *)

(** BindRequestInfo.IsFailed: the binder gave up (phase Failed and no retry left) *)
Definition br_failed (b : wbr) : bool :=
  match wb_phase b with
  | BFailed => match wb_limit b with None => true | Some l => l <=? wb_attempts b end
  | _ => false
  end.

Definition finished (ph : phase) : bool := match ph with PhPending | PhRunning => false | _ => true end.

(** some request that the binder may still act on (or has acted on) binds pod [p] to node [n] *)
Definition live_request (w : world) (p n : positive) : bool :=
  existsb (fun b => Pos.eqb (wb_pod b) p && Pos.eqb (wb_node b) n && negb (br_failed b)) (w_brs w).

(** A pod occupies node [n] of the cluster when it has not finished and either sits on [n] (spec.nodeName) or has
    no node yet and a BindRequest that is not terminally failed selects [n]. *)
Definition occupies_on (w : world) (p : wpod) (n : positive) : bool :=
  negb (finished (wp_phase p)) && amem n (w_nodes w)
  && match wp_node p with
     | Some m => Pos.eqb m n
     | None => live_request w (wp_id p) n
     end.

(** the GPU groups such a pod holds: those its (live) request selected, else its own gpu-group labels *)
Definition held_groups (w : world) (p : wpod) : list positive :=
  match find (fun b => Pos.eqb (wb_pod b) (wp_id p) && amem (wb_node b) (w_nodes w) && negb (br_failed b)) (w_brs w) with
  | Some b => match wb_groups b with [] => t_groups (wp_task p) | gs => gs end
  | None => t_groups (wp_task p)
  end.

(** the occupant as a task: terminating (its capacity is releasing) or not *)
Definition occupant (w : world) (p : wpod) : task :=
  set_status (wp_task p) (if wp_del p then Releasing else Running) (held_groups w p).

Definition occupants (w : world) (n : positive) : list task :=
  map (occupant w) (filter (fun p => occupies_on w p n) (w_pods w)).

(** * The snapshot *)

(** pod_info.getTaskStatus *)
Definition task_status (ph : phase) (deleting on_node has_br gated : bool) : status :=
  match ph with
  | PhRunning => if deleting then Releasing else Running
  | PhPending => if deleting then Releasing
                 else if on_node then Bound
                 else if has_br then Binding
                 else if gated then Gated else Pending
  | PhUnknown => Unknown
  | PhSucceeded => Succeeded
  | PhFailed => Failed
  end.

(** snapshotBindRequests: requests whose selected node is in the snapshot.  [drop_succeeded] is NOT the code: it
    is the variant that also leaves out served requests (seeded/C01-4, seeded/C12-3). *)
Definition snap_brs (drop_succeeded : bool) (w : world) : list wbr :=
  filter (fun b => amem (wb_node b) (w_nodes w)
                   && negb (drop_succeeded && match wb_phase b with BSucceeded => true | _ => false end))
         (w_brs w).

(** BindRequestMap.GetBindRequestForPod *)
Definition br_for (brs : list wbr) (p : positive) : option wbr :=
  match find (fun b => Pos.eqb (wb_pod b) p) brs with
  | Some b => if br_failed b then None else Some b
  | None => None
  end.

Definition is_some {A} (o : option A) : bool := match o with Some _ => true | None => false end.

(** NewTaskInfoWithBindRequest: the task and the node name it is filed under *)
Definition snap_task (drop : bool) (w : world) (p : wpod) : task * option positive :=
  let br := br_for (snap_brs drop w) (wp_id p) in
  let node := match wp_node p with Some n => Some n | None => option_map wb_node br end in
  let st := task_status (wp_phase p) (wp_del p) (is_some (wp_node p)) (is_some br) (wp_gated p) in
  let gs := match br with
            | Some b => match wb_groups b with [] => t_groups (wp_task p) | gs => gs end
            | None => t_groups (wp_task p)
            end in
  (set_status (wp_task p) st gs, node).

Definition filed_under (n : positive) (tn : task * option positive) : bool :=
  match snd tn with Some m => Pos.eqb m n | None => false end.

(** the tasks AddTasksToNode adds to node [n], in pod order *)
Definition snap_tasks_on (drop : bool) (w : world) (n : positive) : list task :=
  filter (fun t => active_used (t_status t)) (map fst (filter (filed_under n) (map (snap_task drop w) (w_pods w)))).

(** AddTask errors are logged and ignored *)
Definition add_all (n : node) (ts : list task) : node :=
  fold_left (fun acc t => match add_task acc t with Ok n' => n' | Err => acc end) ts n.

Definition snap_node (drop : bool) (w : world) (nid : positive) (n0 : node) : node :=
  add_all n0 (snap_tasks_on drop w nid).

Definition snapshot_gen (drop : bool) (w : world) : amap node :=
  map (fun kn => (fst kn, snap_node drop w (fst kn) (snd kn))) (w_nodes w).

(** the code *)
Definition snapshot : world -> amap node := snapshot_gen false.

(** status and node of every pod as the snapshot's pod groups hold them *)
Definition snap_pods (drop : bool) (w : world) : list (positive * (status * option positive)) :=
  map (fun p => let tn := snap_task drop w p in (wp_id p, (t_status (fst tn), snd tn))) (w_pods w).
