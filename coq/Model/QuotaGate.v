(** Executable model of the capacity gate that the allocate action consults for
    every job it pops, as it is.

    Modelled Go code (file : functions):
    - pkg/common/podgroup/preemptible.go : [CalculatePreemptibility] (an explicit
      spec.preemptibility wins, otherwise priority < 100 is preemptible) —
      [calculate_preemptibility].
    - pkg/scheduler/api/podgroup_info/job_info.go : [IsPreemptibleJob]
      ([Preemptibility == Preemptible]; the priority is not read) —
      [is_preemptible_job].
    - pkg/scheduler/plugins/proportion/capacity_policy/max_allowed_check.go :
      [isOverLimit], [resultsOverLimit] — [share_over_limit], [results_over_limit].
    - .../capacity_policy/quota_check.go : [isAllocatedNonPreemptibleOverQuota],
      [resultsWithNonPreemptibleOverQuota] — [share_np_over_quota],
      [results_np_over_quota].
    - .../capacity_policy/capacity_policy.go : [IsJobOverQueueCapacity] (limit, then
      non-preemptible quota; what common.AllocateJob asks through
      Session.IsJobOverQueueCapacityFn), [IsNonPreemptibleJobOverQuota]
      (Session.IsNonPreemptibleJobOverQueueQuotaFn), [isJobOverCapacity] —
      [job_over_queue_capacity], [np_job_over_quota].
    - pkg/scheduler/plugins/proportion/proportion.go :
      [updateQueuesResourceUsageForAllocatedJob] / [allocateHandlerFn] (allocated
      and allocated-non-preemptible usage added to the job's queue and every
      ancestor) — [account]; [updateQueuesCurrentResourceUsage] restricted to
      allocated pods — [account_all].

    The functions that read the job take the reading of its preemptibility as a
    parameter [ispre : job -> bool]; the code as it is uses [is_preemptible_job].
    [is_preemptible_job_below_build] is a variant that also reads the priority
    ("honoured only below priority 100"); it is here to show what the gate must
    not do (Properties/C16.v, C16_gate_reading_priority_refuted), the code does not
    contain it.

    Quantities are float64 in Go (GPUs, millicpu, bytes); here thousandths in [Z]
    (the harness only produces values that are exact in both); -1 is
    [UnlimitedResourceQuantity]. A queue map is an association list keyed by
    queue id; the parent of a top queue is [None] (Go: "" is not a key of the map).
    The walks up the parent chain take fuel (a cyclic hierarchy loops forever in
    Go) and yield [OutOfFuel]. Left out: the message / details of the result, the
    request and fair-share fields of a resource share, fractional GPU memory
    requests, IsTaskAllocationOnNodeOverCapacity (same two checks per task on a
    node). No proofs here. *)
From Coq Require Import List ZArith Bool.
From KaiV Require Import Model.JobOrder.
Import ListNotations.
Open Scope Z_scope.

Definition priority_build_number : Z := 100.

(** CalculatePreemptibility *)
Definition calculate_preemptibility (spec : preemptibility) (prio : Z) : preemptibility :=
  match spec with
  | PPreemptible => PPreemptible
  | PNonPreemptible => PNonPreemptible
  | PUnset => if prio <? priority_build_number then PPreemptible else PNonPreemptible
  end.

(** PodGroupInfo.IsPreemptibleJob *)
Definition is_preemptible_job (j : job) : bool :=
  match j_pre j with PPreemptible => true | _ => false end.

(** NOT the code: a reading of the preemptibility that depends on the priority *)
Definition is_preemptible_job_below_build (j : job) : bool :=
  is_preemptible_job j && (j_prio j <? priority_build_number).

(** rs.ResourceShare, the fields the gate reads *)
Record rshare := {
  rs_deserved : Z;
  rs_max_allowed : Z;
  rs_allocated : Z;
  rs_allocated_np : Z;
}.

(** rs.QueueAttributes; [qa_shares] in the order of rs.AllResources (cpu, memory, gpu) *)
Record qattr := {
  qa_id : Z;
  qa_parent : option Z;
  qa_shares : list rshare;
}.

Definition qstate := list qattr.

Fixpoint find_q (st : qstate) (q : Z) : option qattr :=
  match st with
  | [] => None
  | qa :: r => if qa_id qa =? q then Some qa else find_q r q
  end.

Fixpoint set_q (st : qstate) (qa' : qattr) : qstate :=
  match st with
  | [] => []
  | qa :: r => if qa_id qa =? qa_id qa' then qa' :: r else qa :: set_q r qa'
  end.

Definition unlimited : Z := -1.

(** one resource of isOverLimit *)
Definition share_over_limit (s : rshare) (req : Z) : bool :=
  if rs_max_allowed s =? unlimited then false
  else if req =? 0 then false
  else rs_max_allowed s <? rs_allocated s + req.

(** one resource of isAllocatedNonPreemptibleOverQuota *)
Definition share_np_over_quota (s : rshare) (req : Z) : bool :=
  if rs_deserved s =? unlimited then false
  else if req =? 0 then false
  else rs_deserved s <? rs_allocated_np s + req.

(** the loop over rs.AllResources: is some resource exceeded *)
Fixpoint any_resource (check : rshare -> Z -> bool) (shares : list rshare) (req : list Z) : bool :=
  match shares, req with
  | s :: ss, r :: rr => check s r || any_resource check ss rr
  | _, _ => false
  end.

(** for queueAttributes, ok := queues[q]; ok; queueAttributes, ok = queues[queueAttributes.ParentQueue] *)
Fixpoint chain_any (fuel : nat) (st : qstate) (q : option Z) (p : qattr -> bool) : res bool :=
  match fuel with
  | O => OutOfFuel
  | S f =>
      match q with
      | None => Ok false
      | Some id =>
          match find_q st id with
          | None => Ok false
          | Some qa => if p qa then Ok true else chain_any f st (qa_parent qa) p
          end
      end
  end.

Definition chain_fuel (st : qstate) : nat := S (length st).

(** resultsOverLimit: true = over the limit of the queue or of an ancestor *)
Definition results_over_limit (st : qstate) (q : Z) (req : list Z) : res bool :=
  chain_any (chain_fuel st) st (Some q) (fun qa => any_resource share_over_limit (qa_shares qa) req).

(** resultsWithNonPreemptibleOverQuota *)
Definition results_np_over_quota (preemptible : bool) (st : qstate) (q : Z) (req : list Z) : res bool :=
  if preemptible then Ok false
  else chain_any (chain_fuel st) st (Some q) (fun qa => any_resource share_np_over_quota (qa_shares qa) req).

Inductive verdict := Schedulable | OverLimit | NonPreemptibleOverQuota.

Definition verdict_eqb (a b : verdict) : bool :=
  match a, b with
  | Schedulable, Schedulable | OverLimit, OverLimit | NonPreemptibleOverQuota, NonPreemptibleOverQuota => true
  | _, _ => false
  end.

(** the gate as a function of the queue state, the queue, the request and the
    preemptibility only: IsJobOverQueueCapacity after getRequiredQuota *)
Definition over_queue_capacity (st : qstate) (q : Z) (req : list Z) (preemptible : bool) : res verdict :=
  ol <- results_over_limit st q req ;;
  if ol then Ok OverLimit
  else
    np <- results_np_over_quota preemptible st q req ;;
    Ok (if np then NonPreemptibleOverQuota else Schedulable).

(** IsNonPreemptibleJobOverQuota *)
Definition np_over_quota (st : qstate) (q : Z) (req : list Z) (preemptible : bool) : res verdict :=
  np <- results_np_over_quota preemptible st q req ;;
  Ok (if np then NonPreemptibleOverQuota else Schedulable).

Section Reading.
  Variable ispre : job -> bool.

  Definition job_over_queue_capacity_with (st : qstate) (j : job) : res verdict :=
    over_queue_capacity st (j_queue j) (j_req j) (ispre j).

  Definition np_job_over_quota_with (st : qstate) (j : job) : res verdict :=
    np_over_quota st (j_queue j) (j_req j) (ispre j).

  (** one resource of updateQueuesResourceUsageForAllocatedJob / allocateHandlerFn *)
  Definition add_share (np : bool) (s : rshare) (req : Z) : rshare :=
    {| rs_deserved := rs_deserved s; rs_max_allowed := rs_max_allowed s;
       rs_allocated := rs_allocated s + req;
       rs_allocated_np := if np then rs_allocated_np s + req else rs_allocated_np s |}.

  Fixpoint add_shares (np : bool) (shares : list rshare) (req : list Z) : list rshare :=
    match shares, req with
    | s :: ss, r :: rr => add_share np s r :: add_shares np ss rr
    | ss, [] => ss
    | [], _ => []
    end.

  Fixpoint account_chain (fuel : nat) (st : qstate) (q : option Z) (np : bool) (req : list Z) : res qstate :=
    match fuel with
    | O => OutOfFuel
    | S f =>
        match q with
        | None => Ok st
        | Some id =>
            match find_q st id with
            | None => Ok st
            | Some qa =>
                account_chain f (set_q st {| qa_id := qa_id qa; qa_parent := qa_parent qa;
                                             qa_shares := add_shares np (qa_shares qa) req |})
                              (qa_parent qa) np req
            end
        end
    end.

  (** the usage of an allocated job added to its queue and every ancestor *)
  Definition account (st : qstate) (j : job) : res qstate :=
    account_chain (chain_fuel st) st (Some (j_queue j)) (negb (ispre j)) (j_req j).

  (** updateQueuesCurrentResourceUsage over the allocated jobs of the snapshot *)
  Fixpoint account_all (st : qstate) (js : list job) : res qstate :=
    match js with
    | [] => Ok st
    | j :: r => st' <- account st j ;; account_all st' r
    end.
End Reading.

(** the code as it is *)
Definition job_over_queue_capacity : qstate -> job -> res verdict :=
  job_over_queue_capacity_with is_preemptible_job.
Definition np_job_over_quota : qstate -> job -> res verdict :=
  np_job_over_quota_with is_preemptible_job.
