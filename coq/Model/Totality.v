(** Totality model (property C10): every loop of the scheduler that follows links in
    API-provided graphs and every unchecked map lookup that is dereferenced, written as
    fuelled Gallina functions returning [Done v | OutOfFuel | Panic].

    Queue graph: [qgraph] = association list  queue id -> ParentQueue  ([None] = "").
    A Go map has unique keys; an association list with repeated keys is read through
    [lookup] (first entry), which is what the harness emits anyway (keys unique).
    [queues[""]] is never present (Kubernetes object names are non-empty): [lookup_par None = None].

    Modelled Go code (the graph skeleton of each function; numeric content is the
    arbitrary predicate [stop]):
    - pkg/scheduler/cache/cluster_info/queue.go: UpdateQueueHierarchy, cleanQueueCycles,
      updateQueueChildren, cleanQueueOrphans, deleteQueueAndChildren    ([update_queue_hierarchy])
    - pkg/scheduler/plugins/proportion/proportion.go:
      updateQueuesResourceUsageForAllocatedJob / ...ForPendingJob       ([walk])
      allocateHandlerFn / deallocateHandlerFn (loop + [leafQueue.Name]) ([handler])
      setFairShare / setFairShareForQueues / getTopQueues / getChildQueues ([set_fair_share])
      getQueueAllocatedResourceFn / ...Deserved... / ...FairShare...    ([queue_resources_fn])
    - proportion/capacity_policy/max_allowed_check.go resultsOverLimit,
      quota_check.go resultsWithNonPreemptibleOverQuota                  ([walk_until])
    - proportion/reclaimable/reclaimable.go: getHierarchyPath, getLeveledQueues,
      subtractReclaimedResources, reclaimingQueuesRemainWithinBoundaries, CanReclaimResources,
      Reclaimable with one victim queue and all numeric guards passing  ([hierarchy_path],
      [leveled_queues], [reclaimable_skeleton], [can_reclaim_lookup])
    - plugins/minruntime/resolver.go: resolvePreemptMinRuntime, resolveReclaimMinRuntimeQueue
      ([walk_until] from an existing queue), getQueueHierarchyPath, resolveReclaimMinRuntimeLCA
      ([minruntime_lca])
    - actions/utils/job_order_by_queue.go + input_jobs.go: InitializeWithJobs filter,
      PushJob, ensureAncestorChainForPush, markAncestorsForReorder       ([push_job])
    - actions/utils/action.go GetMessageOfEviction (Reclaim branch) +
      getReclaimMessageQueuesDetails                                    ([eviction_message])
    - api/podgroup_info/subgroup_info/factory.go FromPodGroup (mapSubGroupsAndChildren,
      createSubGroupInfos, addToParent), SubGroupSet.GetAllPodSets, job_info.go setSubGroups,
      AddTaskInfo for unknown sub-groups                                ([from_pod_group],
      [set_sub_groups], [add_task])
    The [_v0] definitions are the three functions as they were before the repairs
    48422bb / 0ac7c83 / ee1060a (kept for the documented refutations).
    Left out: all arithmetic on quotas (abstracted as [stop]), Go map iteration order
    (lists; results that depend on it are compared as sets by the harness), strings.ToLower
    beyond ASCII, GPU annotation parsing and node construction (covered by Model/GpuRequest.v
    and sampled on the real code by the harness; nothing to loop over or dereference). *)
From Coq Require Import List ZArith String Ascii Bool PeanoNat.
Import ListNotations.

Inductive result (A : Type) : Type :=
| Done (a : A)
| OutOfFuel
| Panic.
Arguments Done {A} a.
Arguments OutOfFuel {A}.
Arguments Panic {A}.

Definition bind {A B} (r : result A) (f : A -> result B) : result B :=
  match r with Done a => f a | OutOfFuel => OutOfFuel | Panic => Panic end.

Definition is_done {A} (r : result A) : bool := match r with Done _ => true | _ => false end.
Definition is_panic {A} (r : result A) : bool := match r with Panic => true | _ => false end.
Definition is_oof {A} (r : result A) : bool := match r with OutOfFuel => true | _ => false end.

(** [for _, x := range l { y := f(x) ... }] collecting the results; the first failure wins *)
Fixpoint map_result {A B} (f : A -> result B) (l : list A) : result (list B) :=
  match l with
  | [] => Done []
  | x :: r => bind (f x) (fun y => bind (map_result f r) (fun ys => Done (y :: ys)))
  end.

(** the same loop threading a state *)
Fixpoint fold_result {A S} (f : S -> A -> result S) (l : list A) (s : S) : result S :=
  match l with
  | [] => Done s
  | x :: r => bind (f s x) (fold_result f r)
  end.

(** * Queue graph *)

Definition qid := positive.
Definition qgraph := list (qid * option qid).

Fixpoint lookup (g : qgraph) (id : qid) : option (option qid) :=
  match g with
  | [] => None
  | (k, p) :: r => if Pos.eqb k id then Some p else lookup r id
  end.

(** [queues[q.ParentQueue]]: "" is never a key *)
Definition lookup_par (g : qgraph) (p : option qid) : option (option qid) :=
  match p with None => None | Some i => lookup g i end.

Definition keys (g : qgraph) : list qid := map fst g.
Definition mem (x : qid) (l : list qid) : bool := existsb (Pos.eqb x) l.

(** fuel the theorems are stated for *)
Definition fuel_of (g : qgraph) : nat := S (List.length g).

(** ** [for q, ok := queues[id]; ok; q, ok = queues[q.ParentQueue] { ... }]
    returns the queues visited, in order *)
Fixpoint walk (fuel : nat) (g : qgraph) (cur : option qid) : result (list qid) :=
  match cur with
  | None => Done []
  | Some id =>
    match lookup g id with
    | None => Done []
    | Some par =>
      match fuel with
      | O => OutOfFuel
      | S f => bind (walk f g par) (fun l => Done (id :: l))
      end
    end
  end.

(** the same loop with an early [return] when [stop] holds at the visited queue *)
Fixpoint walk_until (fuel : nat) (g : qgraph) (stop : qid -> bool) (cur : option qid)
  : result (option qid) :=
  match cur with
  | None => Done None
  | Some id =>
    match lookup g id with
    | None => Done None
    | Some par =>
      if stop id then Done (Some id)
      else match fuel with
           | O => OutOfFuel
           | S f => walk_until f g stop par
           end
    end
  end.

(** allocateHandlerFn / deallocateHandlerFn: the loop, then [leafQueue, found := pp.queues[job.Queue]]
    and [if !found { return }] before the log call (repaired by commit 0ac7c83) *)
Definition handler (fuel : nat) (g : qgraph) (job_queue : qid) : result (list qid) :=
  walk fuel g (Some job_queue).

(** before the repair: [leafQueue.Name] was evaluated eagerly for the log call *)
Definition handler_v0 (fuel : nat) (g : qgraph) (job_queue : qid) : result (list qid) :=
  bind (walk fuel g (Some job_queue)) (fun l =>
    match lookup g job_queue with None => Panic | Some _ => Done l end).

(** getQueueAllocatedResourceFn etc.: [pp.queues[queue.UID]] dereferenced; [queue] itself may be nil *)
Definition queue_resources_fn (g : qgraph) (q : option qid) : result unit :=
  match q with
  | None => Panic
  | Some id => match lookup g id with None => Panic | Some _ => Done tt end
  end.

(** ** reclaimable.go *)

(** getHierarchyPath: root first *)
Definition hierarchy_path (fuel : nat) (g : qgraph) (id : qid) : result (list qid) :=
  bind (walk fuel g (Some id)) (fun l => Done (rev l)).

(** the loop of getLeveledQueues over two root-first paths *)
Fixpoint level_pair (a b : list qid) (last : option (qid * qid)) : option (qid * qid) :=
  match a, b with
  | x :: a', y :: b' => if Pos.eqb x y then level_pair a' b' (Some (x, y)) else Some (x, y)
  | _, _ => last
  end.

(** getLeveledQueues followed by the caller's [reclaimeeQueue.UID]: nil when a path is empty *)
Definition leveled_queues (fuel : nat) (g : qgraph) (reclaimer reclaimee : qid) : result (qid * qid) :=
  bind (hierarchy_path fuel g reclaimer) (fun pa =>
  bind (hierarchy_path fuel g reclaimee) (fun pb =>
    match level_pair pa pb None with
    | None => Panic
    | Some p => Done p
    end)).

(** CanReclaimResources: [queues[reclaimer.Queue]] dereferenced *)
Definition can_reclaim_lookup (g : qgraph) (reclaimer : qid) : result unit :=
  match lookup g reclaimer with None => Panic | Some _ => Done tt end.

(** Reclaimable with one victim queue holding [nres] resource entries, every numeric guard
    passing ([stop] = the boundary check of reclaimingQueuesRemainWithinBoundaries fails at
    that queue): getLeveledQueues, then one subtractReclaimedResources walk per entry, then the
    boundaries walk from the reclaimer's queue. Returns the verdict. *)
Fixpoint repeat_walk (n : nat) (fuel : nat) (g : qgraph) (start : qid) : result unit :=
  match n with
  | O => Done tt
  | S m => bind (walk fuel g (Some start)) (fun _ => repeat_walk m fuel g start)
  end.

Definition reclaimable_skeleton (fuel : nat) (g : qgraph) (stop : qid -> bool)
           (reclaimer victim : qid) (nres : nat) : result bool :=
  bind (leveled_queues fuel g reclaimer victim) (fun _ =>
  bind (repeat_walk nres fuel g victim) (fun _ =>
  bind (walk_until fuel g stop (Some reclaimer)) (fun r =>
    Done (match r with None => true | Some _ => false end)))).

(** ** minruntime/resolver.go: resolveReclaimMinRuntimeLCA. Both queues are non-nil
    *QueueInfo objects; only their ParentQueue links are followed through the map.
    [has] = the queue carries a ReclaimMinRuntime. Returns the queue whose value is used. *)
Definition path_from_obj (fuel : nat) (g : qgraph) (id : qid) (par : option qid) : result (list qid) :=
  bind (walk fuel g par) (fun l => Done (rev (id :: l))).

Fixpoint lca_index (a b : list qid) (i last : nat) : nat :=
  match a, b with
  | x :: a', y :: b' => if Pos.eqb x y then lca_index a' b' (S i) i else last
  | _, _ => last
  end.

Fixpoint first_has_down (has : qid -> bool) (pref_rev : list qid) : option qid :=
  match pref_rev with
  | [] => None
  | x :: r => if has x then Some x else first_has_down has r
  end.

Definition minruntime_lca (fuel : nat) (g : qgraph) (has : qid -> bool)
           (preemptor : qid) (preemptor_par : option qid) (preemptee : qid) (preemptee_par : option qid)
  : result (option qid) :=
  bind (path_from_obj fuel g preemptor preemptor_par) (fun pa =>
  bind (path_from_obj fuel g preemptee preemptee_par) (fun pb =>
    match pa, pb with
    | ta :: _, tb :: _ =>
      if negb (Pos.eqb ta tb) then Done (if has tb then Some tb else None)
      else
        let i := lca_index pa pb 0 0 in
        let i := if Nat.ltb (S i) (List.length pb) then S i else i in
        Done (first_has_down has (rev (firstn (S i) pb)))
    | _, _ => Panic     (* preemptorPath[0] on an empty path: cannot happen, the object itself is on it *)
    end)).

(** ** queue.go: UpdateQueueHierarchy *)

(** updateQueueChildren: ChildQueues of [p] = the queues whose ParentQueue is [p]
    (added only when [p] exists; AddChildQueue ignores duplicates) *)
Definition children_of (g : qgraph) (p : qid) : list qid :=
  map fst (filter (fun e => match snd e with Some q => Pos.eqb q p | None => false end) g).

Definition remove_key (g : qgraph) (id : qid) : qgraph :=
  filter (fun e => negb (Pos.eqb (fst e) id)) g.

(** deleteQueueAndChildren: [ch] is the ChildQueues table computed before cleaning;
    [cur] is the map being mutated *)
Fixpoint delete_subtree (fuel : nat) (ch : qid -> list qid) (cur : qgraph) (id : qid) : result qgraph :=
  match lookup cur id with
  | None => Done cur
  | Some _ =>
    match fuel with
    | O => OutOfFuel
    | S f =>
      bind (fold_result (delete_subtree f ch) (ch id) cur)
           (fun cur' => Done (remove_key cur' id))
    end
  end.

(** cleanQueueOrphans: range over the map (list order); entries deleted before being
    reached are not visited; the orphan test reads the map being mutated *)
Fixpoint clean_orphans (fuel : nat) (ch : qid -> list qid) (order : list (qid * option qid)) (cur : qgraph)
  : result qgraph :=
  match order with
  | [] => Done cur
  | (id, par) :: r =>
    match lookup cur id with
    | None => clean_orphans fuel ch r cur
    | Some _ =>
      match par with
      | None => clean_orphans fuel ch r cur
      | Some p =>
        match lookup cur p with
        | Some _ => clean_orphans fuel ch r cur
        | None => bind (delete_subtree fuel ch cur id) (clean_orphans fuel ch r)
        end
      end
    end
  end.

(** cleanQueueCycles (commit 48422bb): for every queue the loop
    [for steps := 0; ; steps++ { q, found := queues[current]; if !found || q.ParentQueue == "" { break };
       if steps >= len(queues) { cyclic }; current = q.ParentQueue }]
    is bounded by construction; [chain_unbounded (len queues) g id] = the queue was marked *)
Fixpoint chain_unbounded (steps : nat) (g : qgraph) (cur : qid) : bool :=
  match lookup g cur with
  | None => false
  | Some None => false
  | Some (Some p) =>
    match steps with
    | O => true
    | S s => chain_unbounded s g p
    end
  end.

Definition clean_cycles (g : qgraph) : qgraph :=
  filter (fun e => negb (chain_unbounded (List.length g) g (fst e))) g.

(** ChildQueues as stored in the QueueInfo objects: computed by updateQueueChildren after the
    cycle cleaning and never pruned afterwards *)
Definition hierarchy_children (g : qgraph) : qid -> list qid := children_of (clean_cycles g).

(** UpdateQueueHierarchy: cleanQueueCycles, updateQueueChildren, cleanQueueOrphans *)
Definition update_queue_hierarchy (fuel : nat) (g : qgraph) : result qgraph :=
  let g1 := clean_cycles g in
  clean_orphans fuel (children_of g1) g1 g1.

(** before the repair: no cycle cleaning *)
Definition update_queue_hierarchy_v0 (fuel : nat) (g : qgraph) : result qgraph :=
  clean_orphans fuel (children_of g) g g.

(** ** proportion.go: setFairShare. [ch] = ChildQueues as stored in the queue attributes,
    [g] = pp.queues. getChildQueues stores [pp.queues[id]] without a check; a nil entry is
    dereferenced by SetResourcesShare. Returns the queues that received a fair share. *)
Fixpoint fair_share_rec (fuel : nat) (g : qgraph) (ch : qid -> list qid) (level : list qid) : result (list qid) :=
  match fuel with
  | O => match level with [] => Done [] | _ => OutOfFuel end
  | S f =>
    if forallb (fun c => match lookup g c with Some _ => true | None => false end) level
    then bind (map_result (fun q => fair_share_rec f g ch (ch q)) level) (fun ls => Done (level ++ List.concat ls))
    else Panic
  end.

Definition top_queues (g : qgraph) : list qid :=
  map fst (filter (fun e => match snd e with None => true | Some _ => false end) g).

Definition set_fair_share (fuel : nat) (g : qgraph) (ch : qid -> list qid) : result (list qid) :=
  fair_share_rec fuel g ch (top_queues g).

(** ** job_order_by_queue.go *)

(** InitializeWithJobs: queue exists, its parent exists (or it is a root), it is a leaf *)
Definition job_admitted (g : qgraph) (ch : qid -> list qid) (q : qid) : bool :=
  match lookup g q with
  | None => false
  | Some par =>
    (match par with None => true | Some p => match lookup g p with Some _ => true | None => false end end)
    && match ch q with [] => true | _ => false end
  end.

(** ensureAncestorChainForPush: [created] = ids in jo.queueNodes; returns the new [created].
    Every created node's [parent] pointer is its queue's ParentQueue when that queue exists. *)
Fixpoint ensure_chain (fuel : nat) (g : qgraph) (created : list qid) (child_par : option qid)
  : result (list qid) :=
  match child_par with
  | None => Done created                                   (* root: pushed to rootNodes *)
  | Some p =>
    match lookup g p with
    | None => Done created                                 (* parent does not exist: return *)
    | Some ppar =>
      if mem p created then Done created                   (* parent node existed: linked, stop *)
      else match fuel with
           | O => OutOfFuel
           | S f => ensure_chain f g (p :: created) ppar
           end
    end
  end.

(** PushJob: create the leaf node when new, link
    ancestors, then markAncestorsForReorder follows node.parent = the queue ParentQueue links *)
Definition push_job (fuel : nat) (g : qgraph) (ch : qid -> list qid) (created : list qid) (q : qid)
  : result (list qid) :=
  match lookup g q with
  | None => Panic                                          (* leafQueueInfo.IsLeafQueue() on nil *)
  | Some par =>
    match ch q with
    | _ :: _ => Done created                               (* not a leaf queue: return *)
    | [] =>
      bind (if mem q created then Done created else ensure_chain fuel g (q :: created) par) (fun created' =>
      bind (walk fuel g (Some q)) (fun _ => Done created'))
    end
  end.

(** ** actions/utils/action.go GetMessageOfEviction, Reclaim branch. [g] = ssn.ClusterInfo.Queues,
    which is also the key set of the proportion plugin's map. *)
Definition opt_qid_eqb (a b : option qid) : bool :=
  match a, b with
  | None, None => true
  | Some x, Some y => Pos.eqb x y
  | _, _ => false
  end.

Definition details (g : qgraph) (reclaimer reclaimee : option qid) : result unit :=
  (* ssn.QueueAllocatedResources(reclaimeeQueue) first, then the reclaimer's *)
  bind (queue_resources_fn g reclaimee) (fun _ => queue_resources_fn g reclaimer).

Definition is_some {A} (o : option A) : bool := match o with Some _ => true | None => false end.

(** repaired by commit ee1060a: the queues themselves are described when the parents are equal
    or one of the parent queues does not exist *)
Definition eviction_message (g : qgraph) (reclaimer_q reclaimee_q : qid) : result unit :=
  match lookup g reclaimer_q with
  | None => Panic                                          (* reclaimerQueue.ParentQueue on nil *)
  | Some rpar =>
    match lookup g reclaimee_q with
    | None => Panic                                        (* reclaimeeQueue.ParentQueue on nil *)
    | Some epar =>
      if opt_qid_eqb epar rpar || negb (is_some (lookup_par g rpar)) || negb (is_some (lookup_par g epar))
      then details g (Some reclaimer_q) (Some reclaimee_q)
      else details g rpar epar
    end
  end.

(** before the repair *)
Definition eviction_message_v0 (g : qgraph) (reclaimer_q reclaimee_q : qid) : result unit :=
  match lookup g reclaimer_q with
  | None => Panic
  | Some rpar =>
    match lookup g reclaimee_q with
    | None => Panic
    | Some epar =>
      if opt_qid_eqb epar rpar
      then details g (Some reclaimer_q) (Some reclaimee_q)
      else details g
             (match lookup_par g rpar with Some _ => rpar | None => None end)
             (match lookup_par g epar with Some _ => epar | None => None end)
    end
  end.

(** * Sub-groups (factory.go FromPodGroup) *)

Definition lower_ascii (c : ascii) : ascii :=
  let n := nat_of_ascii c in
  if (Nat.leb 65 n && Nat.leb n 90)%bool then ascii_of_nat (n + 32) else c.
Fixpoint to_lower (s : string) : string :=
  match s with
  | EmptyString => EmptyString
  | String c r => String (lower_ascii c) (to_lower r)
  end.

Record subgroup := { sg_name : string; sg_parent : option string; sg_min : Z }.

(** formatParentName *)
Definition parent_key (s : subgroup) : string :=
  match sg_parent s with None => EmptyString | Some p => to_lower p end.

Definition smem (x : string) (l : list string) : bool := existsb (String.eqb x) l.

Fixpoint has_dup (l : list string) : bool :=
  match l with
  | [] => false
  | x :: r => smem x r || has_dup r
  end.

Definition names (sgs : list subgroup) : list string := map sg_name sgs.

(** [_, hasChildren := children[name]] *)
Definition has_children (sgs : list subgroup) (name : string) : bool :=
  existsb (fun s => String.eqb (parent_key s) name) sgs.

(** keys of the subGroupSets map after createSubGroupInfos (the root "" is always a key) *)
Definition is_set_key (sgs : list subgroup) (name : string) : bool :=
  String.eqb name EmptyString || (smem name (names sgs) && has_children sgs name).

(** addToParent fails iff some sub-group's parent is not a key of subGroupSets; the loop over
    subGroupSets skips the key "" (so a sub-group named "" that is a set is never attached) *)
Definition parents_found (sgs : list subgroup) : bool :=
  forallb (fun s => (String.eqb (sg_name s) EmptyString && has_children sgs EmptyString)
                    || is_set_key sgs (parent_key s)) sgs.

(** the tree hanging off the returned root *)
Inductive sgtree := SGNode (name : string) (sets : list sgtree) (pods : list (string * Z)).

Definition sub_of (sgs : list subgroup) (p : string) : list subgroup :=
  filter (fun s => String.eqb (parent_key s) p) sgs.

(** NewPodSet(name, max(subGroup.MinMember, 1), ...) *)
Definition pod_min (s : subgroup) : Z := Z.max (sg_min s) 1.

Fixpoint build_tree (fuel : nat) (sgs : list subgroup) (name : string) : result sgtree :=
  match fuel with
  | O => OutOfFuel
  | S f =>
    let kids := sub_of sgs name in
    let set_kids := filter (fun s => has_children sgs (sg_name s)) kids in
    let pod_kids := filter (fun s => negb (has_children sgs (sg_name s))) kids in
    bind (map_result (fun s => build_tree f sgs (sg_name s)) set_kids)
         (fun ts => Done (SGNode name ts (map (fun s => (sg_name s, pod_min s)) pod_kids)))
  end.

(** FromPodGroup: [Done None] = an error is returned (the caller keeps the default pod set).
    A sub-group named "" that has children replaces the root entry of subGroupSets, and one
    without children can only hang off a non-root set while nothing hangs off the root: in both
    cases the returned root is empty. *)
Definition from_pod_group (fuel : nat) (sgs : list subgroup) : result (option sgtree) :=
  if has_dup (names sgs) then Done None
  else if negb (parents_found sgs) then Done None
  else if smem EmptyString (names sgs) then Done (Some (SGNode EmptyString [] []))
  else bind (build_tree fuel sgs EmptyString) (fun t => Done (Some t)).

(** SubGroupSet.GetAllPodSets *)
Fixpoint all_pod_sets (t : sgtree) : list (string * Z) :=
  match t with
  | SGNode _ sets pods =>
    pods ++ (fix go (l : list sgtree) : list (string * Z) :=
               match l with [] => [] | x :: r => all_pod_sets x ++ go r end) sets
  end.

Definition default_sub_group : string := "default"%string.

(** job_info.go setSubGroups on a fresh PodGroupInfo: the job's PodSets (name, minAvailable) *)
Definition set_sub_groups (fuel : nat) (sgs : list subgroup) (min_member : Z) : result (list (string * Z)) :=
  bind (from_pod_group fuel sgs) (fun r =>
    match r with
    | None => Done [(default_sub_group, 1%Z)]             (* error: defaults untouched *)
    | Some t =>
      match all_pod_sets t with
      | [] => Done [(default_sub_group, Z.max min_member 1)]
      | l => Done l
      end
    end).

(** AddTaskInfo: a task whose sub-group is not a pod set of the job is dropped (logged) *)
Definition add_task (pod_sets : list (string * Z)) (task_subgroup : string) : bool :=
  let n := if String.eqb task_subgroup EmptyString then default_sub_group else task_subgroup in
  smem n (map fst pod_sets).

(** * Eligibility on the allocate path, restricted to queues (for non-interference):
    after UpdateQueueHierarchy, the job passes InitializeWithJobs and neither capacity walk
    stops ([stop1] = over limit, [stop2] = non-preemptible over quota). *)
Definition eligible (fuel : nat) (g : qgraph) (stop1 stop2 : qid -> bool) (q : qid) : result bool :=
  bind (update_queue_hierarchy fuel g) (fun g' =>
    if job_admitted g' (hierarchy_children g) q then
      bind (walk_until fuel g' stop1 (Some q)) (fun r1 =>
      bind (walk_until fuel g' stop2 (Some q)) (fun r2 =>
        Done (match r1, r2 with None, None => true | _, _ => false end)))
    else Done false).

(** * Well-formed queue graphs (the hypothesis of the totality theorem; decidable) *)

(** the parent chain of [id] reaches a root ("" parent) within [fuel] steps and every
    queue on the way exists *)
Fixpoint reaches_root (fuel : nat) (g : qgraph) (id : qid) : bool :=
  match lookup g id with
  | None => false
  | Some None => true
  | Some (Some p) =>
    match fuel with
    | O => false
    | S f => reaches_root f g p
    end
  end.

(** every queue's parent chain reaches a root within |queues| steps (all parents exist) *)
Definition forest (g : qgraph) : bool :=
  forallb (fun e => reaches_root (List.length g) g (fst e)) g.

Fixpoint nodup_keys (l : list qid) : bool :=
  match l with
  | [] => true
  | x :: r => negb (mem x r) && nodup_keys r
  end.

(** declarative reading: following ParentQueue from [id] reaches "" after exactly [n] steps *)
Inductive steps_to_root (g : qgraph) : qid -> nat -> Prop :=
| str_root id : lookup g id = Some None -> steps_to_root g id 0
| str_step id p n : lookup g id = Some (Some p) -> steps_to_root g p n -> steps_to_root g id (S n).

(** no bound: every queue reaches a root after some number of steps *)
Definition is_forest (g : qgraph) : Prop :=
  forall id, In id (keys g) -> exists n, steps_to_root g id n.

(** the representation is a map (unique keys) and the graph is a forest *)
Definition wellformed (g : qgraph) : bool := nodup_keys (keys g) && forest g.

(** * The statement of totality for one queue graph: every modelled walk returns [Done]
    with fuel |queues|+1, for arbitrary other content ([stop], [has], [created], [ch], the
    queues the walk starts from); look-ups the actions guarantee before calling are
    hypotheses ([lookup g q <> None]). *)
Definition walks_total (g : qgraph) : Prop :=
  (forall cur, exists l, walk (fuel_of g) g cur = Done l) /\
  (forall stop cur, exists r, walk_until (fuel_of g) g stop cur = Done r) /\
  (forall q, exists l, handler (fuel_of g) g q = Done l) /\
  (forall q, exists l, hierarchy_path (fuel_of g) g q = Done l) /\
  (forall a b, lookup g a <> None -> lookup g b <> None ->
               exists p, leveled_queues (fuel_of g) g a b = Done p) /\
  (forall stop a b n, lookup g a <> None -> lookup g b <> None ->
               exists v, reclaimable_skeleton (fuel_of g) g stop a b n = Done v) /\
  (forall has a pa b pb, exists r, minruntime_lca (fuel_of g) g has a pa b pb = Done r) /\
  (forall ch created q, lookup g q <> None -> exists c, push_job (fuel_of g) g ch created q = Done c) /\
  (exists l, set_fair_share (fuel_of g) g (children_of g) = Done l) /\
  update_queue_hierarchy (fuel_of g) g = Done g.

(** the reclaim eviction message for two existing queues *)
Definition message_total (g : qgraph) : Prop :=
  forall a b, lookup g a <> None -> lookup g b <> None -> eviction_message g a b = Done tt.

(** the same for the function as it was before commit ee1060a *)
Definition message_total_v0 (g : qgraph) : Prop :=
  forall a b, lookup g a <> None -> lookup g b <> None -> eviction_message_v0 g a b = Done tt.

(** * Totality on ANY API state: whatever the Queue objects say, UpdateQueueHierarchy returns a
    well-formed graph on which every modelled walk is total, the eviction message is total and
    the fair-share recursion over the stored ChildQueues is total *)
Definition total_after_hierarchy (g : qgraph) : Prop :=
  exists g', update_queue_hierarchy (fuel_of g) g = Done g' /\
             wellformed g' = true /\
             walks_total g' /\
             message_total g' /\
             (exists l, set_fair_share (fuel_of g') g' (hierarchy_children g) = Done l).

(** * Non-interference (allocate path restricted to queues): extra Queue objects [e] — malformed
    or not — next to the graph [g] do not change the eligibility verdict of a job whose own
    queue chain is well formed in [g], unless one of them names the job's queue as its parent
    (which turns it into a non-leaf queue). *)
Definition healthy_unaffected : Prop :=
  forall (g e : qgraph) (s1 s2 : qid -> bool) (q : qid) (n : nat),
    nodup_keys (keys (g ++ e)) = true ->
    steps_to_root g q n ->
    (forall c, ~ In (c, Some q) e) ->
    eligible (fuel_of (g ++ e)) (g ++ e) s1 s2 q = eligible (fuel_of g) g s1 s2 q.
