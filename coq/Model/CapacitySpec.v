(** Declarative side of C08: what "within limit" and "counters are exact"
    mean, written without reference to the control flow of the gates. *)
From Coq Require Import List ZArith QArith Bool.
From KaiV Require Import Model.Capacity.
Import ListNotations.
Open Scope Q_scope.

(** the ids on the path from [id] to its root (itself first) *)
Fixpoint chain (fuel : nat) (qs : list queue) (id : positive) : result (list positive) :=
  match fuel with
  | O => OutOfFuel
  | S n => match find_queue qs id with
           | None => Done []
           | Some q => match chain n qs (q_parent q) with
                       | Done l => Done (id :: l)
                       | OutOfFuel => OutOfFuel
                       | Panic => Panic
                       end
           end
  end.

Definition is_done {A} (r : result A) : bool := match r with Done _ => true | _ => false end.

Fixpoint nodup_ids (seen : list positive) (qs : list queue) : bool :=
  match qs with
  | [] => true
  | q :: r => negb (existsb (Pos.eqb (q_id q)) seen) && nodup_ids (q_id q :: seen) r
  end.

(** decidable well-formedness: unique ids, and following parent links from any
    queue leaves the map within |queues|+1 steps (no cycle). *)
Definition wf_forest (qs : list queue) : bool :=
  nodup_ids [] qs && forallb (fun q => is_done (chain (default_fuel qs) qs (q_id q))) qs.

Definition mem (x : positive) (l : list positive) : bool := existsb (Pos.eqb x) l.

(** [a] is [d] or an ancestor of [d] *)
Definition in_subtree (qs : list queue) (a d : positive) : bool :=
  match chain (default_fuel qs) qs d with
  | Done l => mem a l
  | _ => false
  end.

(** ground truth: what the tasks currently charged in the subtree of [a] add up to *)
Definition charged (np_only : bool) (qs : list queue) (led : list entry) (a : positive) (r : res) : Q :=
  fold_right (fun e acc =>
    if in_subtree qs a (e_queue e) && (negb np_only || negb (e_preempt e))
    then rget (e_charge e) r + acc else acc) 0 led.

Definition counters_exact (s : state) : Prop :=
  forall q, In q (s_queues s) -> forall r,
    rget (q_alloc q) r == charged false (s_queues s) (s_ledger s) (q_id q) r /\
    rget (q_np q) r == charged true (s_queues s) (s_ledger s) (q_id q) r.

Definition counters_exact_b (s : state) : bool :=
  forallb (fun q => forallb (fun r =>
    Qeq_bool (rget (q_alloc q) r) (charged false (s_queues s) (s_ledger s) (q_id q) r) &&
    Qeq_bool (rget (q_np q) r) (charged true (s_queues s) (s_ledger s) (q_id q) r)) all_resources)
    (s_queues s).

(** requests are non-negative quantities *)
Definition rq_nonneg (x : rq) : bool := forallb (fun r => Qle_bool 0 (rget x r)) all_resources.
Definition rq_le (a b : rq) : bool := forallb (fun r => Qle_bool (rget a r) (rget b r)) all_resources.

Definition wf_task (tn : task * positive) : bool :=
  let (t, nm) := tn in
  rq_nonneg (job_task_request t) && rq_nonneg (node_task_request nm t) && rq_nonneg (charge nm t).
Definition wf_job (j : job) : bool := forallb wf_task (j_tasks j).

(** a task whose charge is bounded by what the job-level gate summed for it,
    resp. by what the node-level gate checked for it *)
Definition job_covers (tn : task * positive) : bool :=
  let (t, nm) := tn in rq_le (charge nm t) (job_task_request t).
Definition node_covers (tn : task * positive) : bool :=
  let (t, nm) := tn in rq_le (charge nm t) (node_task_request nm t).
Definition covered (j : job) : bool :=
  forallb job_covers (j_tasks j) || forallb node_covers (j_tasks j).

Definition limit_of (np_only : bool) (q : queue) : rq := if np_only then q_deserved q else q_limit q.

(** "a step that raises the charged amount of [q] leaves it within the cap":
    [np_only = false]: total allocation vs. limit;
    [np_only = true]: non-preemptible allocation vs. deserved quota. *)
Definition raise_within (np_only : bool) (s s' : state) : Prop :=
  forall q, In q (s_queues s) -> forall r,
    ~ rget (limit_of np_only q) r == unlimited ->
    charged np_only (s_queues s) (s_ledger s) (q_id q) r
      < charged np_only (s_queues s') (s_ledger s') (q_id q) r ->
    charged np_only (s_queues s') (s_ledger s') (q_id q) r <= rget (limit_of np_only q) r.

Definition ledger_nonneg (s : state) : bool := forallb (fun e => rq_nonneg (e_charge e)) (s_ledger s).

Definition accepts_ok (P : job -> bool) (xs : list step) : Prop :=
  forall j, In (AdmitJob j) xs -> P j = true.

(** the full-strength statement (for [np_only] = false: C08_limit, true:
    C08_nonpreemptible_quota): along every sequence of decisions from a
    consistent snapshot, every step that raises a queue's charged amount
    leaves it within the cap -- for the queue and (quantifying over all
    queues) every ancestor. *)
Definition C08_statement (np_only : bool) : Prop :=
  forall (fuel : nat) (s0 s s' : state) (pre : list step) (x : step),
    wf_forest (s_queues s0) = true -> counters_exact s0 -> ledger_nonneg s0 = true ->
    accepts_ok wf_job (pre ++ [x]) ->
    run fuel s0 pre = Done s -> do_step fuel s x = Done s' ->
    raise_within np_only s s'.

(** the same under the hypothesis that the deciding job is [covered] *)
Definition C08_statement_covered (np_only : bool) : Prop :=
  forall (fuel : nat) (s0 s s' : state) (pre : list step) (x : step),
    wf_forest (s_queues s0) = true -> counters_exact s0 -> ledger_nonneg s0 = true ->
    accepts_ok wf_job (pre ++ [x]) -> accepts_ok covered [x] ->
    run fuel s0 pre = Done s -> do_step fuel s x = Done s' ->
    raise_within np_only s s'.

(** ** The snapshot

    What the session-open pass has to produce, said without its control flow:
    the tasks charged are exactly the snapshot's pods whose status is in the
    allocated class (Allocated, Binding, Bound, Running -- [allocated_status]
    of Model/Status.v, tied to pod_status.AllocatedStatus by
    Proofs/StatusTables.v), each with its AcceptedResource; [counters_exact]
    for that ledger then says that Allocated / AllocatedNotPreemptible of every
    queue are the sums over exactly those pods in its subtree.  (The pass
    prepends, hence the [rev].) *)
Definition allocated_pods (ps : list spod) : list spod :=
  filter (fun p => KaiV.Model.Status.allocated_status (sp_status p)) ps.
Definition allocated_entries (ps : list spod) : list entry := rev (map entry_of (allocated_pods ps)).

(** a snapshot before the pass: createQueueResourceAttrs leaves every counter at 0 *)
Definition fresh (qs : list queue) : Prop :=
  forall q, In q qs -> forall r, rget (q_alloc q) r == 0 /\ rget (q_np q) r == 0.

(** id, parent, limit and deserved quota of every queue: what the pass must not touch *)
Definition shape (q : queue) := (q_id q, q_parent q, q_limit q, q_deserved q).
