(** Model of the proportion plugin's reclaim gate (property C07):
    - pkg/scheduler/plugins/proportion/reclaimable/reclaimable.go:
        (Reclaimable).CanReclaimResources, (Reclaimable).Reclaimable,
        reclaimResourcesFromReclaimees, subtractReclaimedResources,
        reclaimingQueuesRemainWithinBoundaries, isFairShareSaturationLowerPerResource,
        fairShareSaturationRatio, getLeveledQueues, getHierarchyPath,
        getInvolvedResourcesNames
    - pkg/scheduler/plugins/proportion/reclaimable/strategies/strategies.go:
        FitsReclaimStrategy, MaintainFairShareStrategy.Reclaimable,
        GuaranteeDeservedQuotaStrategy.Reclaimable, reclaimerWillGoOverQuota
    - pkg/scheduler/plugins/proportion/resource_share: ResourceQuantities.Add/Sub/
        LessEqual, compareQuantities (-1 = unlimited), ResourceShare.GetAllocatableShare
    - pkg/scheduler/plugins/proportion/utils.QuantifyResource (GPUs + MIG instances),
      resource_info.Resource.Cpu/Memory/GPUs/GetTotalGPURequest.
    Quantities are exact rationals ([Q]); Go uses float64 (rounding is not modelled; the
    harness only generates inputs on which the float arithmetic is exact).
    Go's map iteration order over the reclaimee map is the order of the [victims] list.
    The map key of a queue is assumed equal to its UID field; "" (no parent) is [None].
    Parent-chain loops take fuel [S (length qs)] ([OutOfFuel] when it runs out: Go would spin).
    nil dereferences ([queues[id]] missing and then used) are [Panic].
    Left out: proportion.go's getVictimResources (elastic/core split of a victim job),
    nil *Resource entries, log output. *)
From Coq Require Import List ZArith QArith Bool.
Import ListNotations.
Open Scope Q_scope.

Definition qid := positive.

Inductive rname := Cpu | Mem | Gpu.
Definition all_res : list rname := [Cpu; Mem; Gpu].

(** rs.ResourceQuantities *)
Record vec := mkvec { v_cpu : Q; v_mem : Q; v_gpu : Q }.
Definition vget (v : vec) (r : rname) : Q :=
  match r with Cpu => v_cpu v | Mem => v_mem v | Gpu => v_gpu v end.
Definition vadd (a b : vec) : vec :=
  mkvec (v_cpu a + v_cpu b) (v_mem a + v_mem b) (v_gpu a + v_gpu b).
Definition vsub (a b : vec) : vec :=
  mkvec (v_cpu a - v_cpu b) (v_mem a - v_mem b) (v_gpu a - v_gpu b).

(** commonconstants.UnlimitedResourceQuantity *)
Definition unlimited : Q := -1 # 1.
Definition is_unl (x : Q) : bool := Qeq_bool x unlimited.
Definition Qgtb (a b : Q) : bool := negb (Qle_bool a b).   (* a > b *)

(** compareQuantities a b > 0 *)
Definition cmp_gt (a b : Q) : bool :=
  if is_unl a then negb (is_unl b)
  else if is_unl b then false
  else Qgtb a b.

(** ResourceQuantities.LessEqual *)
Definition less_equal (a b : vec) : bool :=
  forallb (fun r => negb (cmp_gt (vget a r) (vget b r))) all_res.

(** rs.ResourceShare (fields read by the reclaim code) *)
Record rshare := {
  s_deserved : Q;
  s_fair : Q;
  s_max : Q;          (* MaxAllowed *)
  s_alloc : Q;        (* Allocated *)
  s_allocnp : Q;      (* AllocatedNotPreemptible *)
}.

(** rs.QueueAttributes *)
Record queue := {
  q_id : qid;
  q_parent : option qid;   (* ParentQueue; None = "" *)
  q_cpu : rshare;
  q_mem : rshare;
  q_gpu : rshare;
}.

Definition share_vec (f : rshare -> Q) (q : queue) : vec :=
  mkvec (f (q_cpu q)) (f (q_mem q)) (f (q_gpu q)).

Definition Qmaxb (a b : Q) : Q := if Qle_bool a b then b else a.
Definition Qminb (a b : Q) : Q := if Qle_bool a b then a else b.

(** ResourceShare.GetAllocatableShare *)
Definition allocatable_share (s : rshare) : Q :=
  if is_unl (s_deserved s) then s_max s
  else let a := Qmaxb (s_deserved s) (s_fair s) in
       if is_unl (s_max s) then a else Qminb (s_max s) a.

Definition alloc_vec := share_vec s_alloc.
Definition allocnp_vec := share_vec s_allocnp.
Definition fair_vec := share_vec s_fair.
Definition deserved_vec := share_vec s_deserved.
Definition allocatable_vec := share_vec allocatable_share.

(** resource_info.Resource: milli-CPU, memory, whole/fractional GPUs, and the GPU
    equivalent of its MIG instances (sum of profile size * count). *)
Record res := { r_cpu : Q; r_mem : Q; r_gpus : Q; r_mig : Q }.

(** utils.QuantifyResource: GetTotalGPURequest = gpus + MIG *)
Definition quantify (r : res) : vec := mkvec (r_cpu r) (r_mem r) (r_gpus r + r_mig r).

(** set of resource names *)
Record iset := { i_cpu : bool; i_mem : bool; i_gpu : bool }.
Definition iempty : iset := {| i_cpu := false; i_mem := false; i_gpu := false |}.
Definition iunion (a b : iset) : iset :=
  {| i_cpu := i_cpu a || i_cpu b; i_mem := i_mem a || i_mem b; i_gpu := i_gpu a || i_gpu b |}.
Definition isempty (s : iset) : bool := negb (i_cpu s || i_mem s || i_gpu s).
Definition imem (s : iset) (r : rname) : bool :=
  match r with Cpu => i_cpu s | Mem => i_mem s | Gpu => i_gpu s end.

(** getInvolvedResourcesNames: note GPUs() (not the MIG total) decides "GPU involved" *)
Definition involved_one (r : res) : iset :=
  {| i_cpu := Qgtb (r_cpu r) 0; i_mem := Qgtb (r_mem r) 0; i_gpu := Qgtb (r_gpus r) 0 |}.
Definition involved_names (rs : list res) : iset :=
  fold_left (fun acc r => iunion acc (involved_one r)) rs iempty.

Record reclaimer := {
  rc_queue : qid;
  rc_res : res;            (* RequiredResources *)
  rc_preemptible : bool;   (* IsPreemptable *)
}.

Inductive result (A : Type) : Type :=
| Ok (a : A)
| Panic
| OutOfFuel.
Arguments Ok {A} a.
Arguments Panic {A}.
Arguments OutOfFuel {A}.

(** queues[id] *)
Fixpoint lookup (qs : list queue) (id : qid) : option queue :=
  match qs with
  | [] => None
  | q :: r => if Pos.eqb (q_id q) id then Some q else lookup r id
  end.

(** for q, ok := queues[id]; ok; q, ok = queues[q.ParentQueue] { ... }: the queues
    visited, leaf first. [None] = out of fuel. *)
Fixpoint chain (fuel : nat) (qs : list queue) (id : qid) : option (list queue) :=
  match fuel with
  | O => None
  | S f =>
      match lookup qs id with
      | None => Some []
      | Some q =>
          match q_parent q with
          | None => Some [q]
          | Some p => match chain f qs p with
                      | Some l => Some (q :: l)
                      | None => None
                      end
          end
      end
  end.

Definition chain_of (qs : list queue) (id : qid) : option (list queue) :=
  chain (S (length qs)) qs id.

(** the loop of getLeveledQueues over the two root-first paths *)
Fixpoint level_walk (pa pb : list queue) (cur : option (queue * queue)) : option (queue * queue) :=
  match pa, pb with
  | a :: ra, b :: rb =>
      if Pos.eqb (q_id a) (q_id b) then level_walk ra rb (Some (a, b)) else Some (a, b)
  | _, _ => cur
  end.

(** getLeveledQueues; [Ok None] = both results nil *)
Definition leveled (qs : list queue) (a b : qid) : result (option (queue * queue)) :=
  match chain_of qs a, chain_of qs b with
  | Some ca, Some cb => Ok (level_walk (rev ca) (rev cb) None)
  | _, _ => OutOfFuel
  end.

(** * CanReclaimResources *)
Definition can_reclaim (qs : list queue) (rc : reclaimer) : result bool :=
  match lookup qs (rc_queue rc) with
  | None => Panic
  | Some q =>
      let req := quantify (rc_res rc) in
      if negb (less_equal (vadd (alloc_vec q) req) (fair_vec q)) then Ok false
      else if rc_preemptible rc then Ok true
      else Ok (less_equal (vadd (allocnp_vec q) req) (deserved_vec q))
  end.

(** * strategies.FitsReclaimStrategy *)
Definition maintain_fair_share (eq : queue) (remaining : vec) : bool :=
  negb (less_equal remaining (allocatable_vec eq)).

Definition reclaimer_over_quota (rr : res) (rq : queue) : bool :=
  negb (less_equal (vadd (alloc_vec rq) (quantify rr)) (deserved_vec rq)).

Definition guarantee_deserved (rr : res) (rq eq : queue) (remaining : vec) : bool :=
  if reclaimer_over_quota rr rq then false
  else if less_equal remaining (deserved_vec eq) then false
  else true.

Definition fits_strategy (rr : res) (rq eq : queue) (remaining : vec) : bool :=
  if maintain_fair_share eq remaining then true
  else guarantee_deserved rr rq eq remaining.

(** * Reclaimable *)

(** remainingResourcesMap and involvedResourcesByQueue *)
Record st := { rem : list (qid * vec); inv : list (qid * iset) }.
Definition st0 : st := {| rem := []; inv := [] |}.

Fixpoint aget {A} (m : list (qid * A)) (k : qid) : option A :=
  match m with
  | [] => None
  | (k', v) :: r => if Pos.eqb k' k then Some v else aget r k
  end.
Fixpoint aset {A} (m : list (qid * A)) (k : qid) (v : A) : list (qid * A) :=
  match m with
  | [] => [(k, v)]
  | (k', v') :: r => if Pos.eqb k' k then (k, v) :: r else (k', v') :: aset r k v
  end.

(** remainingResourcesMap[q.UID], initialised from the allocated share when absent *)
Definition cur_rem (s : st) (q : queue) : vec :=
  match aget (rem s) (q_id q) with Some v => v | None => alloc_vec q end.

Definition touch (s : st) (q : queue) : st :=
  match aget (rem s) (q_id q) with
  | Some _ => s
  | None => {| rem := aset (rem s) (q_id q) (alloc_vec q); inv := inv s |}
  end.

(** one iteration of subtractReclaimedResources' loop *)
Definition sub_one (kinv : iset) (amount : vec) (s : st) (q : queue) : st :=
  {| rem := aset (rem s) (q_id q) (vsub (cur_rem s q) amount);
     inv := aset (inv s) (q_id q)
              (match aget (inv s) (q_id q) with Some i => iunion i kinv | None => kinv end) |}.

Definition subtract (ch : list queue) (kinv : iset) (amount : vec) (s : st) : st :=
  fold_left (sub_one kinv amount) ch s.

(** the inner loop over one reclaimee queue's victims; [ch] is the parent chain of the
    reclaimee queue (leaf first) *)
Fixpoint victims_loop (rr : res) (rq eq : queue) (ch : list queue) (kinv : iset)
         (vs : list res) (s : st) : bool * st :=
  match vs with
  | [] => (true, s)
  | v :: r =>
      if fits_strategy rr rq eq (cur_rem s eq)
      then victims_loop rr rq eq ch kinv r (subtract ch kinv (quantify v) s)
      else (false, s)
  end.

(** one iteration of reclaimResourcesFromReclaimees' outer loop *)
Definition step_key (qs : list queue) (rc : reclaimer) (kv : qid * list res) (s : st)
  : result (bool * st) :=
  let (k, vs) := kv in
  match leveled qs (rc_queue rc) k with
  | OutOfFuel => OutOfFuel
  | Panic => Panic
  | Ok None => Panic                       (* reclaimeeQueue.UID on nil *)
  | Ok (Some (rq, eq)) =>
      let kinv := involved_names vs in
      let s1 := {| rem := rem s; inv := aset (inv s) k kinv |} in
      let s2 := touch s1 eq in
      match chain_of qs k with
      | None => OutOfFuel
      | Some ch => Ok (victims_loop (rc_res rc) rq eq ch kinv vs s2)
      end
  end.

Fixpoint reclaim_from (qs : list queue) (rc : reclaimer) (victims : list (qid * list res))
         (s : st) : result (bool * st) :=
  match victims with
  | [] => Ok (true, s)
  | kv :: r =>
      match step_key qs rc kv s with
      | Ok (true, s') => reclaim_from qs rc r s'
      | other => other
      end
  end.

(** float64 extended with what fairShareSaturationRatio and the multiplication can produce *)
Inductive ext := Fin (q : Q) | PInf | NInf | NaN.

(** fairShareSaturationRatio *)
Definition ratio (allocated fair : Q) : ext :=
  if Qeq_bool fair 0 then (if Qgtb allocated 0 then PInf else Fin 0)
  else if is_unl fair then Fin 0
  else Fin (allocated / fair).

Definition ext_gt1 (x : ext) : bool :=
  match x with Fin a => Qgtb a 1 | PInf => true | _ => false end.
Definition ext_mul (x : ext) (m : Q) : ext :=
  match x with
  | Fin a => Fin (a * m)
  | PInf => if Qgtb m 0 then PInf else if Qeq_bool m 0 then NaN else NInf
  | NInf => if Qgtb m 0 then NInf else if Qeq_bool m 0 then NaN else PInf
  | NaN => NaN
  end.
Definition ext_ge (x y : ext) : bool :=
  match x, y with
  | NaN, _ | _, NaN => false
  | PInf, _ => true
  | _, NInf => true
  | Fin a, Fin b => Qle_bool b a
  | Fin _, PInf => false
  | NInf, _ => false
  end.

(** the body of isFairShareSaturationLowerPerResource for one resource *)
Definition saturation_ok1 (m : Q) (ra rf sa sf : Q) : bool :=
  if is_unl rf && is_unl sf then true
  else
    let rr := ratio ra rf in
    let rs := ratio sa sf in
    negb (ext_gt1 rr && Qgtb sf 0 && ext_ge (ext_mul rr m) rs).

Definition saturation_lower (m : Q) (involved : iset) (ra rf sa sf : vec) : bool :=
  forallb (fun r => if imem involved r
                    then saturation_ok1 m (vget ra r) (vget rf r) (vget sa r) (vget sf r)
                    else true) all_res.

(** the loop over [for siblingID := range remainingResourcesMap] for one reclaiming queue *)
Fixpoint siblings_ok (m : Q) (qs : list queue) (rinv : iset) (rq : queue) (cur : vec)
         (s : st) (keys : list qid) : result bool :=
  match keys with
  | [] => Ok true
  | k :: r =>
      match lookup qs k with
      | None => Panic                                   (* sibling.ParentQueue on nil *)
      | Some sib =>
          let same_parent :=
            match q_parent sib, q_parent rq with
            | None, None => true
            | Some a, Some b => Pos.eqb a b
            | _, _ => false
            end in
          if negb same_parent || Pos.eqb (q_id sib) (q_id rq) then siblings_ok m qs rinv rq cur s r
          else
            match aget (inv s) k with
            | None =>
                (* maps.Clone(nil) is nil; maps.Copy into a nil map panics as soon as the
                   reclaimer involves a resource (a queue that was looked at but from which
                   no victim was subtracted: empty victim list) *)
                if isempty rinv then siblings_ok m qs rinv rq cur s r else Panic
            | Some i =>
                if saturation_lower m (iunion i rinv) cur (fair_vec rq) (cur_rem s sib) (fair_vec sib)
                then siblings_ok m qs rinv rq cur s r
                else Ok false
            end
      end
  end.

(** reclaimingQueuesRemainWithinBoundaries over the reclaimer queue's parent chain *)
Fixpoint boundaries (m : Q) (qs : list queue) (rc : reclaimer) (ch : list queue) (s : st)
  : result bool :=
  match ch with
  | [] => Ok true
  | rq :: rest =>
      let req := quantify (rc_res rc) in
      let cur := vadd (cur_rem s rq) req in
      (* remainingResources.Add mutates the map entry when it exists *)
      let s' := match aget (rem s) (q_id rq) with
                | Some _ => {| rem := aset (rem s) (q_id rq) cur; inv := inv s |}
                | None => s
                end in
      match siblings_ok m qs (involved_names [rc_res rc]) rq cur s' (map fst (rem s')) with
      | Ok true =>
          if rc_preemptible rc then boundaries m qs rc rest s'
          else if less_equal (vadd (allocnp_vec rq) req) (deserved_vec rq)
               then boundaries m qs rc rest s'
               else Ok false
      | other => other
      end
  end.

Definition reclaimable (m : Q) (qs : list queue) (rc : reclaimer)
           (victims : list (qid * list res)) : result bool :=
  match reclaim_from qs rc victims st0 with
  | Ok (false, _) => Ok false
  | Ok (true, s) =>
      match chain_of qs (rc_queue rc) with
      | None => OutOfFuel
      | Some ch => boundaries m qs rc ch s
      end
  | Panic => Panic
  | OutOfFuel => OutOfFuel
  end.
