(** What a pod requests from a node (C01: "requested by the pods" = the request Kubernetes holds the node to).

    Kubernetes rule (k8s.io/component-helpers/resource.PodRequests; kubelet admission, kube-scheduler
    NodeResourcesFit): the regular containers run together, the init containers run one at a time before them, the
    sandbox overhead of the runtime class is held in every stage, so per resource
        request = max (sum containers, max init containers) + overhead.
    The scheduler's reading is pod_info.getPodResourceRequest (pkg/scheduler/api/pod_info/pod_info.go):
    getPodResourceWithoutInitContainers, SetMaxResource over the init containers, then Add of the overhead
    ([pod_request]); the result plus one pod slot is what IsTaskAllocatable compares with the idle amount and what
    the node books carry ([booked]).

    A resource list is a [res] (Model/Res.v): the map kind -> quantity over the fixed family [rkind], read with
    [proj]; statements "for every resource" are quantified over [rkind]. Quantities are integers (milli-CPU, bytes,
    devices, instances, extended milli-units). *)
From Coq Require Import List ZArith Bool.
From KaiV Require Import Model.Res Model.Node Model.NodeSpec.
Import ListNotations.
Open Scope Z_scope.

Inductive rkind := KCpu | KMem | KGpu | KPods | KMig | KExt.
Definition all_kinds : list rkind := [KCpu; KMem; KGpu; KPods; KMig; KExt].
Definition proj (k : rkind) (r : res) : Z :=
  match k with KCpu => cpu r | KMem => mem r | KGpu => gpu r | KPods => pods r | KMig => mig r | KExt => ext r end.

(** BaseResource.SetMaxResource / GpuResourceRequirement.SetMaxResource on whole devices *)
Definition rmax (a b : res) : res :=
  mkRes (Z.max (cpu a) (cpu b)) (Z.max (mem a) (mem b)) (Z.max (gpu a) (gpu b)) (Z.max (pods a) (pods b))
        (Z.max (mig a) (mig b)) (Z.max (ext a) (ext b)).
(** the loop "for each init container: result.SetMaxResource(container)" *)
Definition rmaxl (a : res) (l : list res) : res := fold_left rmax l a.

Record podspec := mkPS {
  ps_conts : list res;     (* requests of the regular containers *)
  ps_inits : list res;     (* requests of the init containers, in order *)
  ps_overhead : res;       (* spec.overhead, rzero when absent *)
}.

(** the Kubernetes rule = getPodResourceRequest of the unchanged code, before the pod slot is added *)
Definition pod_request (p : podspec) : res :=
  radd (rmaxl (rsum (ps_conts p)) (ps_inits p)) (ps_overhead p).
Definition one_pod_slot : res := mkRes 0 0 0 1 0 0.
Definition booked (p : podspec) : res := radd (pod_request p) one_pod_slot.

(** the variant that adds the overhead to the containers BEFORE the maximum with the init containers *)
Definition early_overhead_request (p : podspec) : res :=
  rmaxl (radd (rsum (ps_conts p)) (ps_overhead p)) (ps_inits p).

(** the stages of a pod's life on the node and what the pod holds in each: the i-th init container alone plus the
    sandbox, or all regular containers together plus the sandbox *)
Inductive pstage := StInit (i : nat) | StRun.
Definition demand_at (p : podspec) (s : pstage) : res :=
  match s with
  | StRun => radd (rsum (ps_conts p)) (ps_overhead p)
  | StInit i => match nth_error (ps_inits p) i with
                | Some c => radd c (ps_overhead p)
                | None => radd (rsum (ps_conts p)) (ps_overhead p)
                end
  end.

Definition res_nonneg (r : res) : Prop := forall k, 0 <= proj k r.
Definition spec_nonneg (p : podspec) : Prop :=
  Forall res_nonneg (ps_conts p) /\ Forall res_nonneg (ps_inits p) /\ res_nonneg (ps_overhead p).

(** per resource: the largest init container (0 without init containers) *)
Definition zmaxl (a : Z) (l : list Z) : Z := fold_left Z.max l a.
Definition max_init (k : rkind) (p : podspec) : Z := zmaxl 0 (map (proj k) (ps_inits p)).

(** ** Restartable init containers (sidecars, restartPolicy Always): AggregateContainerRequests of
    k8s.io/component-helpers/resource. A sidecar keeps running: it is added to the regular containers, and every later
    init container runs on top of the sidecars started before it. State: (sidecars so far, largest init stage). *)
Definition k8s_step (st : res * res) (c : bool * res) : res * res :=
  let use := radd (snd c) (fst st) in
  if fst c then (use, rmax (snd st) use) else (fst st, rmax (snd st) use).
Definition k8s_request (conts : list res) (inits : list (bool * res)) (oh : res) : res :=
  let st := fold_left k8s_step inits (rzero, rzero) in
  radd (rmax (radd (rsum conts) (fst st)) (snd st)) oh.

(** the README pod of seeded/C01-5: container 500m / 512Mi, init container 1500m / 1536Mi, overhead 500m / 512Mi *)
Definition readme_pod : podspec :=
  mkPS [mkRes 500 536870912 0 0 0 0] [mkRes 1500 1610612736 0 0 0 0] (mkRes 500 536870912 0 0 0 0).
