(** Topology constraints of jobs and (nested) sub-groups (property C04).

    Modelled Go code (as it is):
    - pkg/scheduler/plugins/topology/topology_plugin.go  initializeTopologyTree,
      addNodeDataToTopology; common.go isNodePartOfTopology (a node is in the tree
      only if it carries the label of EVERY level); topology_structs.go
      calcDomainId: the id of a node's domain at level i is the "."-JOIN of its
      label values of levels 0..i                                                -> [node_vec], [dom_id], [nodes_of]
    - job_filtering.go subSetNodesFn / getJobTopology / calculateRelevantDomainLevels /
      getJobAllocatableDomains / getRelevantDomainsWithAllocatedPods /
      hasActiveJobPodInDomain / addSubTreeToDomainMap                            -> [subset_cands]
      hasActiveAllocatedTasks / hasActiveJobPodInDomain's status test           -> [pin_rule], [pinning]
      The resource-fit part (lowestCommonDomainID, checkJobDomainFit,
      calcTreeAllocatable) and the ordering (sortTree, sortDomainInfos) only
      drop and reorder candidates: an arbitrary sub-selection oracle             -> [subselect]
    - pkg/scheduler/actions/common/allocate.go allocateSubGroupSet /
      allocateSubGroupSetOnNodes / allocatePodSet / allocateTasksOnNodeSet with
      checkpoint / rollback over the candidate node sets; allocateTask is an
      oracle that may only answer with a node of the set it was given           -> [alloc_sg]
    - pkg/scheduler/api/podgroup_info/subgroup_info/factory.go: the tree of
      sub-group sets and pod sets, each with an optional constraint              -> [sgt]

    Assumptions (enforced by the Topology CRD validation, never generated
    otherwise): the level labels of a topology are pairwise different and none is
    called "root".  Domain levels are therefore referred to by index ([None] is
    the root).  No proofs in this file. *)
From Coq Require Import List String ZArith Bool PeanoNat.
From KaiV Require Import Model.Placement Model.Status.
Import ListNotations.
Open Scope string_scope.
Open Scope list_scope.

Record topo := mkTopo { tp_name : string; tp_levels : list string }.
Record tcons := mkTC { tc_topo : string; tc_req : string; tc_pref : string }.

Definition find_topo (topos : list topo) (name : string) : option topo :=
  find (fun t => String.eqb (tp_name t) name) topos.

(** the values of the level labels, coarsest first; None if one is missing *)
Fixpoint node_vec (levels : list string) (ls : labels) : option (list string) :=
  match levels with
  | [] => Some []
  | k :: r =>
      match lget k ls, node_vec r ls with
      | Some v, Some vs => Some (v :: vs)
      | _, _ => None
      end
  end.

(** the nodes of the session that are part of the topology, with their vectors *)
Definition vecs_of (levels : list string) (nodes : list pnode) : list (string * list string) :=
  flat_map (fun n => match node_vec levels (nd_labels n) with Some v => [(nd_name n, v)] | None => [] end) nodes.

(** calcDomainId *)
Definition dom_id (i : nat) (v : list string) : string := String.concat "." (firstn (S i) v).

Definition lref := option nat.   (* None = the root level *)

Fixpoint idx_of (name : string) (levels : list string) : option nat :=
  match levels with
  | [] => None
  | l :: r => if String.eqb l name then Some 0 else option_map S (idx_of name r)
  end.

Definition ref_of (levels : list string) (name : string) : option lref :=
  if String.eqb name "root" then Some None else option_map Some (idx_of name levels).

(** the nodes of domain [id] at level [rf] (DomainInfo.Nodes) *)
Definition nodes_of (vecs : list (string * list string)) (rf : lref) (id : string) : list string :=
  match rf with
  | None => map fst vecs
  | Some i => map fst (filter (fun nv => String.eqb (dom_id i (snd nv)) id) vecs)
  end.

Definition ids_at (vecs : list (string * list string)) (rf : lref) : list string :=
  match rf with
  | None => ["root"]
  | Some i => map (fun nv => dom_id i (snd nv)) vecs
  end.

(** calculateRelevantDomainLevels: the levels scanned from the finest up, kept
    from the preferred (or required) one on, until the required one; None is a
    configuration error *)
Definition down_from (hi lo : nat) : list lref := map Some (rev (seq lo (S hi - lo))).

Definition rel_levels (levels : list string) (req pref : string) : option (list lref) :=
  match String.eqb req "", String.eqb pref "" with
  | true, true => None
  | false, true => match ref_of levels req with Some r => Some [r] | None => None end
  | true, false =>
      match ref_of levels pref with
      | Some None => Some [None]
      | Some (Some p) => Some (down_from p 0 ++ [None])
      | None => None
      end
  | false, false =>
      match ref_of levels req, ref_of levels pref with
      | Some None, Some None => Some [None]
      | Some None, Some (Some p) => Some (down_from p 0 ++ [None])
      | Some (Some r), Some (Some p) => if Nat.leb r p then Some (down_from p r) else None
      | _, _ => None
      end
  end.

(** Children links of the tree are witnessed by nodes *)
Definition children (vecs : list (string * list string)) (i : nat) (id : string) : list string :=
  map (fun nv => dom_id (S i) (snd nv)) (filter (fun nv => String.eqb (dom_id i (snd nv)) id) vecs).

(** ids at level [i + gap] in the subtree of domain [id] of level [i] (addSubTreeToDomainMap) *)
Fixpoint reach (vecs : list (string * list string)) (i : nat) (id : string) (gap : nat) : list string :=
  match gap with
  | O => [id]
  | S g => flat_map (children vecs (i + g)) (reach vecs i id g)
  end.

Definition active_t := list (positive * string).   (* active-allocated pods and their nodes *)

Definition entries (ms : list positive) (l : active_t) : active_t :=
  filter (fun e => mem_pos (fst e) ms) l.

(** The pods of a workload that sit on a node, with their status (the pod sets
    of the session's job).  Which of them PIN the required-level domain is
    decided by status: job_filtering.go hasActiveJobPodInDomain tests
    pod_status.IsActiveAllocatedStatus (Allocated, Pipelined, Binding, Bound,
    Running) - a Releasing pod (terminating after a deletion, or evicted earlier
    in the cycle) holds node resources but pins nothing, and neither does a
    Succeeded / Failed one. *)
Definition spods := list (positive * string * status).

Definition pinning (pins : status -> bool) (ps : spods) : active_t :=
  flat_map (fun e : positive * string * status => if pins (snd e) then [fst e] else []) ps.

(** the code's rule *)
Definition pin_rule : status -> bool := active_allocated.
(** NOT the code: the near-identical class that also holds Releasing
    (pod_status.IsActiveUsedStatus) *)
Definition pin_rule_used : status -> bool := active_used.

(** the workload's ACTIVE pods in the sense of the property (what a new
    placement must share its required-level domain with) *)
Definition active_pods (ps : spods) : active_t := pinning active_allocated ps.

(** the domains a level contributes (relevantDomainsByLevel[level]) *)
Definition relevant_ids (vecs : list (string * list string)) (levels : list string) (req : string)
           (active_nodes : list string) (rf : lref) : list string :=
  match active_nodes, String.eqb req "" with
  | _ :: _, false =>
      (* pinned by the active pods: sub-trees of the required-level domains that hold one *)
      match ref_of levels req with
      | Some (Some l) =>
          match rf with
          | Some j =>
              if Nat.leb l j then
                flat_map (fun idr => if existsb (fun a => mem_str a (nodes_of vecs (Some l) idr)) active_nodes
                                     then reach vecs l idr (j - l) else [])
                         (ids_at vecs (Some l))
              else []
          | None => []
          end
      | Some None =>
          if existsb (fun a => mem_str a (map fst vecs)) active_nodes then ids_at vecs rf else []
      | None => []
      end
  | _, _ => ids_at vecs rf
  end.

Inductive sn_res :=
| SNPass                                  (* no constraint, or nothing to allocate: the node set as it is *)
| SNSets (cands : list (list string)).   (* one node set per candidate domain; [] also for errors *)

(** subSetNodesFn without the fit filter / ordering *)
Definition subset_cands (topos : list topo) (nodes : list pnode) (tc : option tcons) (ms : list positive)
           (ntasks : nat) (allowed : list string) (act : active_t) : sn_res :=
  match tc with
  | None => SNPass
  | Some c =>
      if String.eqb (tc_topo c) "" then SNPass
      else match find_topo topos (tc_topo c) with
           | None => SNSets []
           | Some T =>
               match ntasks with
               | O => SNPass
               | _ =>
                   let vecs := vecs_of (tp_levels T) nodes in
                   let valid := filter (fun nm => mem_str nm (map fst vecs)) allowed in
                   match rel_levels (tp_levels T) (tc_req c) (tc_pref c) with
                   | None => SNSets []
                   | Some lv =>
                       let an := map snd (entries ms act) in
                       SNSets (flat_map (fun rf =>
                                 map (fun id => filter (fun nm => mem_str nm valid) (nodes_of vecs rf id))
                                     (relevant_ids vecs (tp_levels T) (tc_req c) an rf)) lv)
                   end
               end
           end
  end.

(** any sub-selection, order and thinning of the candidate sets *)
Definition subselect (orc : list (nat * (string -> bool))) (cands : list (list string)) : list (list string) :=
  flat_map (fun ik => match nth_error cands (fst ik) with
                      | Some s => [filter (snd ik) s]
                      | None => []
                      end) orc.

(** * Sub-group trees and the nested allocation *)

Inductive sgt :=
| SG (tc : option tcons) (kids : list sgt)          (* a sub-group set (the root carries the job's constraint) *)
| PSet (tc : option tcons) (ms : list positive).    (* a pod set with all its pods *)

Fixpoint members (g : sgt) : list positive :=
  match g with
  | PSet _ ms => ms
  | SG _ kids => flat_map members kids
  end.

Definition tc_of (g : sgt) : option tcons := match g with SG tc _ => tc | PSet tc _ => tc end.

Fixpoint subgroups (g : sgt) : list sgt :=
  g :: match g with
       | SG _ kids => flat_map subgroups kids
       | PSet _ _ => []
       end.

Fixpoint first_ok {A} (f : list string -> option A) (sets : list (list string)) : option A :=
  match sets with
  | [] => None
  | s :: r => match f s with Some a => Some a | None => first_ok f r end
  end.

(** the children of a sub-group set one after the other on the same node set
    (allocateSubGroupSetOnNodes); the first failure fails the whole set *)
Definition seq_alloc (f : sgt -> list string -> active_t -> option active_t) :=
  fix go (ks : list sgt) (ns : list string) (a : active_t) {struct ks} : option active_t :=
    match ks with
    | [] => Some a
    | k :: r => match f k ns a with
                | Some a' => go r ns a'
                | None => None
                end
    end.

Section TopoAlloc.
  Variable topos : list topo.
  Variable nodes : list pnode.            (* the nodes of the session *)
  (** oracles: fit filter + ordering of the candidate domains; allocateTask *)
  Variable sel : option tcons -> list positive -> list string -> active_t -> list (nat * (string -> bool)).
  Variable place : list string -> positive -> active_t -> option string.
  Variable tasks : list positive.         (* the tasks to allocate (GetTasksToAllocate) *)

  Definition subset_nodes (tc : option tcons) (ms : list positive) (ts : list positive)
             (allowed : list string) (act : active_t) : list (list string) :=
    match subset_cands topos nodes tc ms (List.length ts) allowed act with
    | SNPass => [allowed]
    | SNSets cands => subselect (sel tc ms allowed act) cands
    end.

  (** allocateTasksOnNodeSet *)
  Fixpoint alloc_tasks (allowed : list string) (ts : list positive) (act : active_t) : option active_t :=
    match ts with
    | [] => Some act
    | t :: r =>
        match place allowed t act with
        | Some n => if mem_str n allowed then alloc_tasks allowed r ((t, n) :: act) else None
        | None => None
        end
    end.

  (** allocateSubGroupSet / allocatePodSet; a failed candidate set is rolled back *)
  Fixpoint alloc_sg (g : sgt) (allowed : list string) (act : active_t) {struct g} : option active_t :=
    match g with
    | PSet tc ms =>
        let ts := filter (fun t => mem_pos t ms) tasks in
        first_ok (fun ns => alloc_tasks ns ts act) (subset_nodes tc ms ts allowed act)
    | SG tc kids =>
        let ms := flat_map members kids in
        let ts := filter (fun t => mem_pos t ms) tasks in
        first_ok (fun ns => seq_alloc alloc_sg kids ns act) (subset_nodes tc ms ts allowed act)
    end.
End TopoAlloc.

(** * The declarative side *)

Definition vec_of_node (T : topo) (nodes : list pnode) (name : string) : option (list string) :=
  match find (fun n => String.eqb (nd_name n) name) nodes with
  | Some n => node_vec (tp_levels T) (nd_labels n)
  | None => None
  end.

(** every named node carries all labels of [T] and they agree on levels 0..l *)
Definition InOneDomain (T : topo) (nodes : list pnode) (l : nat) (names : list string) : Prop :=
  exists pre, forall nm, In nm names -> exists v, vec_of_node T nodes nm = Some v /\ firstn (S l) v = pre.

(** what the constraint [tc] of a group demands of the nodes of its already
    active pods and of the nodes its pods were newly placed on *)
Definition GroupOK (topos : list topo) (nodes : list pnode) (tc : option tcons) (active new : list string) : Prop :=
  match tc with
  | None => True
  | Some c =>
      if String.eqb (tc_topo c) "" then True
      else match find_topo topos (tc_topo c) with
           | None => new = []                           (* a missing topology: nothing is placed *)
           | Some T =>
               if String.eqb (tc_req c) "" then True
               else match idx_of (tc_req c) (tp_levels T) with
                    | Some l =>
                        InOneDomain T nodes l new
                        /\ (active <> [] -> new <> [] -> exists a, In a active /\ InOneDomain T nodes l (a :: new))
                    | None => if String.eqb (tc_req c) "root" then True else new = []
                    end
           end
  end.

Definition topo_wf (T : topo) : Prop := NoDup (tp_levels T) /\ ~ In "root" (tp_levels T).

(** the "."-join is injective on the label vectors that occur *)
Definition IdsInjective (topos : list topo) (nodes : list pnode) : Prop :=
  forall T n m v w i, In T topos -> In n nodes -> In m nodes -> i < List.length (tp_levels T) ->
    node_vec (tp_levels T) (nd_labels n) = Some v -> node_vec (tp_levels T) (nd_labels m) = Some w ->
    dom_id i v = dom_id i w -> firstn (S i) v = firstn (S i) w.

(** its decidable form (used by the monitor and the examples) *)
Fixpoint list_str_eqb (a b : list string) : bool :=
  match a, b with
  | [], [] => true
  | x :: r, y :: s => String.eqb x y && list_str_eqb r s
  | _, _ => false
  end.

Definition ids_injective_b (topos : list topo) (nodes : list pnode) : bool :=
  forallb (fun T =>
    let vecs := vecs_of (tp_levels T) nodes in
    forallb (fun nv => forallb (fun mw =>
      forallb (fun i => negb (String.eqb (dom_id i (snd nv)) (dom_id i (snd mw)))
                        || list_str_eqb (firstn (S i) (snd nv)) (firstn (S i) (snd mw)))
              (seq 0 (List.length (tp_levels T)))) vecs) vecs) topos.
