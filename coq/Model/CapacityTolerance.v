(** C08: what a TOLERANCE in the capacity gates would do (seeded/C08-5).

    The gates of Model/Capacity.v compare exactly: [exceeds] skips a resource
    only when the request in it is exactly zero, as isOverLimit /
    isAllocatedNonPreemptibleOverQuota do (requestedQty == 0 -> continue).
    ResourceRequirements.IsEmpty() of the node-fitting code is something else:
    a test against thresholds (cpu < 10 milli, memory < 10 MiB, gpu <= 0.01).
    [both_checks_tol] is isJobOverCapacity with
        if ResourceRequirementsFromQuantities(requestedShare).IsEmpty() { return Schedulable() }
    in front -- NOT the code -- for arbitrary thresholds [eps]. *)
From Coq Require Import List ZArith QArith Bool.
From KaiV Require Import Model.Capacity.
Import ListNotations.
Open Scope Q_scope.

(** IsEmpty as a function of its thresholds *)
Definition empty_within (eps req : rq) : bool :=
  Qltb (r_cpu req) (r_cpu eps) && Qltb (r_mem req) (r_mem eps) && Qle_bool (r_gpu req) (r_gpu eps).

(** minMilliCPU, MinMemory (10 MiB), minGPUs *)
Definition code_tolerance : rq := {| r_cpu := 10; r_mem := 10485760; r_gpu := 1 # 100 |}.

Definition both_checks_tol (eps : rq) (fuel : nat) (qs : list queue) (jq : positive) (preemptible : bool) (req : rq)
  : result verdict :=
  if empty_within eps req then Done Schedulable else both_checks fuel qs jq preemptible req.

Definition results_np_over_quota_tol (eps : rq) (fuel : nat) (qs : list queue) (jq : positive) (preemptible : bool)
  (req : rq) : result verdict :=
  if empty_within eps req then Done Schedulable else results_np_over_quota fuel qs jq preemptible req.

(** [admit_tasks] / [admit_job] / [do_step] / [run] of Model/Capacity.v over the tolerant gates *)
Fixpoint admit_tasks_tol (eps : rq) (fuel : nat) (qs : list queue) (jq : positive) (preemptible : bool)
         (ts : list (task * positive)) (acc : list entry) : result outcome :=
  match ts with
  | [] => Done (Accepted qs acc)
  | (t, nm) :: rest =>
      match both_checks_tol eps fuel qs jq preemptible (node_task_request nm t) with
      | Done Schedulable =>
          match alloc_handler fuel qs jq preemptible (charge nm t) with
          | Done qs1 =>
              admit_tasks_tol eps fuel qs1 jq preemptible rest
                ({| e_task := t_id t; e_queue := jq; e_preempt := preemptible; e_charge := charge nm t |} :: acc)
          | OutOfFuel => OutOfFuel
          | Panic => Panic
          end
      | Done v => Done (Refused v)
      | OutOfFuel => OutOfFuel
      | Panic => Panic
      end
  end.

Definition admit_job_tol (eps : rq) (fuel : nat) (qs : list queue) (j : job) : result outcome :=
  match both_checks_tol eps fuel qs (j_queue j) (j_preempt j) (job_request (map fst (j_tasks j))) with
  | Done Schedulable => admit_tasks_tol eps fuel qs (j_queue j) (j_preempt j) (j_tasks j) []
  | Done v => Done (Refused v)
  | OutOfFuel => OutOfFuel
  | Panic => Panic
  end.

Definition do_step_tol (eps : rq) (fuel : nat) (s : state) (x : step) : result state :=
  match x with
  | AdmitJob j =>
      match admit_job_tol eps fuel (s_queues s) j with
      | Done (Accepted qs es) => Done {| s_queues := qs; s_ledger := es ++ s_ledger s |}
      | Done (Refused _) => Done s
      | OutOfFuel => OutOfFuel
      | Panic => Panic
      end
  | Release _ => do_step fuel s x
  end.

Fixpoint run_tol (eps : rq) (fuel : nat) (s : state) (xs : list step) : result state :=
  match xs with
  | [] => Done s
  | x :: r => match do_step_tol eps fuel s x with
              | Done s1 => run_tol eps fuel s1 r
              | OutOfFuel => OutOfFuel
              | Panic => Panic
              end
  end.
