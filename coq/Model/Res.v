(** Resource vectors of the scheduler core (pkg/scheduler/api/resource_info:
    Resource / BaseResource).  All quantities the node accounting manipulates
    are integer valued (milli-CPU, bytes, whole GPUs, pod slots, MIG
    instances, extended-resource milli-units), so the model uses [Z].
    Scalar resources are a fixed family {pods, mig, ext}; a missing map key is
    modelled as 0 (this differs from Go only for a *zero* request of a resource
    the node does not have, which the generators do not produce). *)
From Coq Require Import ZArith Bool.
Open Scope Z_scope.

Record res := mkRes { cpu : Z; mem : Z; gpu : Z; pods : Z; mig : Z; ext : Z }.

Definition rzero : res := mkRes 0 0 0 0 0 0.
Definition radd (a b : res) : res :=
  mkRes (cpu a + cpu b) (mem a + mem b) (gpu a + gpu b) (pods a + pods b) (mig a + mig b) (ext a + ext b).
Definition rsub (a b : res) : res :=
  mkRes (cpu a - cpu b) (mem a - mem b) (gpu a - gpu b) (pods a - pods b) (mig a - mig b) (ext a - ext b).
(** A scalar resource is compared only when the request has the key, i.e.
    (for the generated inputs) when it asks for a non-zero amount. *)
Definition scal_le (a b : Z) : bool := (a =? 0) || (a <=? b).
(** ResourceRequirements.LessEqualResource *)
Definition rle (a b : res) : bool :=
  (cpu a <=? cpu b) && (mem a <=? mem b) && (gpu a <=? gpu b) && scal_le (pods a) (pods b)
  && scal_le (mig a) (mig b) && scal_le (ext a) (ext b).
Definition req (a b : res) : bool :=
  (cpu a =? cpu b) && (mem a =? mem b) && (gpu a =? gpu b) && (pods a =? pods b)
  && (mig a =? mig b) && (ext a =? ext b).
Definition with_gpu (r : res) (g : Z) : res := mkRes (cpu r) (mem r) g (pods r) (mig r) (ext r).
Definition add_gpu (r : res) (d : Z) : res := with_gpu r (gpu r + d).
(** the part compared by BaseResource.LessEqual (everything but whole GPUs and MIG) *)
Definition base_le (a b : res) : bool :=
  (cpu a <=? cpu b) && (mem a <=? mem b) && scal_le (pods a) (pods b) && scal_le (ext a) (ext b).
