(** Log-level reading of the last sentence of C13 ("Committing emits exactly the
    net effect of the steps still valid: each pod is bound, nominated or evicted
    at most once and nothing is emitted for undone steps"), written from the
    COMMAND HISTORY of a statement alone: not from the operation log of
    Model/Session.v (undo entries, recursive operationValid), not from the
    session state and not from what the session looks like afterwards.

    The history is the list of commands issued on the statement, each with one
    observation taken BEFORE the command: where the command's pod sits (its
    NodeName and GPU groups) and whether it is Releasing.  The place is what
    decides whether a Pipeline is a nomination or an un-eviction
    (Statement.Pipeline(task, node, false) on the node the pod already sits on,
    to the devices it was evicted from, withdraws the pod's earliest eviction
    instead of nominating it); an Evict of a pod that is already Releasing
    (evicted before, or terminating anyway) is not a step at all.

    [hstate]: for every number of operations recorded so far (the value a
    Checkpoint returns), the steps that were still valid at that point, oldest
    first.  The last element is the present.
      Evict p            a new valid eviction of p; nothing when p is already
                         Releasing (no second eviction of an evicted pod, no
                         eviction of a terminating pod)
      Allocate p n       a new valid allocation of p on n
      Pipeline p n       a new valid nomination of p on n, or, on the pod's own
                         node and devices, the un-eviction of p
      Unevict p          p's earliest valid eviction is no longer valid (the
                         other steps stay)
      Rollback cp        the valid steps are again those of checkpoint cp (an
                         un-eviction made after cp is itself rolled back)
      Discard / Commit   a new empty statement
      ConvertAllAllocatedToPipelined j   the valid allocations of job j's pods
                         become nominations
    A Commit must emit exactly one call per still-valid step, of the step's kind,
    for the step's pod ([expect_calls]); in particular nothing for a pod whose
    evictions were all undone.

    No proofs in this file: Proofs/SessionLog.v shows that the model of
    framework.Statement satisfies this specification, Run/C13.v evaluates it on
    the calls and the dumps of the real Statement. *)
From Coq Require Import List PArith Bool Arith.
From KaiV Require Import Model.Res Model.Status Model.AMap Model.Node Model.Session.
Import ListNotations.

(** a step that is still valid; [pos]: how many operations had been recorded
    when it was made; [pg]: the devices the pod was evicted from *)
Inductive vitem :=
| VEv (p : positive) (pg : list positive) (pos : nat)
| VPl (bind : bool) (p n : positive) (pos : nat).
Definition vset := list vitem.
Definition hstate := list vset.

Definition vpos (it : vitem) : nat := match it with VEv _ _ k => k | VPl _ _ _ k => k end.
Definition is_ev_of (p : positive) (it : vitem) : bool :=
  match it with VEv q _ _ => Pos.eqb q p | _ => false end.

(** the earliest valid eviction of [p] and the other valid steps *)
Fixpoint pop_ev (p : positive) (V : vset) : option (vitem * vset) :=
  match V with
  | [] => None
  | it :: r =>
      if is_ev_of p it then Some (it, r)
      else match pop_ev p r with
           | Some (x, r') => Some (x, it :: r')
           | None => None
           end
  end.

Definition hcur (hs : hstate) : vset := last hs [].
(** number of operations recorded so far *)
Definition hlen (hs : hstate) : nat := pred (length hs).

Definition same_devices (gs : option (list positive)) (pg : list positive) : bool :=
  match gs with None => true | Some g => list_pos_eqb g pg end.
Definition sits_on (at_ : option positive) (nd : positive) : bool :=
  match at_ with Some h => Pos.eqb h nd | None => false end.

Definition to_nomination (jobof : positive -> option positive) (j : positive) (it : vitem) : vitem :=
  match it with
  | VPl true p nd k => match jobof p with
                       | Some j' => if Pos.eqb j' j then VPl false p nd k else it
                       | None => it
                       end
  | _ => it
  end.

(** what is observed of the command's pod before the command: NodeName, GPU groups, status = Releasing *)
Record place := mkPlace { pl_node : option positive; pl_groups : list positive; pl_releasing : bool }.
Definition nowhere : place := mkPlace None [] false.

(** one command; [loc]: the place of the command's pod before the command *)
Definition hstep (jobof : positive -> option positive) (hs : hstate) (c : cmd) (loc : place) : hstate :=
  let V := hcur hs in
  let n := hlen hs in
  match c with
  | Evict p => if pl_releasing loc then hs else hs ++ [V ++ [VEv p (pl_groups loc) n]]
  | Allocate p nd _ => hs ++ [V ++ [VPl true p nd n]]
  | Unevict p => match pop_ev p V with Some (_, V') => hs ++ [V'] | None => hs end
  | Pipeline p nd gs upd =>
      let nominate := hs ++ [V ++ [VPl false p nd n]] in
      if negb upd && sits_on (pl_node loc) nd then
        match pop_ev p V with
        | Some (VEv _ pg _, V') => if same_devices gs pg then hs ++ [V'] else nominate
        | _ => nominate
        end
      else nominate
  | Checkpoint => hs
  | Rollback cp => if Nat.ltb cp (length hs) then firstn (S cp) hs else hs
  | Discard | Commit => [[]]
  | Convert j => removelast hs ++ [map (to_nomination jobof j) V]
  end.

(** what a Commit must emit *)
Inductive ckind := KEvict | KPipe | KBind.
Definition ckind_eqb (a b : ckind) : bool :=
  match a, b with KEvict, KEvict | KPipe, KPipe | KBind, KBind => true | _, _ => false end.
Definition item_key (it : vitem) : ckind * positive :=
  match it with VEv p _ _ => (KEvict, p) | VPl b p _ _ => (if b then KBind else KPipe, p) end.
Definition item_node (it : vitem) : option positive :=
  match it with VEv _ _ _ => None | VPl _ _ n _ => Some n end.
Definition call_key (c : api_call) : ckind * positive :=
  match c with AEvict p => (KEvict, p) | APipe p _ _ => (KPipe, p) | ABind p _ _ => (KBind, p) end.
Definition call_node (c : api_call) : option positive :=
  match c with AEvict _ => None | APipe _ n _ => n | ABind _ n _ => Some n end.
Definition expect_calls (V : vset) : list (ckind * positive) := map item_key V.

(** * The history of a run of the model: the commands, each with the place of its pod *)
Definition cmd_pod (c : cmd) : option positive :=
  match c with
  | Evict p | Pipeline p _ _ _ | Allocate p _ _ | Unevict p => Some p
  | _ => None
  end.
Definition loc_of (s : sess) (c : cmd) : place :=
  match cmd_pod c with
  | Some p => match get_pod s p with
              | Some x => mkPlace (p_node x) (p_groups x) (status_eqb (p_status x) Releasing)
              | None => nowhere
              end
  | None => nowhere
  end.
Definition no_job (_ : positive) : option positive := None.
Fixpoint hist_from (fails : nat -> bool) (s : sess) (hs : hstate) (prog : list cmd) : hstate :=
  match prog with
  | [] => hs
  | c :: r => hist_from fails (fst (step fails s c)) (hstep no_job hs c (loc_of s c)) r
  end.
(** the still-valid steps after [prog], started on an empty statement *)
Definition valid_steps (fails : nat -> bool) (s : sess) (prog : list cmd) : vset :=
  hcur (hist_from fails s [[]] prog).

(** the pod map of the session is keyed by pod id (evaluated on every generated initial session) *)
Definition keyed_b (s : sess) : bool := forallb (fun kv => Pos.eqb (p_id (snd kv)) (fst kv)) (s_pods s).
