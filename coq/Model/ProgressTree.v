(** The queue tree of a snapshot "by the numbers" (property C05, reclaim clause),
    for hierarchies of ANY depth.

    What is described here (no Go control flow is followed in this part):
    - [pqueue]: one queue of the hierarchy, leaf or inner: its parent, its
      deserved GPU quota (-1 = unlimited), the GPUs allocated to it (for an
      inner queue: to all pods below it, as the proportion plugin keeps its
      books: updateQueuesResourceUsageForAllocatedJob walks the parent chain),
      the non-preemptible part, and the fair share the plugin computed at
      session open (1/100 units).
    - [chain_q] / [path_q]: a queue with its ancestors (leaf first / root first).
    - [diverge]: the level on which two leaf queues compete: scanning the two
      root-to-leaf paths from the root, the first pair of queues that differ
      (two siblings, or two top-level queues).  [None] when one path is a
      prefix of the other (one queue is an ancestor of the other, or equal).
    - [chain_within] / [reclaimer_level_within] / [victim_level_above]: the
      reclaim clause of the property in numbers: the reclaimer keeps its queue
      AND every ancestor within the deserved quota (an ancestor below which all
      reclaimable pods run too is not touched by the reclaim); on the divergence
      level the reclaimer's side stays within, the victims' side stays above
      its deserved quota.
    - [level_good] / [leaf_gate_good]: the fair-share side conditions of the
      theorems (the fair share of a level is a number here).
    - [lockstep]: what the level is NOT (a lock-step climb of both queues).

    The part that follows the code: [to_rq] turns the numbers into the
    rs.QueueAttributes of Model/Reclaim.v (C07's model of
    plugins/proportion/reclaimable: getLeveledQueues, CanReclaimResources,
    Reclaimable), GPU share only: in the interchangeable class of C05 every
    pod asks for one GPU, CPU and memory quotas are unlimited for every queue
    (test_utils queues) and are left out ([free_share], requests with 0 CPU /
    memory: "not involved").  [tree_gate] / [tree_valid] are the oracles of the
    reclaim loop of Model/Signatures.v instantiated with these answers.
    Proofs/ProgressTree.v shows that [diverge] is what getLeveledQueues
    returns, for every depth, and that the numeric clause makes
    CanReclaimResources and Reclaimable answer yes; Proofs/ProgressTreeAction.v
    combines it with C05_reclaim_progress. *)
From Coq Require Import List ZArith PArith QArith Bool.
From KaiV Require Model.Reclaim.
From KaiV Require Import Model.Progress.
Import ListNotations.
Open Scope Z_scope.

Record pqueue := mkPQ {
  pq_id : positive;
  pq_parent : option positive;   (* None = top-level *)
  pq_deserved : Z;               (* whole units; -1 = unlimited *)
  pq_alloc : Z;                  (* allocated units, the whole subtree *)
  pq_np : Z;                     (* the non-preemptible part of it *)
  pq_fair : Z;                   (* observed fair share, 1/100 units *)
}.

Definition find_q (qs : list pqueue) (q : positive) : option pqueue :=
  find (fun x => Pos.eqb (pq_id x) q) qs.

(** [q] and its ancestors, leaf first; the walk stops at a missing queue and
    after [fuel] steps (a parent cycle: the session deletes such queues) *)
Fixpoint climb (fuel : nat) (qs : list pqueue) (q : positive) : list pqueue :=
  match fuel with
  | O => []
  | S f =>
      match find_q qs q with
      | None => []
      | Some x => x :: match pq_parent x with
                       | Some p => climb f qs p
                       | None => []
                       end
      end
  end.
Definition chain_q (qs : list pqueue) (q : positive) : list pqueue := climb (S (List.length qs)) qs q.
Definition path_q (qs : list pqueue) (q : positive) : list pqueue := rev (chain_q qs q).

(** [a] is [q] or one of its ancestors *)
Definition under (qs : list pqueue) (a q : positive) : bool :=
  existsb (fun x => Pos.eqb (pq_id x) a) (chain_q qs q).

Definition is_leaf (qs : list pqueue) (x : pqueue) : bool :=
  negb (existsb (fun y => match pq_parent y with Some p => Pos.eqb p (pq_id x) | None => false end) qs).

(** the first pair of queues in which two root-first paths differ *)
Fixpoint diverge (pa pb : list pqueue) : option (pqueue * pqueue) :=
  match pa, pb with
  | a :: ra, b :: rb => if Pos.eqb (pq_id a) (pq_id b) then diverge ra rb else Some (a, b)
  | _, _ => None
  end.
Definition level_of (qs : list pqueue) (a b : positive) : option (pqueue * pqueue) :=
  diverge (path_q qs a) (path_q qs b).

(** a quantity within a deserved quota (-1 = unlimited) *)
Definition within_quota (x deserved : Z) : bool := (deserved <? 0) || (x <=? deserved).

(** the reclaimer, with [extra a] units already promised below queue [a] (the
    pending jobs popped before it), keeps every queue of its chain within the
    deserved quota; a non-preemptible one also with the non-preemptible units.
    A level [a] that is [shared] - every pod that can be reclaimed runs below it
    too - holds after the reclaim exactly what it held before (one pod evicted,
    one placed below it): the reclaimer takes nothing from its quota, only the
    non-preemptible part is looked at there. *)
Definition chain_within (ch : list pqueue) (preemptible : bool) (shared : pqueue -> bool)
           (extra extra_np : pqueue -> Z) : bool :=
  forallb (fun a => (shared a || within_quota (pq_alloc a + extra a + 1) (pq_deserved a))
                    && (preemptible || within_quota (pq_np a + extra_np a + 1) (pq_deserved a))) ch.

(** on the divergence level of the reclaimer's queue and a victim's queue: the reclaimer's side
    stays within its deserved quota with the reclaimer's pod added *)
Definition reclaimer_level_within (qs : list pqueue) (reclaimer victim : positive) : bool :=
  match level_of qs reclaimer victim with
  | Some (x, _) => within_quota (pq_alloc x + 1) (pq_deserved x)
  | None => false
  end.

(** the victims' side on the divergence level stays above its (finite) deserved
    quota when [taken] units are taken from below it *)
Definition victim_level_above (qs : list pqueue) (reclaimer victim : positive) (taken : Z) : bool :=
  match level_of qs reclaimer victim with
  | Some (_, e) => (0 <=? pq_deserved e) && (pq_deserved e + taken <? pq_alloc e)
  | None => false
  end.

(** how many of the victims (leaf queues, one entry per pod) run in queue [a] or below it *)
Definition taken_under (qs : list pqueue) (victims : list positive) (a : pqueue) : Z :=
  Z.of_nat (List.length (filter (fun k => under qs (pq_id a) k) victims)).

(** a level of the reclaimer's chain when the [victims] are taken and the reclaimer's pod is
    added: it stays within its fair share; a non-preemptible reclaimer: the non-preemptible part
    stays within the deserved quota *)
Definition level_good (qs : list pqueue) (preemptible : bool) (victims : list positive) (a : pqueue) : Prop :=
  0 <= pq_np a /\ taken_under qs victims a <= pq_alloc a /\
  100 * (pq_alloc a - taken_under qs victims a + 1) <= pq_fair a /\
  (preemptible = false -> within_quota (pq_np a + 1) (pq_deserved a) = true).

(** the reclaimer's own (leaf) queue passes the gate: within its fair share with the pod added *)
Definition leaf_gate_good (qs : list pqueue) (leaf : positive) : Prop :=
  match chain_q qs leaf with
  | x :: _ => 0 <= pq_alloc x /\ 100 * (pq_alloc x + 1) <= pq_fair x
  | [] => False
  end.

(** NOT the level: both queues climb one level at a time until their parents meet (or one of them
    has no parent).  It is the divergence level only when the two queues are at the same depth
    (C05_mixed_depth_nonvacuous shows a tree on which it returns the root). *)
Definition same_parent_q (a b : pqueue) : bool :=
  match pq_parent a, pq_parent b with
  | None, None => true
  | Some x, Some y => Pos.eqb x y
  | _, _ => false
  end.
Fixpoint lockstep (fuel : nat) (qs : list pqueue) (a b : pqueue) : pqueue * pqueue :=
  match fuel with
  | O => (a, b)
  | S f =>
      if same_parent_q a b then (a, b)
      else match pq_parent a, pq_parent b with
           | Some pa, Some pb =>
               match find_q qs pa, find_q qs pb with
               | Some a', Some b' => lockstep f qs a' b'
               | _, _ => (a, b)
               end
           | _, _ => (a, b)
           end
  end.

(** * The numbers as the queue attributes of Model/Reclaim.v *)

Definition dq (z : Z) : Q := if z <? 0 then Reclaim.unlimited else inject_Z z.

(** CPU / memory: no quota, no limit, nothing requested *)
Definition free_share : Reclaim.rshare :=
  {| Reclaim.s_deserved := Reclaim.unlimited; Reclaim.s_fair := Reclaim.unlimited;
     Reclaim.s_max := Reclaim.unlimited; Reclaim.s_alloc := 0%Q; Reclaim.s_allocnp := 0%Q |}.

Definition to_rq (x : pqueue) : Reclaim.queue :=
  {| Reclaim.q_id := pq_id x; Reclaim.q_parent := pq_parent x;
     Reclaim.q_cpu := free_share; Reclaim.q_mem := free_share;
     Reclaim.q_gpu := {| Reclaim.s_deserved := dq (pq_deserved x);
                         Reclaim.s_fair := (pq_fair x # 100)%Q;
                         Reclaim.s_max := Reclaim.unlimited;
                         Reclaim.s_alloc := inject_Z (pq_alloc x);
                         Reclaim.s_allocnp := inject_Z (pq_np x) |} |}.

(** one pod of the class: one GPU *)
Definition unit_res : Reclaim.res :=
  {| Reclaim.r_cpu := 0%Q; Reclaim.r_mem := 0%Q; Reclaim.r_gpus := 1%Q; Reclaim.r_mig := 0%Q |}.

Definition unit_reclaimer (queue : positive) (preemptible : bool) : Reclaim.reclaimer :=
  {| Reclaim.rc_queue := queue; Reclaim.rc_res := unit_res; Reclaim.rc_preemptible := preemptible |}.

(** the victims of a scenario grouped by their leaf queue (first occurrence
    first; proportion.reclaimableFn builds a map: in the class the verdict does
    not depend on its iteration order) *)
Fixpoint add_victim (q : positive) (m : list (positive * list Reclaim.res)) : list (positive * list Reclaim.res) :=
  match m with
  | [] => [(q, [unit_res])]
  | (k, l) :: r => if Pos.eqb k q then (k, unit_res :: l) :: r else (k, l) :: add_victim q r
  end.
Definition group_victims (queues : list positive) : list (positive * list Reclaim.res) :=
  fold_left (fun m q => add_victim q m) queues [].

(** CanReclaimResources / Reclaimable on the numbers ([false] for a panic or an endless parent walk);
    the saturation multiplier is the default 1 *)
Definition tree_can_reclaim (qs : list pqueue) (queue : positive) (preemptible : bool) : bool :=
  match Reclaim.can_reclaim (map to_rq qs) (unit_reclaimer queue preemptible) with
  | Reclaim.Ok b => b
  | _ => false
  end.
Definition tree_reclaimable (qs : list pqueue) (queue : positive) (preemptible : bool) (victims : list positive) : bool :=
  match Reclaim.reclaimable 1%Q (map to_rq qs) (unit_reclaimer queue preemptible) (group_victims victims) with
  | Reclaim.Ok b => b
  | _ => false
  end.

(** * The oracles of the reclaim loop (Model/Signatures.v) on the numbers
    [books st]: the queue tree with the allocation of state [st] *)
Definition tree_gate (books : vstate -> list pqueue) (st : vstate) (p : pjob) : bool :=
  tree_can_reclaim (books st) (pj_queue p) (pj_preempt p).
(** the validator sees the evicted victims of the scenario: the potential victims on the node of
    the latest one *)
Definition scenario_victims (pot : list rjob) (v : rjob) : list positive :=
  map rj_queue (filter (on_node (rj_node v)) pot).
Definition tree_valid (books : vstate -> list pqueue) (st : vstate) (p : pjob) (pot : list rjob) : bool :=
  match rev pot with
  | v :: _ => tree_reclaimable (books st) (pj_queue p) (pj_preempt p) (scenario_victims pot v)
  | [] => false
  end.
