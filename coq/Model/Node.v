(** Model of node accounting:
      pkg/scheduler/api/node_info/node_info.go
        AddTask / addTask / addTaskResources, RemoveTask / removeTaskResources,
        UpdateTask, ConsolidateSharedPodInfoToDifferentGPU, setAcceptedResources
        (through the task fields below), IsTaskAllocatable,
        IsTaskAllocatableOnReleasingOrIdle, isTaskAllocatableOnNonAllocatedResources
      pkg/scheduler/api/node_info/gpu_sharing_node_info.go
        addSharedTaskResourcesPerPodGroup, removeSharedTaskResourcesPerPodGroup,
        isPipelinedToReleasingGpu, isGpuReleasingFromSharedTasks,
        getNumberOfUsedGPUs, IsTaskFitOnGpuGroup, EnoughIdleResourcesOnGpu,
        enoughResourcesOnGpu, isAllGpuReleased, fractionTaskGpusAllocatableDeviceCount
    The struct and the vector representation (Idle/IdleVector …) are updated by
    the code with the same deltas; the model keeps one copy and the harness
    observes both (C14 vector agreement is checked by the monitor).
    Not modelled: CSI storage capacities, pod-affinity bookkeeping, legacy MIG
    task registry, DRA-only node flag. *)
From Coq Require Import List ZArith PArith Bool.
From KaiV Require Import Model.Res Model.Status Model.AMap.
Import ListNotations.
Open Scope Z_scope.

Inductive kind := KRegular | KFraction | KMemory | KMig.

(** A task as the node sees it (the node keeps its own copy). *)
Record task := mkTask {
  t_id : positive;
  t_job : positive;
  t_status : status;
  t_kind : kind;
  t_req : res;          (* base resources + whole GPUs (incl. DRA) + MIG instances + scalars requested *)
  t_ndev : Z;           (* number of GPU devices of a fractional request *)
  t_gmem : Z;           (* memory per device on this node: GetResourceGpuMemory(ResReq) *)
  t_groups : list positive;
  t_resv : bool;        (* resource-reservation pod: its GPU is not tracked *)
  t_besteffort : bool;  (* ResReq.IsEmpty() && no storage claims && not a memory request *)
}.

Definition is_shared (t : task) : bool :=
  match t_kind t with KFraction | KMemory => true | _ => false end.

(** getAcceptedTaskResourceWithoutSharedGPU, with the reservation-pod rule *)
Definition charge (t : task) : res :=
  if is_shared t || t_resv t then with_gpu (t_req t) 0 else t_req t.

Record node := mkNode {
  n_alloc : res; n_idle : res; n_used : res; n_rel : res;
  n_ngpu : Z;            (* GetNumberOfGPUsInNode *)
  n_gpumem : Z;          (* MemoryOfEveryGpuOnNode *)
  n_pods : amap task;
  g_used : amap Z; g_alloc : amap Z; g_rel : amap Z;
  g_mark : amap unit;    (* ReleasingSharedGPUs *)
}.

Definition set_core (n : node) (idle used rel : res) : node :=
  mkNode (n_alloc n) idle used rel (n_ngpu n) (n_gpumem n) (n_pods n) (g_used n) (g_alloc n) (g_rel n) (g_mark n).
Definition set_pods (n : node) (p : amap task) : node :=
  mkNode (n_alloc n) (n_idle n) (n_used n) (n_rel n) (n_ngpu n) (n_gpumem n) p (g_used n) (g_alloc n) (g_rel n) (g_mark n).
Definition set_groups (n : node) (idle rel : res) (u a r : amap Z) (m : amap unit) : node :=
  mkNode (n_alloc n) idle (n_used n) rel (n_ngpu n) (n_gpumem n) (n_pods n) u a r m.

Definition used_shared_gpus (u : amap Z) : Z :=
  Z.of_nat (length (filter (fun kv => 0 <? snd kv) u)).
(** getNumberOfUsedGPUs *)
Definition used_gpus (n : node) (u : amap Z) : Z := gpu (n_used n) + used_shared_gpus u.

Definition marked (g : positive) (m : amap unit) : bool := amem g m.

(** isGpuReleasingFromSharedTasks *)
Definition gpu_releasing_from_shared (u r : amap Z) (g : positive) : bool :=
  match alookup g u with
  | None => false
  | Some 0 => false
  | Some uv => match alookup g r with Some rv => rv =? uv | None => false end
  end.

(** addSharedTaskResourcesPerPodGroup *)
Definition add_shared_group (n : node) (t : task) (g : positive) : node :=
  let m := t_gmem t in
  let u := zadd g m (g_used n) in
  match t_status t with
  | Releasing =>
      let r := zadd g m (g_rel n) in
      let a := zadd g m (g_alloc n) in
      if zget g u =? zget g r then
        let '(rel1, mk1) := if marked g (g_mark n) then (n_rel n, g_mark n)
                            else (add_gpu (n_rel n) 1, aset g tt (g_mark n)) in
        let idle1 := if n_ngpu n <? gpu (n_idle n) + used_gpus n u then add_gpu (n_idle n) (-1) else n_idle n in
        set_groups n idle1 rel1 u a r mk1
      else set_groups n (n_idle n) (n_rel n) u a r (g_mark n)
  | Pipelined =>
      let r := zadd g (- m) (g_rel n) in
      let rel1 := if zget g u - m =? zget g r + m then add_gpu (n_rel n) (-1) else n_rel n in
      set_groups n (n_idle n) rel1 u (g_alloc n) r (g_mark n)
  | _ =>
      let a := zadd g m (g_alloc n) in
      let idle1 := if (zget g u <=? m) && (n_ngpu n <? gpu (n_idle n) + used_gpus n u)
                   then add_gpu (n_idle n) (-1) else n_idle n in
      let '(rel1, mk1) := if marked g (g_mark n) then (add_gpu (n_rel n) (-1), adel g (g_mark n))
                          else (n_rel n, g_mark n) in
      set_groups n idle1 rel1 u a (g_rel n) mk1
  end.

(** removeSharedTaskResourcesPerPodGroup *)
Definition remove_shared_group (n : node) (t : task) (g : positive) : node :=
  let m := t_gmem t in
  let u := zadd g (- m) (g_used n) in
  match t_status t with
  | Releasing =>
      let r := zadd g (- m) (g_rel n) in
      let a := zadd g (- m) (g_alloc n) in
      if zget g u <=? 0 then
        let idle1 := if gpu (n_idle n) + used_gpus n u <=? n_ngpu n then add_gpu (n_idle n) 1 else n_idle n in
        let '(rel1, mk1) := if marked g (g_mark n) then (add_gpu (n_rel n) (-1), adel g (g_mark n))
                            else (n_rel n, g_mark n) in
        set_groups n idle1 rel1 u a r mk1
      else set_groups n (n_idle n) (n_rel n) u a r (g_mark n)
  | Pipelined =>
      let r := zadd g m (g_rel n) in
      (* isPipelinedToReleasingGpu *)
      let cond := (zget g u + m =? zget g r - m) || ((zget g u =? 0) && (zget g r =? 0)) in
      let rel1 := if cond then add_gpu (n_rel n) 1 else n_rel n in
      set_groups n (n_idle n) rel1 u (g_alloc n) r (g_mark n)
  | _ =>
      let a := zadd g (- m) (g_alloc n) in
      let idle1 := if (zget g u <=? 0) && (gpu (n_idle n) + used_gpus n u <=? n_ngpu n)
                   then add_gpu (n_idle n) 1 else n_idle n in
      let '(rel1, mk1) := if gpu_releasing_from_shared u (g_rel n) g && negb (marked g (g_mark n))
                          then (add_gpu (n_rel n) 1, aset g tt (g_mark n))
                          else (n_rel n, g_mark n) in
      set_groups n idle1 rel1 u a (g_rel n) mk1
  end.

(** addTaskResources (without the pod map) *)
Definition add_resources (n : node) (t : task) : node :=
  let c := charge t in
  let used1 := radd (n_used n) c in
  let n1 := match t_status t with
            | Releasing => set_core n (rsub (n_idle n) c) used1 (radd (n_rel n) c)
            | Pipelined => set_core n (n_idle n) used1 (rsub (n_rel n) c)
            | _ => set_core n (rsub (n_idle n) c) used1 (n_rel n)
            end in
  if is_shared t then fold_left (fun acc g => add_shared_group acc t g) (t_groups t) n1 else n1.

Definition remove_resources (n : node) (t : task) : node :=
  let c := charge t in
  let used1 := rsub (n_used n) c in
  let n1 := match t_status t with
            | Releasing => set_core n (radd (n_idle n) c) used1 (rsub (n_rel n) c)
            | Pipelined => set_core n (n_idle n) used1 (radd (n_rel n) c)
            | _ => set_core n (radd (n_idle n) c) used1 (n_rel n)
            end in
  if is_shared t then fold_left (fun acc g => remove_shared_group acc t g) (t_groups t) n1 else n1.

Inductive result (A : Type) := Ok (a : A) | Err.
Arguments Ok {A} a.
Arguments Err {A}.

(** addTask(task, allowTaskToExistOnDifferentGPU).  Only called with
    active-used statuses (AddTasksToNode and the statement operations
    guarantee it); otherwise AcceptedResource would not be refreshed. *)
Definition add_task_gen (allow_existing : bool) (n : node) (t : task) : result node :=
  let exists_ := amem (t_id t) (n_pods n) in
  if exists_ && negb (is_shared t && allow_existing) then Err
  else Ok (add_resources (set_pods n (aset (t_id t) t (n_pods n))) t).

Definition add_task := add_task_gen false.
Definition consolidate_to_different_gpu := add_task_gen true.

(** RemoveTask: removes the node's own copy (its status and groups at the time it was added). *)
Definition remove_task (n : node) (id : positive) : result node :=
  match alookup id (n_pods n) with
  | None => Err
  | Some t => Ok (remove_resources (set_pods n (adel id (n_pods n))) t)
  end.

Definition update_task (n : node) (t : task) : result node :=
  match remove_task n (t_id t) with
  | Err => Err
  | Ok n1 => add_task n1 t
  end.

(** * Allocatability predicates *)

(** enoughResourcesOnGpu *)
Definition enough_on_gpu (n : node) (m : Z) (g : positive) : bool :=
  0 <=? n_gpumem n - zget g (g_alloc n) + zget g (g_rel n) - m.
(** IsTaskFitOnGpuGroup *)
Definition fits_gpu_group (n : node) (m : Z) (g : positive) : bool :=
  negb (zget g (g_used n) =? 0) && enough_on_gpu n m g && negb (zget g (g_alloc n) =? zget g (g_rel n)).
(** EnoughIdleResourcesOnGpu *)
Definition enough_idle_on_gpu (n : node) (m : Z) (g : positive) : bool :=
  amem g (g_alloc n) && (0 <=? n_gpumem n - zget g (g_alloc n) - m).

(** isValidGpuPortion for shared requests: a fraction is at most 1; a memory
    request above the device memory is valid only when it is a whole multiple
    (ceil(100*m/M)/100 integral). *)
Definition valid_portion (n : node) (t : task) : bool :=
  match t_kind t with
  | KMemory =>
      if t_gmem t <=? n_gpumem n then true
      else if n_gpumem n <=? 0 then false
      else let c := (100 * t_gmem t + n_gpumem n - 1) / n_gpumem n in (c mod 100 =? 0)
  | _ => true
  end.

Definition matching_groups (n : node) (t : task) : Z :=
  Z.of_nat (length (filter (fun g => fits_gpu_group n (t_gmem t) g) (akeys (g_used n)))).

(** isTaskAllocatableOnNonAllocatedResources on a given pool *)
Definition allocatable_on (n : node) (t : task) (pool : res) : bool :=
  match t_kind t with
  | KRegular | KMig => rle (t_req t) pool
  | _ =>
      base_le (t_req t) pool && valid_portion n t
      && (t_ndev t <=? gpu pool + Z.min (matching_groups n t) (t_ndev t))
  end.

Definition is_task_allocatable (n : node) (t : task) : bool :=
  (* a best-effort pod still needs a pod slot that is really idle *)
  if t_besteffort t then pods (t_req t) <=? pods (n_idle n) else allocatable_on n t (n_idle n).

Definition is_task_allocatable_on_releasing_or_idle (n : node) (t : task) : bool :=
  allocatable_on n t (radd (n_idle n) (n_rel n)).
