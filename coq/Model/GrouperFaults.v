(** The pod-grouper under API faults on the owner GETs (property C18, history independence with faults).

    Go code modelled (as it is), on top of Model/Grouper.v:
    - pkg/podgrouper/podgrouper/podgrouper.go: getOwnerInstance issues one GET per owner per reconcile through
      the UNCACHED client, in the pod's namespace; getResourceOwners / handleGetOwnerError: a 403 Forbidden
      answer ends the walk with the last readable owner, or the pod itself, as the top owner; every other error
      (404 NotFound, 5xx, a uid mismatch) ends the reconcile with an error and without any write.
      The podGrouper struct keeps NO state between reconciles: what a reconcile does is a function of the pod,
      the objects of its namespace and the answers the API server gives AT THAT MOMENT.

    The answers of the API server:
    - an RBAC rule [rbac] = the (namespace, kind) pairs whose GET is answered 403 (namespaced Roles /
      RoleBindings), changed over time by [FGrant] / [FRevoke] / [FRbac]; the kinds of [c_forbidden] of the
      configuration are refused in every namespace (no ClusterRole for them);
    - transient faults [transient], in force during ONE reconcile: kinds answered 403 (a rule applied a moment
      later) and kinds answered NotFound / 5xx (modelled as: the objects of these kinds are not visible to
      this reconcile - [visible]; Forbidden is decided first, as by the API server's authorizer).

    Namespaces: owner objects, pods and PodGroups are namespaced; every namespace has its own [state]
    ([wstate]) and its own owner objects. A reconcile of a pod of namespace [n] reads and writes namespace [n] only.

    Everything is written for a reconciler [rc] with an instance state [I] (what a pod-grouper process keeps in
    memory between reconciles). The code as it is has none ([code_rc], [I = unit]). [memo_rc] - getOwnerInstance
    remembering every KIND whose GET was once answered 403 and answering Forbidden by itself from then on, the
    seeded change C18-4 - is NOT a version of the code: it is used only by the theorems that show that the
    answers must be asked for again (the theorems named C18_forbidden_memo). *)
From Coq Require Import List String ZArith Bool.
From KaiV Require Import Model.Grouper.
Import ListNotations.
Open Scope string_scope.

(** * Answers *)
Definition rbac := list (string * string).          (* (namespace, kind): GET answered 403 *)

Definition pair_eqb (x y : string * string) : bool := String.eqb (fst x) (fst y) && String.eqb (snd x) (snd y).
Definition fb_of (rb : rbac) (n : string) : list string :=
  map snd (filter (fun x => String.eqb (fst x) n) rb).
(** the grouper is granted / loses the right to read kind [k] in namespace [n] *)
Definition grant (n k : string) (rb : rbac) : rbac := filter (fun x => negb (pair_eqb x (n, k))) rb.
Definition revoke (n k : string) (rb : rbac) : rbac := (n, k) :: rb.

Record transient := { tr_forbidden : list string; tr_failing : list string }.
Definition no_fault : transient := {| tr_forbidden := []; tr_failing := [] |}.

Definition with_forbidden (cfg : config) (fb : list string) : config :=
  {| c_queue_key := c_queue_key cfg; c_nodepool_key := c_nodepool_key cfg; c_prio_classes := c_prio_classes cfg;
     c_defaults := c_defaults cfg; c_forbidden := fb |}.

(** kinds whose GET is answered 403 to a reconcile of a pod of namespace [n] *)
Definition eff_forbidden (cfg : config) (rb : rbac) (n : string) (tr : transient) : list string :=
  (tr_forbidden tr ++ fb_of rb n ++ c_forbidden cfg)%list.
Definition eff_cfg (cfg : config) (rb : rbac) (n : string) (tr : transient) : config :=
  with_forbidden cfg (eff_forbidden cfg rb n tr).

(** the objects a reconcile can GET when the kinds [failing] answer NotFound / 5xx *)
Definition visible (failing : list string) (cl : list obj) : list obj :=
  filter (fun o => negb (existsb (String.eqb (g_kind (o_gvk o))) failing)) cl.

(** * Namespaces *)
Definition nsmap (A : Type) := list (string * A).
Definition cluster_of (objs : nsmap (list obj)) (n : string) : list obj :=
  match lookup n objs with Some cl => cl | None => [] end.
Definition wstate := nsmap state.
Definition get_ns (n : string) (ws : wstate) : state :=
  match lookup n ws with Some s => s | None => empty_state end.

(** events of a history with faults: reconciles (with the transient faults in force during them), the rule
    changes, and - lifted to a namespace - every other event of Model/Grouper.v's histories (foreign updates,
    owner objects replaced, PodGroups overwritten / deleted) *)
Inductive fevent :=
| FRec (n : string) (p : pod) (tr : transient)
| FGrant (n k : string)
| FRevoke (n k : string)
| FRbac (rb : rbac)
| FHist (n : string) (h : hevent).

(** * Reconcilers with instance state *)
Section Faults.
  Context {I : Type}.
  (** [rc cfg cl p (s, i)]: one reconcile of [p] under the answers [cfg] / [cl]; returns the store, the number
      of mutating calls and the instance state *)
  Variable rc : config -> list obj -> pod -> state * I -> (state * Z) * I.

  (** the reconcile of pod [p] of namespace [n] under the answers of the moment *)
  Definition frec (cfg : config) (objs : nsmap (list obj)) (rb : rbac) (n : string) (p : pod) (tr : transient)
             (wi : wstate * I) : (wstate * Z) * I :=
    let r := rc (eff_cfg cfg rb n tr) (visible (tr_failing tr) (cluster_of objs n)) p (get_ns n (fst wi), snd wi) in
    ((aset n (fst (fst r)) (fst wi), snd (fst r)), snd r).

  Record fstate := { fs_rbac : rbac; fs_objs : nsmap (list obj); fs_ws : wstate; fs_inst : I }.

  Definition fstep (cfg : config) (e : fevent) (fs : fstate) : fstate :=
    let do_rec n p tr :=
        let r := frec cfg (fs_objs fs) (fs_rbac fs) n p tr (fs_ws fs, fs_inst fs) in
        {| fs_rbac := fs_rbac fs; fs_objs := fs_objs fs; fs_ws := fst (fst r); fs_inst := snd r |} in
    match e with
    | FRec n p tr => do_rec n p tr
    | FGrant n k => {| fs_rbac := grant n k (fs_rbac fs); fs_objs := fs_objs fs; fs_ws := fs_ws fs; fs_inst := fs_inst fs |}
    | FRevoke n k => {| fs_rbac := revoke n k (fs_rbac fs); fs_objs := fs_objs fs; fs_ws := fs_ws fs; fs_inst := fs_inst fs |}
    | FRbac rb => {| fs_rbac := rb; fs_objs := fs_objs fs; fs_ws := fs_ws fs; fs_inst := fs_inst fs |}
    | FHist n (HEv (EvReconcile p)) => do_rec n p no_fault
    | FHist n h =>
      let cs := hstep (eff_cfg cfg (fs_rbac fs) n no_fault) h (cluster_of (fs_objs fs) n, get_ns n (fs_ws fs)) in
      {| fs_rbac := fs_rbac fs; fs_objs := aset n (fst cs) (fs_objs fs); fs_ws := aset n (snd cs) (fs_ws fs);
         fs_inst := fs_inst fs |}
    end.
  Definition frun (cfg : config) (hs : list fevent) (fs : fstate) : fstate :=
    fold_left (fun fs e => fstep cfg e fs) hs fs.

  (** reconciles [(n, p, tr)] under fixed owner objects and a fixed rule *)
  Definition frecs (cfg : config) (objs : nsmap (list obj)) (rb : rbac) (ps : list (string * pod * transient))
             (wi : wstate * I) : wstate * I :=
    fold_left (fun wi x => let r := frec cfg objs rb (fst (fst x)) (snd (fst x)) (snd x) wi in (fst (fst r), snd r))
              ps wi.
End Faults.

Arguments fstate : clear implicits.

(** * The code as it is: no instance state *)
Definition code_rc (cfg : config) (cl : list obj) (p : pod) (si : state * unit) : (state * Z) * unit :=
  (reconcile cfg cl p (fst si), tt).

(** the reconcile of pod [p] of namespace [n] under the answers of the moment: store and mutating calls *)
Definition freconcile (cfg : config) (objs : nsmap (list obj)) (rb : rbac) (n : string) (p : pod) (tr : transient)
           (ws : wstate) : wstate * Z :=
  fst (frec code_rc cfg objs rb n p tr (ws, tt)).

(** what the reconcile applies, as a function of the pod, the objects of its namespace and the answers *)
Definition fmd (cfg : config) (objs : nsmap (list obj)) (rb : rbac) (n : string) (p : pod) (tr : transient)
           (a : option string) : option metadata :=
  full_md (eff_cfg cfg rb n tr) (visible (tr_failing tr) (cluster_of objs n)) p a.

(** * NOT the code: a memo of forbidden kinds (seeded change C18-4) *)

(** the kind at which the owner walk is answered 403, if it is *)
Fixpoint first_forbidden (fuel : nat) (cfg : config) (cl : list obj) (r : oref) : option string :=
  match fuel with
  | O => None
  | S f =>
    match get_owner cfg cl r with
    | GForbidden => Some (g_kind (r_gvk r))
    | GError => None
    | GFound o => match o_owners o with
                  | [r'] => first_forbidden f cfg cl r'
                  | _ => None
                  end
    end
  end.

(** getOwnerInstance with [forbiddenOwnerKinds]: a kind in the memo is answered Forbidden without a GET; a kind
    the API server answers 403 for is added to the memo, for ever and for every namespace *)
Definition memo_rc (cfg : config) (cl : list obj) (p : pod) (si : state * list string) : (state * Z) * list string :=
  let memo := snd si in
  let cfg' := with_forbidden cfg (memo ++ c_forbidden cfg) in
  let memo' := match p_owners p with
               | r :: _ => match first_forbidden (S (List.length cl)) cfg' cl r with
                           | Some k => if existsb (String.eqb k) memo then memo else k :: memo
                           | None => memo
                           end
               | [] => memo
               end in
  (reconcile cfg' cl p (fst si), if is_orphan p (get_asg (p_name p) (fst si)) then memo else memo').
