(** Declarative side of C19: what a well-formed GPU request is and which
    request it denotes.  Independent of the code paths in GpuRequest.v. *)
From Coq Require Import List ZArith NArith String Ascii Bool.
From KaiV Require Import Model.Strconv Model.GpuRequest.
Import ListNotations.
Open Scope Z_scope.

Definition int63_pos (s : string) : option Z :=
  match parse_int s with
  | Some n => if (0 <? n) && (n <? 9223372036854775808) then Some n else None
  | None => None
  end.

(** finite, strictly between 0 and 1 *)
Definition good_fraction (r : pfres) : bool :=
  negb (pf_err r) && f_is_finite (pf_bits r) && f_gt0 (pf_bits r) && f_lt1 (pf_bits r).

Definition wellformed_sharing (pf : string -> pfres) (p : gpod) : bool :=
  match a_fraction p with Some s => good_fraction (pf s) | None => true end
  && match a_memory p with Some s => isSome (int63_pos s) | None => true end
  && match a_numdev p with Some s => isSome (int63_pos s) | None => true end
  && negb (isSome (a_fraction p) && isSome (a_memory p))
  (* a sharing request is never combined with a whole-GPU limit on any container, init containers included:
     otherwise the scheduler would book the fraction only while the kubelet hands out whole devices *)
  && negb (requests_gpu_fraction p && first_gpu_limit p).

(** GPU requests equal limits on every container, as the API server enforces
    for extended resources. *)
Definition normalised (p : gpod) : bool :=
  forallb (fun c => match c_gpu_req c, c_gpu_lim c with
                    | Some a, Some b => (a =? b) && (0 <=? a)
                    | None, None => true
                    | _, _ => false
                    end) (containers p ++ inits p).

Definition numdev_or_1 (p : gpod) : Z :=
  match a_numdev p with
  | Some s => match int63_pos s with Some n => n | None => 1 end
  | None => 1
  end.

(** Whole GPUs as the kubelet enforces them: from container *limits*. *)
Definition sum_gpu_limits (cs : list container) : option Z :=
  fold_left (fun acc c =>
               match c_gpu_lim c with
               | None => acc
               | Some q => Some (match acc with Some a => a + q | None => q end)
               end) cs None.

Definition whole_of_limits (p : gpod) : Z * bool :=
  fold_left (fun g c => set_max g (gpu_from_list (c_gpu_lim c)))
            (inits p) (gpu_from_list (sum_gpu_limits (containers p))).

(** The request an accepted pod denotes. *)
Definition denoted (pf : string -> pfres) (p : gpod) : greq :=
  match a_fraction p, a_memory p with
  | Some s, _ =>
      {| g_type := Fraction; g_count := numdev_or_1 p; g_portion := pf_bits (pf s); g_memory := 0 |}
  | None, Some m =>
      {| g_type := GpuMemory; g_count := numdev_or_1 p;
         g_portion := zero_bits;
         g_memory := match int63_pos m with Some n => n | None => 0 end |}
  | None, None =>
      let g := whole_of_limits p in
      {| g_type := Regular; g_count := fst g;
         g_portion := if snd g then one_bits else zero_bits; g_memory := 0 |}
  end.

Definition rtype_eqb (a b : rtype) : bool :=
  match a, b with
  | Regular, Regular | Fraction, Fraction | GpuMemory, GpuMemory => true
  | _, _ => false
  end.

Definition greq_eqb (a b : greq) : bool :=
  rtype_eqb (g_type a) (g_type b) && (g_count a =? g_count b)
  && (g_portion a =? g_portion b)%N && (g_memory a =? g_memory b).

Definition is_sharing (g : greq) : bool :=
  match g_type g with Regular => false | _ => true end.
