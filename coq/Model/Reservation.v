(** Executable model of the binder's GPU reservation pods (C17, clauses 2 and 3).

    Go code modelled, AS IT IS:
      pkg/binder/binding/resourcereservation/resource_reservation.go
        ReserveGpuDevice           [reserve]           (acquireGPUIndexByGroup, findGPUIndexByGroup,
                                                        createGPUReservationPodAndGetIndex, isScalingUp,
                                                        createGPUReservationPod, waitForGPUReservationPodAllocation,
                                                        deleteReservationPod, updatePodGPUGroup)
        syncForGpuGroupWithLock    [sync_group]        (two lists: label runai-gpu-group = g, label
                                                        runai-gpu-group/<g> = g) ; SyncForGpuGroup is the same
                                                        under the group lock
        syncForPods                [sync_for_pods]     (deleteNonReservedPods, deleteReservationPod)
        SyncForPodsList            [sync_pods_list]    (groups = union of resources.GetGpuGroups over the listed
                                                        pods, visited in Go map order, stops at the first error)
        SyncForNode, Sync          [sync_node], [sync_all]  (list: HasLabels{runai-gpu-group} [+ spec.nodeName])
        RemovePodGpuGroupsConnection [remove_connection]  (merge patch nulling every group label of the
                                                        IN-MEMORY pod; no call when it has none)
      pkg/common/resources/gpu_sharing.go
        GetGpuGroups               [get_gpu_groups]    (plain label value + every per-group label value)
        GetMultiFractionGpuGroupLabel, IsMultiFraction ([p_mf]: the annotation's verdict)
      pkg/binder/binding/binder.go
        Binder.Bind                [bind_main]         (SyncForNode; reserveGPUs; plugins' PreBind; annotation
                                                        patch; Binding sub-resource)
        Binder.Rollback            [rollback]
      pkg/binder/controllers/pod_controller.go
        eventHandlers / syncReservationIfNeeded / isCompletionEvent   [on_pod_update], [on_pod_delete]
      pkg/binder/controllers/bindrequest_controller.go
        deleteHandler              [on_br_delete] ; the three lines of Reconcile that compose Bind and Rollback
      cmd/binder/app/app.go        start-up Sync       [EvRestart]

    The API store is a list of pods: consumers (namespace "ns") in name order --
    they exist from the start and are never re-created -- followed by reservation
    pods in creation order.  Every section runs in a state monad over [world];
    every API call ([tick]) consults the step's fault oracle: call number k fails
    (the call has no effect and returns an error) or the process crashes before
    call k (everything after it is dropped -- a crash truncates the history
    between two API calls).  Each critical section of a group is one atomic
    piece of the monad: that is justified by Proofs/GroupMutex.v and
    Proofs/Sections.v (the lock protocol with bodies that run one API call at a
    time), and checked on the real code by the race stream of Run/C17.v.

    Oracles (theorems quantify over all of them): fault positions, the device
    plugin (annotates a new reservation pod with an index, or never does), Go's
    map iteration order (the order in which SyncForPodsList / the pod handler
    visit groups; one list per visit, unknown or missing entries fall back to a
    fixed order), the binder plugins' PreBind verdict.

    Environment: users delete pods, the kubelet moves phases forward only
    (Pending -> Running -> Succeeded/Failed), the API server's garbage collector
    deletes the BindRequest owned by a deleted pod, the scheduler deletes stale
    BindRequests, somebody else may delete a reservation pod ([EvResGone]).

    Ghost state: [p_given] is what the binder handed to the plugins' PreBind for
    the pod in its latest bind attempt (in the real system: the device indices
    written to the pod's ConfigMap); it is reset when an attempt starts.
    [drain] takes fuel (one unit per deleted consumer; a step cannot delete more
    consumers than the store holds); Run/C17.v checks that nothing is left
    undelivered.

    Left out: informer-cache staleness (the client reads its own writes), the
    scaling-pod check's positive outcome (no unschedulable scaling pod exists;
    the List call is there), a reservation pod annotated with the EMPTY string
    (findGPUIndexByGroup would then create a second pod), reservation pod spec,
    the rest of Reconcile (status, conditions, InvalidCrdWarning: bind requests
    carry at least one group), consumers of another scheduler.
    No proofs in this file. *)
From Coq Require Import List PArith Bool Arith.
Import ListNotations.

Definition group := positive.
Definition node := positive.
Definition pid := positive.
Definition gidx := positive.     (* a non-empty device index string *)

Inductive phase := Pending | Running | Succeeded | Failed.
Inductive mfkind := MfNo | MfYes | MfErr.   (* resources.IsMultiFraction: false / true / error *)

Record pod := mkPod {
  p_id : pid;
  p_res : bool;                  (* lives in the reservation namespace *)
  p_node : option node;          (* spec.nodeName *)
  p_plain : option group;        (* label runai-gpu-group *)
  p_multi : list group;          (* labels runai-gpu-group/<g> = g, sorted, no duplicates *)
  p_phase : phase;
  p_index : option gidx;         (* annotation run.ai/reserve_for_gpu_index (reservation pods) *)
  p_mf : mfkind;
  p_given : list (group * gidx)  (* ghost: the device indices the binder handed to the plugins for this pod *)
}.

Definition phase_eqb (a b : phase) : bool :=
  match a, b with
  | Pending, Pending | Running, Running | Succeeded, Succeeded | Failed, Failed => true
  | _, _ => false
  end.
Definition live_phase (ph : phase) : bool := match ph with Pending | Running => true | _ => false end.
Definition completed (ph : phase) : bool := match ph with Succeeded | Failed => true | _ => false end.
Definition phase_rank (ph : phase) : nat := match ph with Pending => 0 | Running => 1 | _ => 2 end.

Definition mem_pos (g : positive) (l : list positive) : bool := existsb (Pos.eqb g) l.
Fixpoint ins_sorted (g : positive) (l : list positive) : list positive :=
  match l with
  | [] => [g]
  | x :: r => match Pos.compare g x with
              | Lt => g :: l
              | Eq => l
              | Gt => x :: ins_sorted g r
              end
  end.
(** duplicates removed, first occurrences kept *)
Fixpoint dedup (l : list positive) : list positive :=
  match l with
  | [] => []
  | x :: r => x :: filter (fun y => negb (Pos.eqb y x)) (dedup r)
  end.

Definition with_plain (v : option group) (p : pod) : pod :=
  mkPod (p_id p) (p_res p) (p_node p) v (p_multi p) (p_phase p) (p_index p) (p_mf p) (p_given p).
Definition with_multi (v : list group) (p : pod) : pod :=
  mkPod (p_id p) (p_res p) (p_node p) (p_plain p) v (p_phase p) (p_index p) (p_mf p) (p_given p).
Definition with_node (v : option node) (p : pod) : pod :=
  mkPod (p_id p) (p_res p) v (p_plain p) (p_multi p) (p_phase p) (p_index p) (p_mf p) (p_given p).
Definition with_phase (v : phase) (p : pod) : pod :=
  mkPod (p_id p) (p_res p) (p_node p) (p_plain p) (p_multi p) v (p_index p) (p_mf p) (p_given p).
Definition with_given (v : list (group * gidx)) (p : pod) : pod :=
  mkPod (p_id p) (p_res p) (p_node p) (p_plain p) (p_multi p) (p_phase p) (p_index p) (p_mf p) v.

Definition has_plain (g : group) (p : pod) : bool :=
  match p_plain p with Some x => Pos.eqb x g | None => false end.
Definition has_multi (g : group) (p : pod) : bool := mem_pos g (p_multi p).
Definition carries_b (g : group) (p : pod) : bool := has_plain g p || has_multi g p.

(** resources.GetGpuGroups: the plain label's value if present, then the value
    of every runai-gpu-group/<g> label (in Go map order: a set) *)
Definition plain_list (p : pod) : list group := match p_plain p with Some g => [g] | None => [] end.
Definition get_gpu_groups (p : pod) : list group := plain_list p ++ p_multi p.

Definition is_consumer (c : pid) (p : pod) : bool := negb (p_res p) && Pos.eqb (p_id p) c.
Definition is_resid (i : pid) (p : pod) : bool := p_res p && Pos.eqb (p_id p) i.
Definition find_consumer (c : pid) (s : list pod) : option pod := find (is_consumer c) s.
Definition upd_consumer (c : pid) (f : pod -> pod) (s : list pod) : list pod :=
  map (fun p => if is_consumer c p then f p else p) s.
Definition del_consumer (c : pid) (s : list pod) : list pod := filter (fun p => negb (is_consumer c p)) s.
Definition del_res (i : pid) (s : list pod) : list pod := filter (fun p => negb (is_resid i p)) s.
Definition res_of (g : group) (s : list pod) : list pod := filter (fun p => p_res p && has_plain g p) s.

(** ** the world of one step *)
Inductive call := CList | CCreate | CWatch | CDelete | CPatch | CBind | CGet.   (* CGet: not issued by the modelled code *)
Record faults := mkF { f_err : list nat; f_crash : option nat }.
Definition brmap := list (pid * list group).

Record world := mkW {
  w_store : list pod;
  w_next : pid;                        (* next reservation pod identity *)
  w_brs : brmap;                       (* BindRequests (owned by their pod): selected GPU groups *)
  w_k : nat;                           (* API calls issued so far in this step *)
  w_log : list call;                   (* the calls, latest first *)
  w_fl : faults;
  w_ord : list (list group);           (* Go map iteration orders, one per visit *)
  w_dp : list (option gidx);           (* device plugin answers, one per created reservation pod *)
  w_mem : option pod;                  (* the reconcile's in-memory copy of the consumer *)
  w_pend : list (pod * option (list group))   (* deleted consumers whose watch events were not handled yet *)
}.
Definition set_store (s : list pod) (w : world) : world :=
  mkW s (w_next w) (w_brs w) (w_k w) (w_log w) (w_fl w) (w_ord w) (w_dp w) (w_mem w) (w_pend w).
Definition set_next (n : pid) (w : world) : world :=
  mkW (w_store w) n (w_brs w) (w_k w) (w_log w) (w_fl w) (w_ord w) (w_dp w) (w_mem w) (w_pend w).
Definition set_brs (b : brmap) (w : world) : world :=
  mkW (w_store w) (w_next w) b (w_k w) (w_log w) (w_fl w) (w_ord w) (w_dp w) (w_mem w) (w_pend w).
Definition set_call (c : call) (w : world) : world :=
  mkW (w_store w) (w_next w) (w_brs w) (S (w_k w)) (c :: w_log w) (w_fl w) (w_ord w) (w_dp w) (w_mem w) (w_pend w).
Definition set_ord (o : list (list group)) (w : world) : world :=
  mkW (w_store w) (w_next w) (w_brs w) (w_k w) (w_log w) (w_fl w) o (w_dp w) (w_mem w) (w_pend w).
Definition set_dp (d : list (option gidx)) (w : world) : world :=
  mkW (w_store w) (w_next w) (w_brs w) (w_k w) (w_log w) (w_fl w) (w_ord w) d (w_mem w) (w_pend w).
Definition set_mem (m : option pod) (w : world) : world :=
  mkW (w_store w) (w_next w) (w_brs w) (w_k w) (w_log w) (w_fl w) (w_ord w) (w_dp w) m (w_pend w).
Definition set_pend (q : list (pod * option (list group))) (w : world) : world :=
  mkW (w_store w) (w_next w) (w_brs w) (w_k w) (w_log w) (w_fl w) (w_ord w) (w_dp w) (w_mem w) q.

Fixpoint br_get (c : pid) (b : brmap) : option (list group) :=
  match b with
  | [] => None
  | (c', gs) :: r => if Pos.eqb c c' then Some gs else br_get c r
  end.
Definition br_del (c : pid) (b : brmap) : brmap := filter (fun e => negb (Pos.eqb c (fst e))) b.
Definition br_put (c : pid) (gs : list group) (b : brmap) : brmap := (c, gs) :: br_del c b.

(** ** the monad: result, error (a Go error value), crash *)
Inductive out (A : Type) := Ok (a : A) | Err | Crash.
Arguments Ok {A} a. Arguments Err {A}. Arguments Crash {A}.
Definition M (A : Type) := world -> out A * world.
Definition ret {A} (a : A) : M A := fun w => (Ok a, w).
Definition fail {A} : M A := fun w => (Err, w).
Definition bind {A B} (m : M A) (k : A -> M B) : M B :=
  fun w => match m w with
           | (Ok a, w') => k a w'
           | (Err, w') => (Err, w')
           | (Crash, w') => (Crash, w')
           end.
(** the caller logs the error and goes on *)
Definition try {A} (m : M A) : M (option A) :=
  fun w => match m w with
           | (Ok a, w') => (Ok (Some a), w')
           | (Err, w') => (Ok None, w')
           | (Crash, w') => (Crash, w')
           end.
Notation "x <- m ;; k" := (bind m (fun x => k)) (at level 61, m at next level, right associativity).
Notation "m ;;; k" := (bind m (fun _ => k)) (at level 61, right associativity).

Definition mem_nat (k : nat) (l : list nat) : bool := existsb (Nat.eqb k) l.
Definition crash_at (k : nat) (f : faults) : bool :=
  match f_crash f with Some c => Nat.eqb c k | None => false end.

(** one API call: crash before it, or the call fails, or it goes through *)
Definition tick (c : call) : M unit :=
  fun w => if crash_at (w_k w) (w_fl w) then (Crash, w)
           else if mem_nat (w_k w) (f_err (w_fl w)) then (Err, set_call c w)
           else (Ok tt, set_call c w).

Definition get_store : M (list pod) := fun w => (Ok (w_store w), w).
Definition put_store (s : list pod) : M unit := fun w => (Ok tt, set_store s w).
Definition get_mem : M pod := fun w => match w_mem w with Some m => (Ok m, w) | None => (Err, w) end.
Definition put_mem (m : option pod) : M unit := fun w => (Ok tt, set_mem m w).

(** ** API calls *)
Definition api_list (f : pod -> bool) : M (list pod) :=
  tick CList ;;; s <- get_store ;; ret (filter f s).

(** the reservation pod is removed; NotFound is not an error (deleteReservationPod) *)
Definition api_delete_res (i : pid) : M unit :=
  tick CDelete ;;; s <- get_store ;; put_store (del_res i s).

(** Delete of a consumer; the API server's garbage collector then removes the
    BindRequest the pod owns, and both deletions are announced to the binder
    later ([w_pend]). *)
Definition remove_consumer (c : pid) : M unit :=
  fun w => match find_consumer c (w_store w) with
           | None => (Err, w)                                   (* NotFound *)
           | Some p => (Ok tt, set_pend (w_pend w ++ [(p, br_get c (w_brs w))])
                                 (set_brs (br_del c (w_brs w)) (set_store (del_consumer c (w_store w)) w)))
           end.
Definition api_delete_consumer (c : pid) : M unit := tick CDelete ;;; remove_consumer c.

Definition pop_dp : M (option gidx) :=
  fun w => match w_dp w with
           | [] => (Ok None, w)
           | d :: r => (Ok d, set_dp r w)
           end.
(** Create of a reservation pod; the device plugin (oracle) annotates it, or not *)
Definition api_create_res (n : node) (g : group) : M pod :=
  tick CCreate ;;;
  d <- pop_dp ;;
  fun w => let p := mkPod (w_next w) true (Some n) (Some g) [] Pending d MfNo [] in
           (Ok p, set_next (Pos.succ (w_next w)) (set_store (w_store w ++ [p]) w)).

(** ** resource_reservation.go *)
Definition scaling_check : M unit := _ <- try (tick CList) ;; ret tt.

Definition wait_for_index (i : pid) : M (option gidx) :=
  r <- try (tick CWatch) ;;
  match r with
  | None => ret None
  | Some _ => s <- get_store ;;
              ret (match find (is_resid i) s with Some p => p_index p | None => None end)
  end.

Definition create_and_get_index (n : node) (g : group) : M gidx :=
  scaling_check ;;;
  p <- api_create_res n g ;;
  r <- wait_for_index (p_id p) ;;
  match r with
  | Some i => ret i
  | None => _ <- try (api_delete_res (p_id p)) ;; fail
  end.

Definition find_index (g : group) : M (option gidx) :=
  l <- api_list (fun p => p_res p && has_plain g p) ;;
  match l with
  | [] => ret None
  | p :: _ => match p_index p with Some i => ret (Some i) | None => fail end
  end.

Definition acquire_index (n : node) (g : group) : M gidx :=
  r <- find_index g ;;
  match r with
  | Some i => ret i
  | None => create_and_get_index n g
  end.

(** Patch(MergeFrom(original)): only the label that differs is sent; the
    in-memory pod is replaced by the server's answer *)
Definition apply_label_patch (c : pid) (f : pod -> pod) : M unit :=
  fun w => match find_consumer c (w_store w) with
           | None => (Err, w)
           | Some _ => let s' := upd_consumer c f (w_store w) in
                       (Ok tt, set_mem (find_consumer c s') (set_store s' w))
           end.

Definition add_multi (g : group) (p : pod) : pod := with_multi (ins_sorted g (p_multi p)) p.

(** [c] is the consumer's name; the labels and the multi-fraction verdict are
    read from the in-memory copy *)
Definition update_pod_gpu_group (c : pid) (g : group) : M unit :=
  m <- get_mem ;;
  match p_mf m with
  | MfErr => fail
  | MfNo =>
      put_mem (Some (with_plain (Some g) m)) ;;;
      tick CPatch ;;;
      apply_label_patch c (if has_plain g m then (fun p => p) else with_plain (Some g))
  | MfYes =>
      put_mem (Some (add_multi g m)) ;;;
      tick CPatch ;;;
      apply_label_patch c (if has_multi g m then (fun p => p) else add_multi g)
  end.

Fixpoint last_res (l : list pod) : option pod :=
  match l with
  | [] => None
  | p :: r => match last_res r with
              | Some q => Some q
              | None => if p_res p then Some p else None
              end
  end.

Fixpoint delete_non_reserved (l : list pod) : M unit :=
  match l with
  | [] => ret tt
  | p :: r => match p_phase p with
              | Running => api_delete_consumer (p_id p) ;;; delete_non_reserved r
              | _ => delete_non_reserved r
              end
  end.

Definition sync_for_pods (pods : list pod) : M unit :=
  let resv := last_res pods in
  let frac := filter (fun p => negb (p_res p) && live_phase (p_phase p)) pods in
  match frac, resv with
  | _ :: _, None => delete_non_reserved frac
  | [], Some r => api_delete_res (p_id r)
  | _, _ => ret tt
  end.

Definition sync_group (g : group) : M unit :=
  l1 <- api_list (has_plain g) ;;
  l2 <- api_list (has_multi g) ;;
  sync_for_pods (l1 ++ l2).

Definition reserve (c : pid) (n : node) (g : group) : M gidx :=
  i <- acquire_index n g ;;
  r <- try (update_pod_gpu_group c g) ;;
  match r with
  | Some _ => ret i
  | None => _ <- try (sync_group g) ;; fail
  end.

(** the order in which a Go map with key set [S] is ranged over *)
Definition pop_ord : M (list group) :=
  fun w => match w_ord w with
           | [] => (Ok [], w)
           | o :: r => (Ok o, set_ord r w)
           end.
Definition order_by (o : list group) (S : list group) : list group :=
  filter (fun g => mem_pos g S) (dedup o) ++ filter (fun g => negb (mem_pos g o)) S.

Fixpoint sync_each (stop_on_error : bool) (gs : list group) : M unit :=
  match gs with
  | [] => ret tt
  | g :: r => x <- try (sync_group g) ;;
              match x with
              | Some _ => sync_each stop_on_error r
              | None => if stop_on_error then fail else sync_each stop_on_error r
              end
  end.

Definition sync_pods_list (l : list pod) : M unit :=
  o <- pop_ord ;;
  sync_each true (order_by o (dedup (flat_map get_gpu_groups l))).

Definition on_node (n : node) (p : pod) : bool :=
  match p_node p with Some x => Pos.eqb x n | None => false end.
Definition labelled (p : pod) : bool := match p_plain p with Some _ => true | None => false end.

Definition sync_node (n : node) : M unit :=
  l <- api_list (fun p => labelled p && on_node n p) ;; sync_pods_list l.
Definition sync_all : M unit :=
  l <- api_list labelled ;; sync_pods_list l.

Definition remove_keys (m sp : pod) : pod :=
  with_multi (filter (fun g => negb (mem_pos g (p_multi m))) (p_multi sp))
             (with_plain (match p_plain m with Some _ => None | None => p_plain sp end) sp).

(** a merge patch that nulls every group label of the IN-MEMORY pod (a no-op
    for a label the server never got); no call at all without such a label *)
Definition remove_connection (c : pid) : M unit :=
  m <- get_mem ;;
  match p_plain m, p_multi m with
  | None, [] => ret tt
  | _, _ =>
      tick CPatch ;;;
      fun w => match find_consumer c (w_store w) with
               | None => (Err, w)
               | Some _ =>
                   let s' := upd_consumer c (remove_keys m) (w_store w) in
                   (Ok tt, set_mem (find_consumer c s') (set_store s' w))
               end
  end.

(** ** binder.go *)
Fixpoint reserve_all (c : pid) (n : node) (gs : list group) : M (list gidx) :=
  match gs with
  | [] => ret []
  | g :: r => i <- reserve c n g ;; is <- reserve_all c n r ;; ret (i :: is)
  end.

Definition record_given (c : pid) (gs : list group) (is : list gidx) : M unit :=
  s <- get_store ;; put_store (upd_consumer c (with_given (combine gs is)) s).

Definition patch_existing (c : pid) (cl : call) (f : pod -> pod) : M unit :=
  tick cl ;;;
  fun w => match find_consumer c (w_store w) with
           | None => (Err, w)
           | Some _ => (Ok tt, set_store (upd_consumer c f (w_store w)) w)
           end.

Definition bind_main (c : pid) (n : node) (gs : list group) (prebind_ok : bool) : M unit :=
  sync_node n ;;;
  is <- (match gs with [] => fail | _ => reserve_all c n gs end) ;;
  record_given c gs is ;;;
  (if prebind_ok then ret tt else fail) ;;;
  patch_existing c CPatch (fun p => p) ;;;                (* received-resource-type annotation *)
  patch_existing c CBind (with_node (Some n)).            (* Binding sub-resource *)

Definition rollback (c : pid) (n : node) : M unit :=
  _ <- try (remove_connection c) ;;
  _ <- try (sync_node n) ;;
  ret tt.

(** ** controllers *)
(** syncReservationIfNeeded; [o]: the order in which the multi-fraction labels are ranged over *)
Definition sync_if_needed (o : list group) (p : pod) : M unit :=
  sync_each false (plain_list p ++ order_by o (p_multi p)).
Definition on_pod_delete (p : pod) : M unit := o <- pop_ord ;; sync_if_needed o p.
Definition on_pod_update (ph : phase) (p' : pod) : M unit :=
  o <- pop_ord ;; if completed ph then sync_if_needed o p' else ret tt.

Definition on_br_delete (gs : list group) : M unit := sync_each false gs.

Definition pop_pend : M (option (pod * option (list group))) :=
  fun w => match w_pend w with
           | [] => (Ok None, w)
           | x :: r => (Ok (Some x), set_pend r w)
           end.

(** deliver the watch events of deleted consumers (and of their collected
    BindRequests) until none is left; every delivery may delete more pods *)
Fixpoint drain (fuel : nat) : M unit :=
  match fuel with
  | O => ret tt
  | S f =>
      x <- pop_pend ;;
      match x with
      | None => ret tt
      | Some (p, b) =>
          on_pod_delete p ;;;
          (match b with Some gs => on_br_delete gs | None => ret tt end) ;;;
          drain f
      end
  end.

(** ** events *)
Inductive event :=
| EvBind (c : pid) (n : node) (gs : list group) (prebind_ok : bool)
      (* the scheduler wrote a BindRequest (fraction type, groups gs); the binder reconciles it *)
| EvPhase (c : pid) (ph : phase)     (* kubelet status update; pod controller's update handler *)
| EvDelete (c : pid)                 (* a user deletes the consumer *)
| EvBRDelete (c : pid)               (* the scheduler deletes the pod's (stale) BindRequest *)
| EvResGone (g : group)              (* somebody else deletes g's reservation pod *)
| EvNodeSync (n : node)              (* SyncForNode n: first thing any bind on node n does *)
| EvRestart.                         (* the binder (re)starts: Sync *)

Definition do_bind (c : pid) (n : node) (gs : list group) (prebind_ok : bool) : M unit :=
  fun w => match find_consumer c (w_store w) with
           | None => (Ok tt, w)
           | Some p =>
               match p_node p with
               | Some _ => (Ok tt, w)                       (* "Pod is already bound to node" *)
               | None =>
                   (r <- try (bind_main c n gs prebind_ok) ;;
                    match r with
                    | Some _ => ret tt
                    | None => rollback c n
                    end)
                     (set_store (upd_consumer c (with_given []) (w_store w))
                        (set_brs (br_put c gs (w_brs w)) (set_mem (Some p) w)))
               end
           end.

(** the kubelet moves a pod's phase forward only *)
Definition advance (ph : phase) (p : pod) : pod :=
  if Nat.ltb (phase_rank (p_phase p)) (phase_rank ph) then with_phase ph p else p.

Definition do_phase (c : pid) (ph : phase) : M unit :=
  fun w => match find_consumer c (w_store w) with
           | None => (Ok tt, w)
           | Some p =>
               if Nat.ltb (phase_rank (p_phase p)) (phase_rank ph)
               then let p' := with_phase ph p in
                    on_pod_update ph p'
                      (set_store (upd_consumer c (advance ph) (w_store w)) w)
               else (Ok tt, w)
           end.

Definition do_delete (c : pid) : M unit := _ <- try (remove_consumer c) ;; ret tt.

Definition do_br_delete (c : pid) : M unit :=
  fun w => match br_get c (w_brs w) with
           | None => (Ok tt, w)
           | Some gs => on_br_delete gs (set_brs (br_del c (w_brs w)) w)
           end.

Definition do_res_gone (g : group) : M unit :=
  s <- get_store ;;
  match res_of g s with
  | [] => ret tt
  | r :: _ => put_store (del_res (p_id r) s)
  end.

Definition run_event (e : event) : M unit :=
  match e with
  | EvBind c n gs ok => do_bind c n gs ok
  | EvPhase c ph => do_phase c ph
  | EvDelete c => do_delete c
  | EvBRDelete c => do_br_delete c
  | EvResGone g => do_res_gone g
  | EvNodeSync n => sync_node n
  | EvRestart => sync_all
  end.

(** ** histories *)
Record pstate := mkP { ps_store : list pod; ps_next : pid; ps_brs : brmap }.
Record step := mkStep {
  s_ev : event;
  s_fl : faults;
  s_ord : list (list group);
  s_dp : list (option gidx)
}.

Definition start_world (st : step) (s : pstate) : world :=
  mkW (ps_store s) (ps_next s) (ps_brs s) 0 [] (s_fl st) (s_ord st) (s_dp st) None [].

(** an event, then the delivery of the watch events it caused.  Nothing more
    happens in a process that has crashed; a failing start-up Sync makes the
    process exit (app.go panics). *)
Definition exits_on_error (e : event) : bool := match e with EvRestart => true | _ => false end.
Definition exec_world (st : step) (s : pstate) : out unit * world :=
  let fuel := S (length (ps_store s)) in
  (r <- try (run_event (s_ev st)) ;;
   match r with
   | Some _ => drain fuel
   | None => if exits_on_error (s_ev st) then fail else (drain fuel ;;; fail)
   end) (start_world st s).

Definition persist (w : world) : pstate := mkP (w_store w) (w_next w) (w_brs w).
Definition exec_step (s : pstate) (st : step) : pstate := persist (snd (exec_world st s)).
Definition exec (h : list step) (s : pstate) : pstate := fold_left exec_step h s.

Definition consumer0 (c : pid) (mf : mfkind) : pod := mkPod c false None None [] Pending None mf [].
Definition init_state (cs : list (pid * mfkind)) : pstate :=
  mkP (map (fun x => consumer0 (fst x) (snd x)) cs) 1%positive [].

Definition no_faults : faults := mkF [] None.
Definition quiet (e : event) : step := mkStep e no_faults [] [].

(** ** what "tracks exactly" means *)
Definition live (p : pod) : Prop := live_phase (p_phase p) = true.
Definition carries (p : pod) (g : group) : Prop := p_plain p = Some g \/ In g (p_multi p).
Definition has_res (s : list pod) (g : group) : Prop := res_of g s <> [].
Definition live_carrier (s : list pod) (g : group) : Prop :=
  exists p, In p s /\ p_res p = false /\ live p /\ carries p g.
Definition running_carrier (s : list pod) (g : group) : Prop :=
  exists p, In p s /\ p_res p = false /\ p_phase p = Running /\ carries p g.

(** at most one reservation pod per group *)
Definition at_most_one (s : list pod) : Prop := forall g, length (res_of g s) <= 1.
(** every bound live consumer of g was handed the index annotated on g's reservation pod *)
Definition index_matches (s : list pod) : Prop :=
  forall p g i, In p s -> p_res p = false -> live p -> p_node p <> None -> carries p g ->
                In (g, i) (p_given p) ->
                exists r, In r (res_of g s) /\ p_index r = Some i.
(** a reservation pod exists exactly for the groups a live pod carries *)
Definition exact_for (s : list pod) (g : group) : Prop := has_res s g <-> live_carrier s g.
(** no running pod is attached to a group without reservation *)
Definition no_running_orphan (s : list pod) : Prop :=
  forall g, running_carrier s g -> has_res s g.
