(** Count-level model of one allocation attempt on a pod group (property C03):
      pkg/scheduler/actions/allocate/allocate.go  attemptToAllocateJob
      pkg/scheduler/actions/common/allocate.go    AllocateJob (all tasks of the unit or rollback)
      pkg/scheduler/framework/statement.go        ConvertAllAllocatedToPipelined
    on top of Model/Gang.v (GetTasksToAllocate, ShouldPipelineJob).

    The tasks taken by GetTasksToAllocate are placed one after the other; where
    each lands is an oracle ([outcome]): bound now (Allocated), nominated onto
    terminating capacity (Pipelined), or no node fits (the whole attempt is
    rolled back).  When all are placed, ShouldPipelineJob is evaluated on the
    updated pod group; if it holds, every task this attempt allocated is turned
    into a nomination.  Tasks carry a mark saying whether this attempt touched
    them, so that "bound by this decision" can be stated without assuming that
    task identifiers are unique. *)
From Coq Require Import List ZArith PArith Bool.
From KaiV Require Import Model.Status Model.Gang.
Import ListNotations.
Open Scope Z_scope.

Inductive outcome := OBound | OPiped | OFail.

Definition mtask := (ptask * bool)%type.          (* (task, touched by this attempt) *)
Record mset := mkMS { ms_id : positive; ms_min : Z; ms_tasks : list mtask }.

Definition set_st (t : ptask) (s : status) : ptask := mkPT (pt_id t) s false.
Definition untouched (t : ptask) : mtask := (t, false).
Definition forget (m : mset) : pset := mkPS (ms_id m) (ms_min m) (map fst (ms_tasks m)).
Definition untouched_set (ps : pset) : mset := mkMS (ps_id ps) (ps_min ps) (map untouched (ps_tasks ps)).

(** place the first [c] allocatable tasks of a pod set, consuming outcomes *)
Fixpoint place_tasks (real : bool) (c : nat) (os : list outcome) (ts : list ptask)
  : option (list mtask * list outcome) :=
  match ts with
  | [] => Some ([], os)
  | t :: r =>
      if should_allocate real t then
        match c with
        | O => Some (map untouched (t :: r), os)
        | S c' =>
            match os with
            | OBound :: os' =>
                match place_tasks real c' os' r with
                | Some (r', o) => Some ((set_st t Allocated, true) :: r', o)
                | None => None
                end
            | OPiped :: os' =>
                match place_tasks real c' os' r with
                | Some (r', o) => Some ((set_st t Pipelined, true) :: r', o)
                | None => None
                end
            | OFail :: _ => None
            | [] => None
            end
        end
      else
        match place_tasks real c os r with
        | Some (r', o) => Some (untouched t :: r', o)
        | None => None
        end
  end.

(** The placement oracle: for every pod set the outcomes of its placements, in the
    order in which they happen during the action (keyed by pod set so that the
    model does not depend on the order in which one attempt visits the pod sets). *)
Definition omap := list (positive * list outcome).
Definition olook (id : positive) (m : omap) : list outcome :=
  match find (fun p => Pos.eqb (fst p) id) m with Some p => snd p | None => [] end.
Definition oset (id : positive) (l : list outcome) (m : omap) : omap :=
  (id, l) :: filter (fun p => negb (Pos.eqb (fst p) id)) m.

(** what GetTasksToAllocate takes from one pod set (Proofs/Gang.v [taken]) *)
Definition taken_of (real : bool) (ps : pset) : Z := Z.min (num_to_allocate real ps) (n_allocatable real ps).

(** the walk of GetTasksToAllocate over the pod sets, placing as it goes *)
Fixpoint attempt_go (real : bool) (budget : Z) (os : omap) (pss : list pset)
  : option (list mset * omap) :=
  match pss with
  | [] => Some ([], os)
  | ps :: r =>
      if budget <=? 0 then Some (map untouched_set (ps :: r), os)
      else if n_allocatable real ps =? 0 then
        match attempt_go real budget os r with
        | Some (rs, o) => Some (untouched_set ps :: rs, o)
        | None => None
        end
      else
        match place_tasks real (Z.to_nat (taken_of real ps)) (olook (ps_id ps) os) (ps_tasks ps) with
        | Some (ts', rest) =>
            match attempt_go real (budget - 1) (oset (ps_id ps) rest os) r with
            | Some (rs, o) => Some (mkMS (ps_id ps) (ps_min ps) ts' :: rs, o)
            | None => None
            end
        | None => None
        end
  end.

(** ConvertAllAllocatedToPipelined: the allocations of this statement become nominations *)
Definition convert_task (mt : mtask) : mtask :=
  if snd mt && status_eqb (pt_status (fst mt)) Allocated then (set_st (fst mt) Pipelined, true) else mt.
Definition convert_set (m : mset) : mset := mkMS (ms_id m) (ms_min m) (map convert_task (ms_tasks m)).

(** attemptToAllocateJob followed by Commit; [None] = Discard, nothing changed *)
Definition attempt_full (real : bool) (os : omap) (pss : list pset) : option (list mset * omap) :=
  match attempt_go real (max_sets_to_allocate pss) os pss with
  | None => None
  | Some (ms, o) =>
      if should_pipeline (map forget ms) then Some (map convert_set ms, o) else Some (ms, o)
  end.
Definition attempt (real : bool) (os : omap) (pss : list pset) : option (list mset) :=
  match attempt_full real os pss with Some (ms, _) => Some ms | None => None end.

(** The allocate action's loop for one job: a job whose attempt was committed is
    pushed back while GetTasksToAllocate still returns something (elastic
    growth, one pod per pod set and attempt); a job whose attempt was discarded
    is not pushed back.  Returns the committed attempts, oldest first, the final
    pod sets and what is left of the oracle. *)
Definition has_tasks (real : bool) (pss : list pset) : bool :=
  existsb (fun p => 0 <? snd p) (tasks_to_allocate real pss).
Fixpoint allocate_job (fuel : nat) (real : bool) (os : omap) (pss : list pset)
  : list (list mset) * list pset * omap :=
  match fuel with
  | O => ([], pss, os)
  | S f =>
      match attempt_full real os pss with
      | None => ([], pss, os)
      | Some (ms, o) =>
          let pss' := map forget ms in
          if has_tasks real pss' then
            match allocate_job f real o pss' with
            | (tr, fin, o') => (ms :: tr, fin, o')
            end
          else ([ms], pss', o)
      end
  end.

(** pods of a pod set this decision binds now *)
Definition newly_bound (m : mset) : Z :=
  countb (fun mt => snd mt && status_eqb (pt_status (fst mt)) Allocated) (ms_tasks m).
(** pods of a pod set this decision only nominates *)
Definition newly_piped (m : mset) : Z :=
  countb (fun mt => snd mt && status_eqb (pt_status (fst mt)) Pipelined) (ms_tasks m).
(** active pods that really hold (or are being given) resources: not mere nominations *)
Definition holding (s : status) : bool := negb (status_eqb s Pipelined) && active_allocated s.
Definition n_holding (ps : pset) : Z := countb (fun t => holding (pt_status t)) (ps_tasks ps).
