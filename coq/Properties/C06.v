(** C06 - Only eligible victims are evicted, and only to place a workload.
    Statements only; proofs are in Proofs/Victims.v.

    The model (Model/Victims.v): an action is any sequence of scenarios
    ([run_steps]; which scenario is tried, in which order, with which victims and
    which placements is an oracle); each scenario builds one statement - evict the
    recorded and the chosen potential victims, nominate what the simulation placed
    - which is committed as a whole when the victims passed the action's filter,
    the action's validators accept and the pending job is solved, and discarded
    otherwise ([run_scenario]).  A commit emits one call per valid operation.

    Reading of the property text used below.  A victim need not be running: a pod
    that was only nominated earlier in the same cycle (status Pipelined) can be
    evicted; the property constrains whose pods are evicted and why, not their
    state.  "Inside the minimum runtime" uses the documented resolution
    (Model/VictimsSpec.v: [inside_min_runtime]); for consolidation, which the
    plugin does not mention, a victim counts as inside only when it is inside
    both its preempt and its reclaim min-runtime.  "Keeps every pod set at or
    above its minimum": every pod set the commit takes a pod from still has
    minAvailable live pods (active, not terminating) after the commit. *)
From Coq Require Import List ZArith Bool PArith.
From KaiV Require Import Model.Status Model.Victims Model.VictimsSpec Proofs.Victims.
Import ListNotations.
Open Scope Z_scope.

(** ** 1. Victim eligibility *)

(** Full-strength statement (kept visible): every committed Evict(t, action,
    preemptor) names the statement's action and pending job; t's job is
    preemptible; preempt => same queue and strictly lower priority; reclaim =>
    another queue; inside its minimum runtime => elastic and the pod set keeps its
    minimum - for all three actions. *)
Definition C06_victim_eligible_statement : Prop := victim_eligible_statement (fun _ => True).

(** Refuted: consolidation consults no min-runtime (known finding
    C06-consolidation-ignores-minruntime; witness [ex_consolidation_inside],
    replayed on the real action by harness family consolidation/inside-min-runtime). *)
Theorem C06_victim_eligible_refuted : ~ C06_victim_eligible_statement.
Proof. exact victim_eligible_refuted. Qed.
Print Assumptions C06_victim_eligible_refuted.

(** Holds with the min-runtime conjunct restricted to preempt and reclaim - for
    every environment (queue tree, settings, time), state, scenario and placements. *)
Theorem C06_victim_eligible_partial :
  forall env a s pre sc sim calls s' t a' p',
    run_scenario env a s pre sc sim = Committed calls s' -> In (VEvict t a' p') calls ->
    a' = a /\ p' = pre /\
    exists pj j tk,
      find_job (ss_jobs s) pre = Some pj /\ get_task (ss_tasks s) t = Some tk /\ job_of s t = Some j
      /\ vj_preemptible j = true
      /\ (a = APreempt -> vj_queue j = vj_queue pj /\ vj_prio j < vj_prio pj)
      /\ (a = AReclaim -> vj_queue j <> vj_queue pj)
      /\ (a <> AConsolidation -> inside_min_runtime env a pj j = true ->
          job_elastic s j = true
          /\ forall m, plookup (vt_pset tk) (vj_psets j) = Some m -> m <= live_count s' (vj_id j) (vt_pset tk)).
Proof. exact victim_eligible_partial. Qed.
Print Assumptions C06_victim_eligible_partial.

(** The same for every commit of every run of an action (any scenario order). *)
Theorem C06_victim_eligible_every_commit :
  forall env s steps cs sf,
    run_steps env s steps = Some (cs, sf) ->
    forall st calls, In (st, calls) cs ->
    forall t a' p', In (VEvict t a' p') calls ->
    a' = sp_action st /\ p' = sp_preemptor st
    /\ exists si sj, ss_jobs si = ss_jobs s
         /\ victim_eligible_at (fun a => a <> AConsolidation) env (sp_action st) si sj (sp_preemptor st) t.
Proof. exact victim_eligible_cycle. Qed.
Print Assumptions C06_victim_eligible_every_commit.

(** ** 2. Every eviction has a purpose: the commit that evicts also nominates a pod of the pending job *)
Theorem C06_eviction_has_purpose :
  forall env a s pre sc sim calls s',
    run_scenario env a s pre sc sim = Committed calls s' ->
    exists t n gs tk, In (VPipe t n gs) calls /\ get_task (ss_tasks s) t = Some tk /\ vt_job tk = pre.
Proof. exact eviction_has_purpose_core. Qed.
Print Assumptions C06_eviction_has_purpose.

Theorem C06_eviction_has_purpose_every_commit :
  forall env s steps cs sf,
    run_steps env s steps = Some (cs, sf) ->
    forall st calls, In (st, calls) cs ->
    exists si, ss_jobs si = ss_jobs s
      /\ exists t n gs tk, In (VPipe t n gs) calls /\ get_task (ss_tasks si) t = Some tk /\ vt_job tk = sp_preemptor st.
Proof. exact eviction_has_purpose_cycle. Qed.
Print Assumptions C06_eviction_has_purpose_every_commit.

(** ** 3. Consolidation evicts a pod only if the same commit re-places it elsewhere *)

(** [good_move s t n gs]: in the session the statement started from, pod t had no
    entry on node n, or had one with other GPU groups (same node, another device). *)
Definition C06_consolidation_moves_statement : Prop := consolidation_moves_statement (fun _ => True).

(** Refuted by the statement discipline itself: a pod evicted twice by one
    statement (known finding C13-double-evict) is un-evicted once and committed
    once, without any nomination (witness [ex_double_evict]). *)
Theorem C06_consolidation_moves_refuted : ~ C06_consolidation_moves_statement.
Proof. exact consolidation_moves_refuted. Qed.
Print Assumptions C06_consolidation_moves_refuted.

(** Holds when the statement evicts no pod twice. *)
Theorem C06_consolidation_moves_partial :
  forall env s pre sc sim calls s' t a' p',
    run_scenario env AConsolidation s pre sc sim = Committed calls s' ->
    NoDup (sc_evicted sc) ->
    In (VEvict t a' p') calls ->
    exists n gs, In (VPipe t n gs) calls /\ good_move s t n gs.
Proof. exact consolidation_moves_partial. Qed.
Print Assumptions C06_consolidation_moves_partial.

(** with node entries as the snapshot builds them: another node, or other GPU groups *)
Theorem C06_moved_elsewhere :
  forall s t n gs tk n0,
    good_move s t n gs -> get_task (ss_tasks s) t = Some tk -> vt_node tk = Some n0 ->
    entry_of (ss_entries s) t n0 = Some (vt_groups tk) ->
    n <> n0 \/ pos_list_eqb gs (vt_groups tk) = false.
Proof. exact good_move_elsewhere. Qed.
Print Assumptions C06_moved_elsewhere.

(** ** 4. Min-runtime resolution *)

(** On a queue tree without parent cycles the plugin gives a verdict with fuel |queues| + 1 ... *)
Theorem C06_min_runtime_terminates :
  forall env a pending victim, acyclic (ve_queues env) -> exists b, mrt_protected env a pending victim = V b.
Proof. exact mrt_protected_terminates. Qed.
Print Assumptions C06_min_runtime_terminates.

(** ... without that hypothesis it does not: on a cycle of parents the Go loops never end. *)
Theorem C06_min_runtime_terminates_unrestricted_refuted :
  exists qs q, resolve_preempt (fuel_of qs) qs 0 (qlookup qs q) = NoTermination
               /\ resolve_reclaim true (fuel_of qs) qs 0 (qlookup qs q) (qlookup qs q) = NoTermination.
Proof.
  exists [mkVQ 1 (Some 2%positive) None None; mkVQ 2 (Some 1%positive) None None], 1%positive.
  split; vm_compute; reflexivity.
Qed.
Print Assumptions C06_min_runtime_terminates_unrestricted_refuted.

(** Whenever the plugin gives a verdict (any tree), it is the documented one:
    preempt - first setting from the victim's queue upwards; reclaim - queue
    method alike, LCA method from the child of the lowest common ancestor on the
    victim's side upwards (top-level queues are siblings); plugin default otherwise. *)
Theorem C06_min_runtime_documented :
  forall env a pending victim b,
    a <> AConsolidation -> mrt_protected env a pending victim = V b -> b = inside_min_runtime env a pending victim.
Proof. exact mrt_protected_doc. Qed.
Print Assumptions C06_min_runtime_documented.

(** The index computation of resolveReclaimMinRuntimeLCA picks the documented queue's setting. *)
Theorem C06_lca_picks_documented_queue :
  forall qs dflt r e,
    acyclic qs -> qlookup qs (vq_id r) = Some r -> qlookup qs (vq_id e) = Some e ->
    resolve_reclaim_lca (fuel_of qs) qs dflt r e = Dur (doc_reclaim_lca qs dflt r e).
Proof. exact resolve_reclaim_lca_terminates. Qed.
Print Assumptions C06_lca_picks_documented_queue.

(** ** Non-vacuity: commits with evictions exist for each action; an elastic
    victim inside its min-runtime loses its surplus pod and nothing more; the
    design document's examples resolve as documented on an acyclic tree. *)
Theorem C06_nonvacuous :
  (exists s', run_scenario ex_env APreempt (ex_state 18720 75 2) 3 (mkSc [] [1%positive] [1%positive] 0 true)
                [(3%positive, 1%positive, [])] = Committed [VEvict 1 APreempt 3; VPipe 3 1 []] s')
  /\ (exists s', run_scenario ex_env AReclaim (ex_state 18720 50 3) 3 (mkSc [] [1%positive] [1%positive] 0 true)
                   [(3%positive, 1%positive, [])] = Committed [VEvict 1 AReclaim 3; VPipe 3 1 []] s')
  /\ run_scenario ex_env APreempt (ex_state 2400 75 2) 3 (mkSc [] [1%positive] [1%positive] 0 true)
                  [(3%positive, 1%positive, [])] = Discarded
  /\ (exists s', run_scenario ex_env APreempt ex_elastic 3 (mkSc [] [2%positive] [2%positive] 0 true) [(3%positive, 1%positive, [])]
                 = Committed [VEvict 2 APreempt 3; VPipe 3 1 []] s')
  /\ run_scenario ex_env APreempt ex_elastic 3 (mkSc [] [1%positive; 2%positive] [1%positive; 2%positive] 0 true)
                  [(3%positive, 1%positive, [])] = Discarded
  /\ acyclic doc_tree
  /\ resolve_reclaim true (fuel_of doc_tree) doc_tree 7 (qlookup doc_tree 5) (qlookup doc_tree 7) = Dur 60
  /\ resolve_reclaim true (fuel_of doc_tree) doc_tree 7 (qlookup doc_tree 7) (qlookup doc_tree 5) = Dur 600.
Proof.
  split; [exact ex_preempt_commit|]. split; [exact ex_reclaim_commit|]. split; [exact ex_preempt_inside_refused|].
  destruct ex_elastic_surplus as (H1 & H2 & _). split; [exact H1|]. split; [exact H2|].
  split; [exact doc_tree_acyclic|]. destruct doc_tree_examples as (E1 & _ & E3 & _). auto.
Qed.
Print Assumptions C06_nonvacuous.
