(** C06 - Only eligible victims are evicted, and only to place a workload.
    Statements only; proofs are in Proofs/Victims.v.

    The model (Model/Victims.v): an action is any sequence of scenarios
    ([run_steps]; which scenario is tried, in which order, with which victims and
    which placements is an oracle); each scenario builds one statement - evict the
    recorded and the chosen potential victims, nominate what the simulation placed
    - which is committed as a whole when the victims passed the action's filter,
    the action's validators accept and the pending job is solved, and discarded
    otherwise ([run_scenario_f]).  A commit ([commit_run], following
    Statement.Commit / commitEvict / commitAllocate) issues one Cache call per
    valid operation, in order, under a failure oracle [faults] saying which Evict
    and which Bind calls of the commit return an error: a refused eviction is
    logged, the evict operation is reversed (repair 5a5de9a: the pod gets back the
    status and GPU groups it had before it was evicted; before that repair it
    kept the status it had at commit time, i.e. stayed Releasing or nominated
    in the session: [run_scenario_gen [] true false]) and the loop goes on; a
    refused bind cleans up, clears the operations and returns.  [run_scenario] is the
    commit in which no call fails; [VEvict] is an eviction the cluster accepted,
    [VEvictFailed] one it refused.

    Reading of the property text used below.  A victim need not be running: a pod
    that was only nominated earlier in the same cycle (status Pipelined) can be
    evicted; the property constrains whose pods are evicted and why, not their
    state.  "Inside the minimum runtime" uses the documented resolution
    (Model/VictimsSpec.v: [inside_min_runtime]); for consolidation, which the
    plugin does not mention, a victim counts as inside only when it is inside
    both its preempt and its reclaim min-runtime.  "Keeps every pod set at or
    above its minimum": every pod set the commit takes a pod from still has
    minAvailable live pods (active, not terminating) after the commit. *)
From Coq Require Import List ZArith Bool PArith.
From KaiV Require Import Model.Status Model.Victims Model.VictimsSpec Proofs.Victims.
Import ListNotations.
Open Scope Z_scope.

(** ** 1. Victim eligibility *)

(** Full-strength statement (kept visible): every committed Evict(t, action,
    preemptor) names the statement's action and pending job; t's job is
    preemptible; preempt => same queue and strictly lower priority; reclaim =>
    another queue; inside its minimum runtime => elastic and the pod set keeps its
    minimum - for all three actions. *)
Definition C06_victim_eligible_statement : Prop := victim_eligible_statement (fun _ => True).

(** Refuted: consolidation consults no min-runtime (known finding
    C06-consolidation-ignores-minruntime; witness [ex_consolidation_inside],
    replayed on the real action by harness family consolidation/inside-min-runtime). *)
Theorem C06_victim_eligible_refuted : ~ C06_victim_eligible_statement.
Proof. exact victim_eligible_refuted. Qed.
Print Assumptions C06_victim_eligible_refuted.

(** Holds with the min-runtime conjunct restricted to preempt and reclaim - for
    every environment (queue tree, settings, time), state, scenario and placements. *)
Theorem C06_victim_eligible_partial :
  forall env a s pre sc sim calls s' t a' p',
    run_scenario env a s pre sc sim = Committed calls s' -> In (VEvict t a' p') calls ->
    a' = a /\ p' = pre /\
    exists pj j tk,
      find_job (ss_jobs s) pre = Some pj /\ get_task (ss_tasks s) t = Some tk /\ job_of s t = Some j
      /\ vj_preemptible j = true
      /\ (a = APreempt -> vj_queue j = vj_queue pj /\ vj_prio j < vj_prio pj)
      /\ (a = AReclaim -> vj_queue j <> vj_queue pj)
      /\ (a <> AConsolidation -> inside_min_runtime env a pj j = true ->
          job_elastic s j = true
          /\ forall m, plookup (vt_pset tk) (vj_psets j) = Some m -> m <= live_count s' (vj_id j) (vt_pset tk)).
Proof. exact victim_eligible_partial. Qed.
Print Assumptions C06_victim_eligible_partial.

(** Under ANY failure oracle: every Evict call of the commit, accepted or refused
    ([evict_call_of x t a' p']: x = VEvict t a' p' or x = VEvictFailed t a' p'), is
    an eviction of the same scenario's commit without failures ([as_accepted] turns
    a refused call into the accepted one: failures only refuse calls, they add,
    drop and reorder none) and is eligible as above - with the live pods of the
    min-runtime conjunct counted in the session [s'] the commit REALLY leaves
    under the oracle (a refused victim is back to its pre-eviction status there),
    and also in the session [s0] the commit without failures leaves. *)
Theorem C06_victim_eligible_any_faults :
  forall f env a s pre sc sim calls s' x t a' p',
    run_scenario_f f env a s pre sc sim = Committed calls s' ->
    evict_call_of x t a' p' -> In x calls ->
    a' = a /\ p' = pre
    /\ victim_eligible_at (fun a => a <> AConsolidation) env a s s' pre t
    /\ exists s0, run_scenario env a s pre sc sim = Committed (map as_accepted calls) s0
         /\ victim_eligible_at (fun a => a <> AConsolidation) env a s s0 pre t.
Proof. exact victim_eligible_faults. Qed.
Print Assumptions C06_victim_eligible_any_faults.

(** The same for every commit of every run of an action (any scenario order, any
    failure oracle per commit; [si]: the session the statement was built in, [sj]:
    the session the commit really leaves under its oracle and the action goes on from). *)
Theorem C06_victim_eligible_every_commit :
  forall env s steps cs sf,
    run_steps env s steps = Some (cs, sf) ->
    forall st calls, In (st, calls) cs ->
    forall x t a' p', evict_call_of x t a' p' -> In x calls ->
    a' = sp_action st /\ p' = sp_preemptor st
    /\ exists si sj, ss_jobs si = ss_jobs s
         /\ run_scenario_f (sp_faults st) env (sp_action st) si (sp_preemptor st) (sp_scenario st) (sp_sim st) = Committed calls sj
         /\ victim_eligible_at (fun a => a <> AConsolidation) env (sp_action st) si sj (sp_preemptor st) t.
Proof. exact victim_eligible_cycle. Qed.
Print Assumptions C06_victim_eligible_every_commit.

(** ** 2. Every eviction has a purpose: the commit that evicts also nominates the pending job *)

(** Fault-tolerant form.  For every failure oracle, every commit - so in
    particular every commit in which some eviction call succeeded - (a) nominates
    a pod of the pending job and (b) issues exactly the nominations the commit
    without failures issues (the pending job's other pods, the re-placed victims),
    whichever evictions the cluster refused. *)
Theorem C06_eviction_has_purpose :
  forall f env a s pre sc sim calls s',
    run_scenario_f f env a s pre sc sim = Committed calls s' ->
    (exists t n gs tk, In (VPipe t n gs) calls /\ get_task (ss_tasks s) t = Some tk /\ vt_job tk = pre)
    /\ exists calls0 s0, run_scenario env a s pre sc sim = Committed calls0 s0
          /\ forall t n gs, In (VPipe t n gs) calls0 <-> In (VPipe t n gs) calls.
Proof. exact eviction_has_purpose_faults. Qed.
Print Assumptions C06_eviction_has_purpose.

(** the commit in which no call fails (the statement as it was before failures were modelled) *)
Theorem C06_eviction_has_purpose_fault_free :
  forall env a s pre sc sim calls s',
    run_scenario env a s pre sc sim = Committed calls s' ->
    exists t n gs tk, In (VPipe t n gs) calls /\ get_task (ss_tasks s) t = Some tk /\ vt_job tk = pre.
Proof. exact eviction_has_purpose_core. Qed.
Print Assumptions C06_eviction_has_purpose_fault_free.

(** every commit of every run of an action, any failure oracle per commit *)
Theorem C06_eviction_has_purpose_every_commit :
  forall env s steps cs sf,
    run_steps env s steps = Some (cs, sf) ->
    forall st calls, In (st, calls) cs ->
    exists si, ss_jobs si = ss_jobs s
      /\ exists t n gs tk, In (VPipe t n gs) calls /\ get_task (ss_tasks si) t = Some tk /\ vt_job tk = sp_preemptor st.
Proof. exact eviction_has_purpose_cycle. Qed.
Print Assumptions C06_eviction_has_purpose_every_commit.

(** The theorem depends on the loop carrying on after a refused eviction: with a
    Commit that clears its operations and returns at the first refused eviction
    ([run_scenario_gen [] false true]) there is a commit with an accepted eviction and
    no nomination at all (witness [ex_stop_at_refused_eviction]: two victims, the
    second Evict call refused). *)
Theorem C06_commit_must_carry_on_after_refused_eviction :
  exists f env a s pre sc sim calls s' t,
    run_scenario_gen [] false true f env a s pre sc sim = Committed calls s'
    /\ In (VEvict t a pre) calls /\ forall t' n gs, ~ In (VPipe t' n gs) calls.
Proof. exact commit_must_carry_on. Qed.
Print Assumptions C06_commit_must_carry_on_after_refused_eviction.

(** What if the pending job's own Bind fails?  It cannot: the statements of the
    three actions hold no allocate operation (their simulation is pipeline-only),
    so under any oracle a commit issues no Bind call, accepted or refused - the
    pending job is nominated by TaskPipelined, which has no error return. *)
Theorem C06_evicting_commits_never_bind :
  forall f env a s pre sc sim calls s' x,
    run_scenario_f f env a s pre sc sim = Committed calls s' -> In x calls ->
    match x with VBind _ _ _ | VBindFailed _ _ _ => False | _ => True end.
Proof. exact scenario_never_binds. Qed.
Print Assumptions C06_evicting_commits_never_bind.

(** Commit itself does stop at a refused bind (cleanup, clearOperations, return):
    were a statement to evict and then allocate, the operations behind the refused
    bind - nominations included - would be dropped behind an accepted eviction. *)
Theorem C06_refused_bind_ends_the_commit :
  (forall c rs f a pre kb ke s t n gs r,
     f_bind f kb = true ->
     commit_run c rs f a pre ke kb s (SAlloc t n gs :: r) = ([VBindFailed t n gs], unallocate_state s t n))
  /\ fst (commit_run true true (mkF (fun _ => false) (fun _ => true)) APreempt 3 0 0 (ex_state 18720 75 2)
                      [SEvict 1 Running [] 1 true; SAlloc 3 1 []; SPipe 3 2 []])
     = [VEvict 1 APreempt 3; VBindFailed 3 1 []].
Proof. split; [exact commit_run_failed_bind | exact ex_refused_bind]. Qed.
Print Assumptions C06_refused_bind_ends_the_commit.

(** ** 2b. A refused eviction takes nothing from the pod (repair 5a5de9a) *)

(** For every failure oracle, scenario and placement: a pod whose eviction the
    cluster refused has, in the session the commit leaves, the status and GPU groups
    it had when the scenario started - whatever the statement did to it in between
    (evicted, nominated elsewhere) - and that status is not Releasing: it is not
    left terminating in the session, is counted as live again, and its resources
    are not handed out as "releasing" for the rest of the cycle. *)
Theorem C06_refused_eviction_restores :
  forall f env a s pre sc sim calls s' t a' p',
    run_scenario_f f env a s pre sc sim = Committed calls s' ->
    In (VEvictFailed t a' p') calls ->
    exists tk tk', get_task (ss_tasks s) t = Some tk /\ get_task (ss_tasks s') t = Some tk'
      /\ vt_status tk' = vt_status tk /\ vt_groups tk' = vt_groups tk /\ vt_status tk' <> Releasing.
Proof. exact refused_eviction_restores. Qed.
Print Assumptions C06_refused_eviction_restores.

(** Before repair 5a5de9a ([run_scenario_gen [] true false]: Statement.unevict called
    with the status read at commit time) the statement was false: the refused pod
    stayed Releasing (witness [ex_refused_eviction_before_repair]; this is what let
    the GPU groups of an abandoned nomination leak: C13). *)
Theorem C06_refused_eviction_restores_before_repair : ~ refused_eviction_restores_statement false.
Proof. exact refused_eviction_restores_before_repair. Qed.
Print Assumptions C06_refused_eviction_restores_before_repair.

Theorem C06_refused_eviction_restores_every_commit :
  forall env s steps cs sf,
    run_steps env s steps = Some (cs, sf) ->
    forall st calls, In (st, calls) cs ->
    forall t a' p', In (VEvictFailed t a' p') calls ->
    exists si sj, ss_jobs si = ss_jobs s
      /\ run_scenario_f (sp_faults st) env (sp_action st) si (sp_preemptor st) (sp_scenario st) (sp_sim st) = Committed calls sj
      /\ exists tk tk', get_task (ss_tasks si) t = Some tk /\ get_task (ss_tasks sj) t = Some tk'
           /\ vt_status tk' = vt_status tk /\ vt_groups tk' = vt_groups tk /\ vt_status tk' <> Releasing.
Proof. exact refused_eviction_restores_cycle. Qed.
Print Assumptions C06_refused_eviction_restores_every_commit.

(** ** 3. Consolidation evicts a pod only if the same commit re-places it elsewhere *)

(** [good_move s t n gs]: in the session the statement started from, pod t had no
    entry on node n, or had one with other GPU groups (same node, another device).
    For every failure oracle, every scenario (a pod may be offered to
    Statement.Evict any number of times) and every placement: an eviction the
    cluster ACCEPTED is re-placed by a nomination of the same commit (a refused one
    leaves the pod where it runs). *)
Theorem C06_consolidation_moves :
  forall f env s pre sc sim calls s' t a' p',
    run_scenario_f f env AConsolidation s pre sc sim = Committed calls s' ->
    In (VEvict t a' p') calls ->
    exists n gs, In (VPipe t n gs) calls /\ good_move s t n gs.
Proof. exact consolidation_moves_faults. Qed.
Print Assumptions C06_consolidation_moves.

(** Before repair bce7109 the statement was false ([run_scenario_gen stale]: the pods
    in [stale] reach Statement.Evict as copies made by PodGroupInfo.CloneWithTasks,
    whose Status the guard of 83a0ca3 trusted; before 83a0ca3 there was no guard at
    all).  A pod evicted as a recorded victim and offered again through such a copy
    got two evict operations; placing it back un-evicted one; the commit evicted
    it and re-placed it nowhere (witness [ex_double_evict]; finding
    C13-double-evict, met on real cycles until bce7109). *)
Theorem C06_consolidation_moves_before_repair : ~ (forall stale, consolidation_moves_statement stale).
Proof. exact consolidation_moves_before_repair. Qed.
Print Assumptions C06_consolidation_moves_before_repair.

Theorem C06_consolidation_moves_every_commit :
  forall env s steps cs sf,
    run_steps env s steps = Some (cs, sf) ->
    forall st calls, In (st, calls) cs -> sp_action st = AConsolidation ->
    forall t a' p', In (VEvict t a' p') calls ->
    exists si, ss_jobs si = ss_jobs s /\ exists n gs, In (VPipe t n gs) calls /\ good_move si t n gs.
Proof. exact consolidation_moves_cycle. Qed.
Print Assumptions C06_consolidation_moves_every_commit.

(** with node entries as the snapshot builds them: another node, or other GPU groups *)
Theorem C06_moved_elsewhere :
  forall s t n gs tk n0,
    good_move s t n gs -> get_task (ss_tasks s) t = Some tk -> vt_node tk = Some n0 ->
    entry_of (ss_entries s) t n0 = Some (vt_groups tk) ->
    n <> n0 \/ pos_list_eqb gs (vt_groups tk) = false.
Proof. exact good_move_elsewhere. Qed.
Print Assumptions C06_moved_elsewhere.

(** ** 4. Min-runtime resolution *)

(** On a queue tree without parent cycles the plugin gives a verdict with fuel |queues| + 1 ... *)
Theorem C06_min_runtime_terminates :
  forall env a pending victim, acyclic (ve_queues env) -> exists b, mrt_protected env a pending victim = V b.
Proof. exact mrt_protected_terminates. Qed.
Print Assumptions C06_min_runtime_terminates.

(** ... without that hypothesis it does not: on a cycle of parents the Go loops never end. *)
Theorem C06_min_runtime_terminates_unrestricted_refuted :
  exists qs q, resolve_preempt (fuel_of qs) qs 0 (qlookup qs q) = NoTermination
               /\ resolve_reclaim true (fuel_of qs) qs 0 (qlookup qs q) (qlookup qs q) = NoTermination.
Proof.
  exists [mkVQ 1 (Some 2%positive) None None; mkVQ 2 (Some 1%positive) None None], 1%positive.
  split; vm_compute; reflexivity.
Qed.
Print Assumptions C06_min_runtime_terminates_unrestricted_refuted.

(** Whenever the plugin gives a verdict (any tree), it is the documented one:
    preempt - first setting from the victim's queue upwards; reclaim - queue
    method alike, LCA method from the child of the lowest common ancestor on the
    victim's side upwards (top-level queues are siblings); plugin default otherwise. *)
Theorem C06_min_runtime_documented :
  forall env a pending victim b,
    a <> AConsolidation -> mrt_protected env a pending victim = V b -> b = inside_min_runtime env a pending victim.
Proof. exact mrt_protected_doc. Qed.
Print Assumptions C06_min_runtime_documented.

(** The index computation of resolveReclaimMinRuntimeLCA picks the documented queue's setting. *)
Theorem C06_lca_picks_documented_queue :
  forall qs dflt r e,
    acyclic qs -> qlookup qs (vq_id r) = Some r -> qlookup qs (vq_id e) = Some e ->
    resolve_reclaim_lca (fuel_of qs) qs dflt r e = Dur (doc_reclaim_lca qs dflt r e).
Proof. exact resolve_reclaim_lca_terminates. Qed.
Print Assumptions C06_lca_picks_documented_queue.

(** ** Non-vacuity: commits with evictions exist for each action; an elastic
    victim inside its min-runtime loses its surplus pod and nothing more; a commit
    with an accepted and a refused eviction still nominates the pending job and
    leaves the refused pod Running; a consolidation victim that the statement moved
    to node 1 and whose eviction is refused is Running again - with the new node's
    name (Statement.unevict does not restore NodeName); the design document's
    examples resolve as documented on an acyclic tree. *)
Theorem C06_nonvacuous :
  (exists s', run_scenario ex_env APreempt (ex_state 18720 75 2) 3 (mkSc [] [1%positive] [1%positive] 0 true)
                [(3%positive, 1%positive, [])] = Committed [VEvict 1 APreempt 3; VPipe 3 1 []] s')
  /\ (exists s', run_scenario ex_env AReclaim (ex_state 18720 50 3) 3 (mkSc [] [1%positive] [1%positive] 0 true)
                   [(3%positive, 1%positive, [])] = Committed [VEvict 1 AReclaim 3; VPipe 3 1 []] s')
  /\ run_scenario ex_env APreempt (ex_state 2400 75 2) 3 (mkSc [] [1%positive] [1%positive] 0 true)
                  [(3%positive, 1%positive, [])] = Discarded
  /\ (exists s', run_scenario ex_env APreempt ex_elastic 3 (mkSc [] [2%positive] [2%positive] 0 true) [(3%positive, 1%positive, [])]
                 = Committed [VEvict 2 APreempt 3; VPipe 3 1 []] s')
  /\ run_scenario ex_env APreempt ex_elastic 3 (mkSc [] [1%positive; 2%positive] [1%positive; 2%positive] 0 true)
                  [(3%positive, 1%positive, [])] = Discarded
  /\ (exists s', run_scenario_f ex_second_evict_fails ex_env APreempt (ex_state 18720 75 2) 3 ex_gang_scenario [(3%positive, 1%positive, [])]
                 = Committed [VEvict 1 APreempt 3; VEvictFailed 2 APreempt 3; VPipe 3 1 []] s'
                 /\ get_task (ss_tasks s') 2 = Some (mkVT 2 2 2 Running (Some 2%positive) [] false))
  /\ (exists s', run_scenario_f (mkF (fun _ => true) (fun _ => false)) ex_env AConsolidation (ex_state 2400 50 2) 3
                   (mkSc [] [2%positive] [2%positive] 0 true) [(3%positive, 2%positive, []); (2%positive, 1%positive, [])]
                 = Committed [VEvictFailed 2 AConsolidation 3; VPipe 3 2 []; VPipe 2 1 []] s'
                 /\ get_task (ss_tasks s') 2 = Some (mkVT 2 2 2 Running (Some 1%positive) [] false))
  /\ acyclic doc_tree
  /\ resolve_reclaim true (fuel_of doc_tree) doc_tree 7 (qlookup doc_tree 5) (qlookup doc_tree 7) = Dur 60
  /\ resolve_reclaim true (fuel_of doc_tree) doc_tree 7 (qlookup doc_tree 7) (qlookup doc_tree 5) = Dur 600.
Proof.
  split; [exact ex_preempt_commit|]. split; [exact ex_reclaim_commit|]. split; [exact ex_preempt_inside_refused|].
  destruct ex_elastic_surplus as (H1 & H2 & _). split; [exact H1|]. split; [exact H2|].
  split; [eexists; split; [exact ex_refused_eviction | reflexivity]|].
  split; [eexists; split; [exact ex_refused_moved | reflexivity]|].
  split; [exact doc_tree_acyclic|]. destruct doc_tree_examples as (E1 & _ & E3 & _). auto.
Qed.
Print Assumptions C06_nonvacuous.
