(** C15 — No eviction livelock in a closed system.
    Statements only; proofs are in Proofs/ClosedSystem.v, the model in Model/ClosedSystem.v.

    The class: ONE contended resource, single-pod jobs of equal size, leaf queues under
    departments (flat = one department), preemptible jobs, no limits; a state is the list of
    slot holders; shares are constant (closed system).  Hypotheses of the class
    ([wf_paramsb]): size > 0; distinct department ids and distinct queue ids; every
    department has a positive fair share and its deserved quota is within its fair share (or
    is at least the whole capacity = "unlimited"); leaf shares are non-negative.  The
    multiplier m = mn/md satisfies m >= 1 ([wf_multb]) - which is what proportion.New
    enforces ([clamp]).  An eviction decision lets the job it was made for hold the victim's
    slot (the session pipelines it there; "binds complete").

    [rank] = [free slots; overshoot of departments above fair share; deficit of departments
    below deserved quota; sum over departments of allocated^2/fairShare (scaled); overshoot
    of leaf queues; deficit of leaf queues; priority mass missing from the slot holders],
    compared lexicographically ([lexlt], well-founded).

    Section 4: the job order.  The allocate action and the simulated allocation of every reclaim
    scenario pop their jobs from ONE order function ([order_fn], utils.JobsOrderByQueues) handed the
    SAME jobs ([all_pending], common.GetJobsToAllocate); the statements hold for EVERY order function.

    Section 5: size consistency.  The gates of the class count a pending job by the size it is charged once it
    holds a slot; [reclaim_ok_sized g] makes the counted size a parameter ([gate_size g j], the value of
    podgroup_info.GetTasksToAllocateInitResource) and the theorems say where the rank proof needs
    [gate_size j = charged_size j] (weaker: [charged_size j <= gate_size j]) and what happens without it.

    Section 6: the saturation multiplier.  The documented test multiplies the RECLAIMER's saturation ratio; it is
    monotone in m, so for every m >= 1 the gate is at least as strict as at m = 1 and every no-lasso statement at
    m = 1 carries over; with the multiplier on the SIBLING's ratio (seeded change C15-4) m acts like 1/m.

    NOT PROVED: [C15_general] (gangs, several resources, deep hierarchies) - see the end. *)
From Coq Require Import List ZArith QArith Bool.
From KaiV Require Import Model.ClosedSystem Proofs.ClosedSystem Proofs.ClosedSystemOrder Proofs.ClosedSystemSize.
From KaiV Require Import Model.ClosedSystemMult Proofs.ClosedSystemMult.
Import ListNotations.
Open Scope Z_scope.

(** 1a. Every admissible decision - allocate, reclaim, preempt, for ANY oracle choice of job
    and victim - strictly decreases the rank. *)
Theorem C15_rank_decreases :
  forall m p s d s',
    wf_paramsb p = true -> wf_multb m = true -> within_cap p s ->
    apply m p s d = Some s' ->
    lexlt (rank p s') (rank p s).
Proof. exact p_rank_decreases. Qed.
Print Assumptions C15_rank_decreases.

(** 1b. Cycles (any list of admissible decisions; a real cycle is allocate* then eviction
    decisions): a cycle that commits an eviction strictly decreases the rank, a cycle that
    only allocates never increases it. *)
Theorem C15_rank_decreases_cycle :
  forall m p ds s s',
    wf_paramsb p = true -> wf_multb m = true -> within_cap p s ->
    run m p s ds = Some s' ->
    (evicting_cycle ds = true -> lexlt (rank p s') (rank p s))
    /\ (rank p s' = rank p s \/ lexlt (rank p s') (rank p s))
    /\ within_cap p s'.
Proof. exact p_rank_decreases_cycle. Qed.
Print Assumptions C15_rank_decreases_cycle.

(** 1c. The order the rank lives in is well-founded. *)
Theorem C15_rank_well_founded : well_founded lexlt.
Proof. exact lexlt_wf. Qed.
Print Assumptions C15_rank_well_founded.

(** 1d. No lasso through an eviction, over infinite runs (functions nat -> state whose
    consecutive states are related by a cycle): if cycle c committed an eviction and
    i <= c < k then the state after k cycles differs from the state after i cycles. *)
Theorem C15_no_lasso :
  forall m p, wf_paramsb p = true -> wf_multb m = true -> no_lasso (class_system m p).
Proof. exact p_no_lasso. Qed.
Print Assumptions C15_no_lasso.

(** 1e. Every run has only finitely many evicting cycles (stated without excluded middle: it
    is impossible that evicting cycles occur beyond every bound). *)
Theorem C15_finitely_many_evicting_cycles :
  forall m p, wf_paramsb p = true -> wf_multb m = true ->
  finitely_many_evictions (class_system m p).
Proof. exact p_finitely_many. Qed.
Print Assumptions C15_finitely_many_evicting_cycles.

(** 1f. Finite runs: no non-empty stretch of decisions returns to the state it started from. *)
Theorem C15_no_return :
  forall m p ds s,
    wf_paramsb p = true -> wf_multb m = true -> within_cap p s -> ds <> [] ->
    run m p s ds <> Some s.
Proof. exact p_no_return. Qed.
Print Assumptions C15_no_return.

(** 1g. Whatever multiplier is configured (positive denominator), the plugin's clamp yields
    one the theorems apply to. *)
Theorem C15_clamped_multiplier_admissible :
  forall m, 0 < snd m -> wf_multb (clamp m) = true.
Proof. exact clamp_wf. Qed.
Print Assumptions C15_clamped_multiplier_admissible.

(** 2. With a multiplier below 1 the statement is false: two departments, each entitled to
    1.5 jobs on 3 slots, take a slot from each other for ever; the clamped multiplier refuses
    both evictions.  (The witness is at the level of the gates.  The real solver additionally
    places the job and the re-placed victim in queue order inside its simulation, which lets
    only one of the two evictions through - seen in the harness when the clamp is removed:
    corpus world pingpong-rev-m0.4 then evicts where the clamped model refuses, and the
    refinement replay reports it.)  Full statement (for every positive multiplier): *)
Definition C15_no_lasso_any_multiplier : Prop := no_lasso_any_multiplier.
Theorem C15_multiplier_below_one_refuted :
  exists m p s0 s1 j v,
    wf_paramsb p = true /\ 0 < fst m < snd m /\ within_cap p s0
    /\ run m p s0 [DReclaim j v] = Some s1 /\ run m p s1 [DReclaim v j] = Some s0
    /\ ~ no_lasso (class_system m p)
    /\ run (clamp m) p s0 [DReclaim j v] = None /\ run (clamp m) p s1 [DReclaim v j] = None.
Proof. exact p_below_one_refuted. Qed.
Print Assumptions C15_multiplier_below_one_refuted.
Theorem C15_no_lasso_any_multiplier_refuted : ~ C15_no_lasso_any_multiplier.
Proof. exact p_any_multiplier_refuted. Qed.
Print Assumptions C15_no_lasso_any_multiplier_refuted.

(** Non-vacuity: a cycle with an allocation, a cross-department reclaim that leaves the
    reclaiming department above its fair share (the case decided by the saturation rule) and
    a preemption meets all hypotheses; so does a same-department reclaim by the
    deserved-quota strategy. *)
Theorem C15_nonvacuous :
  (exists p m s ds s',
     wf_paramsb p = true /\ wf_multb m = true /\ within_cap p s /\ cycle_shape ds = true
     /\ evicting_cycle ds = true /\ run m p s ds = Some s'
     /\ existsb (fun d => match d with DBind _ => true | _ => false end) ds = true
     /\ existsb (fun d => match d with DReclaim _ _ => true | _ => false end) ds = true
     /\ existsb (fun d => match d with DPreempt _ _ => true | _ => false end) ds = true)
  /\ (exists p m s j v s', wf_paramsb p = true /\ wf_multb m = true /\ within_cap p s
                           /\ run m p s [DReclaim j v] = Some s').
Proof. exact p_nonvacuous. Qed.
Print Assumptions C15_nonvacuous.

(** 3. Beyond the class. *)

(** 3a. The well-founded argument is generic: ANY closed system (any state space, any cycle
    relation) with a lexicographic rank that never increases and strictly decreases on evicting
    cycles has no lasso through an eviction and only finitely many evicting cycles.  This is
    as far as the measure generalises without further work: what remains for gangs, several
    resources and deep hierarchies is to exhibit such a rank. *)
Theorem C15_general_rank_suffices :
  forall (S : closed_system) (rk : cs_state S -> list Z),
    (forall s s', cs_cycle S s s' -> lexle (rk s') (rk s)) ->
    (forall s s', cs_cycle S s s' -> cs_evicts S s s' -> lexlt (rk s') (rk s)) ->
    no_lasso S /\ finitely_many_evictions S.
Proof. exact ranked_both. Qed.
Print Assumptions C15_general_rank_suffices.

(** 3b. The slot-keeping assumption is necessary: with the same gates, if an eviction merely
    frees the slot and the next allocation may hand it to any pending job, the class itself
    has a lasso (allocate takes a queue above its fair share, reclaim takes the slot back,
    every cycle).  The real allocate action's queue order is what has to exclude this; it is
    not modelled here (C16), and the harness found runs of the real scheduler outside the
    class where it does not (known finding C15-rebound-pod-evicted-again). *)
Theorem C15_without_slot_keeping_refuted :
  exists p, wf_paramsb p = true /\ ~ no_lasso (redecide_system (1, 1) p).
Proof. exact redecide_lasso. Qed.
Print Assumptions C15_without_slot_keeping_refuted.

(** 4. The job order shared by allocate and by the solver's simulation (order consistency).
    Setting: the eviction only frees the slot (the nomination holds nothing in the next cycle, as in
    [redecide_system]); a reclaim decision is taken only if the gate lets it through AND the simulated
    allocation over the evicted state places the reclaimer and not the victim ([reclaim_sim]); the
    cluster is full when reclaim runs (in the class a job is pending after allocate only if no slot is
    free).  [o] is ANY pop order that only yields jobs it was given. *)

(** 4a. The simulation refuses exactly what the next allocate would undo: if the evicted pod is the
    first job the order pops on the evicted state, the scenario is rejected. *)
Theorem C15_simulation_refuses_what_allocate_would_undo :
  forall m o p s j v,
    order_sound o -> free p s = 0 ->
    first_pop o p (remove1 v s) = Some v ->
    reclaim_sim m o all_pending p s j v = None.
Proof. exact sim_refuses_victim_first. Qed.
Print Assumptions C15_simulation_refuses_what_allocate_would_undo.

(** 4b. Order consistency: a reclaim that went through the simulation over the same order and the
    same jobs as the allocate action is NOT undone by the next allocate: the freed slot goes to the
    first job the order pops, that job is not the evicted pod, nothing else is placed, the evicted pod
    stays pending. *)
Theorem C15_shared_order_evicted_pod_not_rebound :
  forall m o p s j v,
    order_sound o -> nodupb s = true -> free p s = 0 ->
    forall s1, reclaim_sim m o all_pending p s j v = Some s1 ->
    s1 = remove1 v s
    /\ exists x, first_pop o p (remove1 v s) = Some x /\ x <> v /\ In x (pending p (remove1 v s))
                 /\ allocate o p s1 = x :: remove1 v s
                 /\ mem v (allocate o p s1) = false.
Proof. exact shared_order_not_rebound. Qed.
Print Assumptions C15_shared_order_evicted_pod_not_rebound.

(** 4c. ... and when that first job is the reclaimer itself, "reclaim, then allocate" IS the decision
    [DReclaim j v] of the slot-keeping relation (the assumption of section 1 is then a theorem), so
    the rank of C15_rank_decreases strictly decreases and the state differs from the one before. *)
Theorem C15_shared_order_reclaim_decreases_rank :
  forall m o p s j v s1,
    order_sound o -> nodupb s = true -> free p s = 0 ->
    wf_paramsb p = true -> wf_multb m = true ->
    reclaim_sim m o all_pending p s j v = Some s1 ->
    first_pop o p (remove1 v s) = Some j ->
    lexlt (rank p (allocate o p s1)) (rank p s) /\ allocate o p s1 <> s.
Proof. exact shared_order_rank. Qed.
Print Assumptions C15_shared_order_reclaim_decreases_rank.

(** 4d. When the simulation is handed FEWER jobs than allocate (only the pending jobs of the
    preemptor's and the victim's queues: seeded change C15-2) the statement of 4b is false and the
    system has a lasso: in the world of seeded/C15-2/README.md, with an order that ranks a department
    through its first job, the pending job of a sibling queue ranks the reclaimer's department behind
    the victim's in allocate but is invisible to the simulation: reclaim evicts b-run2 (state s0 ->
    s1), the next allocate binds it again (s1 -> s0), for ever (period 2 in decisions, every cycle
    returns to the state it started from); the simulation over the same jobs as allocate refuses the
    eviction. *)
Definition C15_no_lasso_any_simulated_job_set : Prop :=
  forall m o js p, order_sound o -> wf_paramsb p = true -> wf_multb m = true ->
  no_lasso (ordered_system m o js p).
Theorem C15_different_job_sets_refuted :
  exists o p s0 s1 j v,
    order_sound o /\ wf_paramsb p = true /\ nodupb s0 = true /\ free p s0 = 0
    /\ reclaim_sim (1, 1) o scenario_queues_only p s0 j v = Some s1
    /\ allocate o p s1 = s0
    /\ reclaim_sim (1, 1) o all_pending p s0 j v = None
    /\ ~ no_lasso (ordered_system (1, 1) o scenario_queues_only p).
Proof. exact different_job_sets_lasso. Qed.
Print Assumptions C15_different_job_sets_refuted.
Theorem C15_no_lasso_any_simulated_job_set_refuted : ~ C15_no_lasso_any_simulated_job_set.
Proof. exact any_job_set_refuted. Qed.
Print Assumptions C15_no_lasso_any_simulated_job_set_refuted.

(** 5. SIZE CONSISTENCY: the size by which the reclaim gate counts a pending job (podgroup_info.
    GetTasksToAllocateInitResource -> proportion.buildReclaimerInfo -> CanReclaimResources, both strategies, the
    saturation rule) vs the size the job is charged once it holds its slot (AcceptedResource).  [reclaim_ok_sized g]
    counts the reclaimer by [gate_size g]; [size_consistent p g]: gate_size j = charged_size j for every job;
    [never_undercounted p g]: charged_size j <= gate_size j. *)

(** 5a. With consistent sizes the sized gate IS the gate of the class (this is the only place where sections 1 and 4
    use the hypothesis: [reclaim_ok] has it built in). *)
Theorem C15_consistent_sizes_gate_is_class_gate :
  forall g m p s j v, size_consistent p g -> reclaim_ok_sized g m p s j v = reclaim_ok m p s j v.
Proof. exact reclaim_ok_sized_consistent. Qed.
Print Assumptions C15_consistent_sizes_gate_is_class_gate.

(** 5b. A gate that never under-counts (consistent, or counting more: devices of different memories, where the code
    divides by the smallest device memory) only refuses more: every reclaim it admits is admitted by the gate of the
    class (CanReclaimResources, both strategies and the saturation rule are monotone in the reclaimer's size). *)
Theorem C15_never_undercounting_gate_only_refuses_more :
  forall g m p s j v, never_undercounted p g -> wf_multb m = true ->
  reclaim_ok_sized g m p s j v = true -> reclaim_ok m p s j v = true.
Proof. exact reclaim_ok_sized_mono. Qed.
Print Assumptions C15_never_undercounting_gate_only_refuses_more.

(** 5c. Hence every decision the sized gate admits strictly decreases the rank of 1a ... *)
Theorem C15_sized_rank_decreases :
  forall g m p s d s',
    never_undercounted p g ->
    wf_paramsb p = true -> wf_multb m = true -> within_cap p s ->
    apply_sized g m p s d = Some s' -> lexlt (rank p s') (rank p s).
Proof. exact sized_rank_decreases. Qed.
Print Assumptions C15_sized_rank_decreases.

(** 5d. ... the sized system has no lasso through an eviction and only finitely many evicting cycles. *)
Theorem C15_sized_no_lasso :
  forall g m p, never_undercounted p g -> wf_paramsb p = true -> wf_multb m = true -> no_lasso (sized_system g m p).
Proof. exact sized_no_lasso. Qed.
Print Assumptions C15_sized_no_lasso.
Theorem C15_sized_finitely_many_evicting_cycles :
  forall g m p, never_undercounted p g -> wf_paramsb p = true -> wf_multb m = true ->
  finitely_many_evictions (sized_system g m p).
Proof. exact sized_finitely_many. Qed.
Print Assumptions C15_sized_finitely_many_evicting_cycles.

(** 5e. With consistent sizes a reclaim (gate counted by [g], then the solver's simulation over the shared order)
    followed by the next allocate strictly decreases the rank when the first job popped is the reclaimer (4c with the
    size hypothesis explicit), and is never undone by that allocate (4b). *)
Theorem C15_consistent_sizes_reclaim_then_allocate_decreases_rank :
  forall g m o p s j v s1,
    size_consistent p g ->
    order_sound o -> nodupb s = true -> free p s = 0 ->
    wf_paramsb p = true -> wf_multb m = true ->
    reclaim_sim_sized g m o all_pending p s j v = Some s1 ->
    first_pop o p (remove1 v s) = Some j ->
    lexlt (rank p (allocate o p s1)) (rank p s) /\ allocate o p s1 <> s.
Proof. exact sized_reclaim_then_allocate. Qed.
Print Assumptions C15_consistent_sizes_reclaim_then_allocate_decreases_rank.
Theorem C15_sized_evicted_pod_not_rebound :
  forall g m o p s j v s1,
    never_undercounted p g -> wf_multb m = true ->
    order_sound o -> nodupb s = true -> free p s = 0 ->
    reclaim_sim_sized g m o all_pending p s j v = Some s1 ->
    s1 = remove1 v s /\ mem v (allocate o p s1) = false.
Proof. exact sized_reclaim_not_rebound. Qed.
Print Assumptions C15_sized_evicted_pod_not_rebound.

(** 5f. Without the hypothesis the statement is false (seeded change C15-3: a gpu-memory request on N devices counted
    as the request on ONE device): every job is charged 6, the gate counts 3 (N = 2); queue A fair share 10 / deserved
    5, queue B fair share 10 / deserved 10, two slots.  B holds both slots (12 > 10): A's job reclaims one (counted 3 <=
    10).  Now A holds 6 > deserved 5 and B's job is counted 6 + 3 = 9 <= 10 = deserved(B): it reclaims the slot back,
    although B really ends at 12 > 10.  Period 2, for ever.  The gate that counts the charged size refuses the way back;
    the same world with ANY consistent sizing has no lasso. *)
Definition C15_no_lasso_any_gate_size : Prop := no_lasso_any_gate_size.
Theorem C15_undercounted_gate_refuted :
  exists g p s0 s1 j v,
    wf_paramsb p = true /\ undercounted_by 2 p g /\ within_cap p s0
    /\ run_sized g (1, 1) p s0 [DReclaim j v] = Some s1 /\ run_sized g (1, 1) p s1 [DReclaim v j] = Some s0
    /\ ~ no_lasso (sized_system g (1, 1) p)
    /\ run (1, 1) p s1 [DReclaim v j] = None
    /\ no_lasso (class_system (1, 1) p)
    /\ (forall g', size_consistent p g' -> no_lasso (sized_system g' (1, 1) p)).
Proof. exact undercounted_gate_lasso. Qed.
Print Assumptions C15_undercounted_gate_refuted.
Theorem C15_no_lasso_any_gate_size_refuted : ~ C15_no_lasso_any_gate_size.
Proof. exact any_gate_size_refuted. Qed.
Print Assumptions C15_no_lasso_any_gate_size_refuted.

(** 5g. The size hypotheses are not vacuous: in the witness world the sizing 6 is consistent, the sizing 8 never
    under-counts without being consistent, and both admit the first reclaim. *)
Theorem C15_size_hypotheses_nonvacuous :
  size_consistent uc_params (fun _ => 6) /\ never_undercounted uc_params (fun _ => 8)
  /\ ~ size_consistent uc_params (fun _ => 8)
  /\ run_sized (fun _ => 8) (1, 1) uc_params uc_s0 [DReclaim 1 3]%positive = Some uc_s1
  /\ run_sized (fun _ => 6) (1, 1) uc_params uc_s0 [DReclaim 1 3]%positive = Some uc_s1.
Proof. exact sized_nonvacuous. Qed.
Print Assumptions C15_size_hypotheses_nonvacuous.

(** 6. THE SATURATION MULTIPLIER ("saturation-multiplier settings varied").  reclaimable.isFairShareSaturationLowerPerResource
    refuses when ratio(reclaimer) > 1, fairShare(sibling) > 0 and ratio(reclaimer) * m >= ratio(sibling): the multiplier
    scales the RECLAIMER's ratio ([saturation_ok], cross-multiplied; m = mn / md). *)

(** 6a. The test is monotone in the multiplier: what it admits at m' it admits at every m <= m' (a larger multiplier
    only refuses more) ... *)
Theorem C15_saturation_test_monotone_in_multiplier :
  forall mn md mn' md' sz ar Fr ae Fe,
    0 < md -> 0 < md' -> mn * md' <= mn' * md -> 0 <= Fr ->
    saturation_ok mn' md' sz ar Fr ae Fe = true -> saturation_ok mn md sz ar Fr ae Fe = true.
Proof. exact saturation_ok_mono. Qed.
Print Assumptions C15_saturation_test_monotone_in_multiplier.

(** 6b. ... so does the whole reclaim gate of the class, and every run: for ALL multipliers m >= 1 the gate is at least
    as strict as at m = 1 (gate_m admits => gate_1 admits), and a stretch of decisions admissible at m is admissible at
    m = 1 with the same result. *)
Theorem C15_gate_at_least_as_strict_as_at_multiplier_one :
  forall m p s j v,
    wf_paramsb p = true -> wf_multb m = true ->
    reclaim_ok m p s j v = true -> reclaim_ok (1, 1) p s j v = true.
Proof. exact reclaim_ok_at_least_as_strict_as_one. Qed.
Print Assumptions C15_gate_at_least_as_strict_as_at_multiplier_one.
Theorem C15_gate_monotone_in_multiplier :
  forall m m' p s j v,
    wf_paramsb p = true -> 0 < snd m -> 0 < snd m' -> mult_le m m' ->
    reclaim_ok m' p s j v = true -> reclaim_ok m p s j v = true.
Proof. exact reclaim_ok_mono. Qed.
Print Assumptions C15_gate_monotone_in_multiplier.
Theorem C15_runs_monotone_in_multiplier :
  forall m m' p ds s s',
    wf_paramsb p = true -> 0 < snd m -> 0 < snd m' -> mult_le m m' ->
    run m' p s ds = Some s' -> run m p s ds = Some s'.
Proof. exact run_mono. Qed.
Print Assumptions C15_runs_monotone_in_multiplier.

(** 6c. LIFTING: the closed system at m >= 1 is a sub-system of the one at m = 1 (same states, every cycle a cycle, every
    evicting cycle an evicting cycle), so "no lasso" and "finitely many evicting cycles" at m = 1 carry over to every
    m >= 1 - for the class (1d, 1e), for the sized gate of section 5 (5d), and for "allocate, then at most one simulated
    reclaim" of section 4 under ANY order function and ANY simulated job set.  (1d and 5d are proved for all m >= 1
    directly; the lifting says that nothing about a multiplier above 1 has to be proved twice.) *)
Theorem C15_no_lasso_lifts_from_multiplier_one :
  forall m p, wf_paramsb p = true -> wf_multb m = true ->
  (no_lasso (class_system (1, 1) p) -> no_lasso (class_system m p))
  /\ (finitely_many_evictions (class_system (1, 1) p) -> finitely_many_evictions (class_system m p)).
Proof. exact class_lift. Qed.
Print Assumptions C15_no_lasso_lifts_from_multiplier_one.
Theorem C15_sized_no_lasso_lifts_from_multiplier_one :
  forall g m p, wf_paramsb p = true -> wf_multb m = true ->
  (no_lasso (sized_system g (1, 1) p) -> no_lasso (sized_system g m p))
  /\ (finitely_many_evictions (sized_system g (1, 1) p) -> finitely_many_evictions (sized_system g m p)).
Proof. exact sized_lift. Qed.
Print Assumptions C15_sized_no_lasso_lifts_from_multiplier_one.
Theorem C15_ordered_no_lasso_lifts_from_multiplier_one :
  forall m o js p, wf_paramsb p = true -> wf_multb m = true ->
  (no_lasso (ordered_system (1, 1) o js p) -> no_lasso (ordered_system m o js p))
  /\ (finitely_many_evictions (ordered_system (1, 1) o js p) -> finitely_many_evictions (ordered_system m o js p)).
Proof. exact ordered_lift. Qed.
Print Assumptions C15_ordered_no_lasso_lifts_from_multiplier_one.

(** 6d. The multiplier on the SIBLING's side (seeded change C15-4: ratio(reclaimer) >= ratio(sibling) * m refuses) is the
    documented test with the INVERSE multiplier: the same function at m = 1 - no run with the default setting tells the
    two apart - and for a valid m > 1 the test at 1/m, the range proportion.New rejects. *)
Theorem C15_multiplier_on_sibling_side_is_inverse_multiplier :
  (forall mn md sz ar Fr ae Fe, saturation_ok_sibling mn md sz ar Fr ae Fe = saturation_ok md mn sz ar Fr ae Fe)
  /\ (forall m p s j v, reclaim_ok_sibling m p s j v = reclaim_ok (snd m, fst m) p s j v)
  /\ (forall p s j v, reclaim_ok_sibling (1, 1) p s j v = reclaim_ok (1, 1) p s j v).
Proof. exact (conj sibling_is_inverse (conj reclaim_ok_sibling_is_inverse sibling_same_at_one)). Qed.
Print Assumptions C15_multiplier_on_sibling_side_is_inverse_multiplier.

(** 6e. On the numbers of seeded/C15-4/README.md (GPUs; dept-a holds 2 of its fair share 3, dept-b 5 of its fair share 4;
    a-new-train, 2 GPUs, would take the 2 GPUs of b-small-train: dept-a 4/3, dept-b 3/4) the documented test refuses at
    m = 1 and at m = 2 - at EVERY m >= 1 - while the test with the multiplier on the sibling's side, identical at
    m = 1, ADMITS the reclaim at m = 2 (and 3, 5; 6/5 and 3/2 still refuse: 4/3 >= m * 3/4 iff m <= 16/9). *)
Theorem C15_multiplier_on_sibling_side_refuted :
  saturation_ok 1 1 rm_sz rm_ar rm_Fr rm_ae rm_Fe = false
  /\ saturation_ok 2 1 rm_sz rm_ar rm_Fr rm_ae rm_Fe = false
  /\ saturation_ok_sibling 1 1 rm_sz rm_ar rm_Fr rm_ae rm_Fe = false
  /\ saturation_ok_sibling 2 1 rm_sz rm_ar rm_Fr rm_ae rm_Fe = true
  /\ forallb (fun m => negb (saturation_ok (fst m) (snd m) rm_sz rm_ar rm_Fr rm_ae rm_Fe))
             [(1, 1); (6, 5); (3, 2); (2, 1); (3, 1); (5, 1)] = true
  /\ map (fun m => saturation_ok_sibling (fst m) (snd m) rm_sz rm_ar rm_Fr rm_ae rm_Fe)
         [(1, 1); (6, 5); (3, 2); (2, 1); (3, 1); (5, 1)] = [false; false; false; true; true; true].
Proof. exact readme_numbers. Qed.
Print Assumptions C15_multiplier_on_sibling_side_refuted.
Theorem C15_readme_reclaim_refused_for_every_valid_multiplier :
  forall mn md, 0 < md -> md <= mn -> saturation_ok mn md rm_sz rm_ar rm_Fr rm_ae rm_Fe = false.
Proof. exact readme_refused_for_every_valid_multiplier. Qed.
Print Assumptions C15_readme_reclaim_refused_for_every_valid_multiplier.

(** 6f. ... and the class itself has a lasso under it for a VALID multiplier: the two departments of 2. take a slot
    from each other for ever at m = 5/2 on the sibling's side; the documented gate refuses both evictions at that m and
    the class has no lasso.  Full statement: *)
Definition C15_no_lasso_multiplier_on_sibling_side : Prop := no_lasso_multiplier_on_sibling_side.
Theorem C15_multiplier_on_sibling_side_lasso :
  exists m p s0 s1 j v,
    wf_paramsb p = true /\ wf_multb m = true /\ within_cap p s0
    /\ run_sibling m p s0 [DReclaim j v] = Some s1 /\ run_sibling m p s1 [DReclaim v j] = Some s0
    /\ ~ no_lasso (sibling_system m p)
    /\ run m p s0 [DReclaim j v] = None /\ run m p s1 [DReclaim v j] = None
    /\ no_lasso (class_system m p).
Proof. exact sibling_lasso. Qed.
Print Assumptions C15_multiplier_on_sibling_side_lasso.
Theorem C15_no_lasso_multiplier_on_sibling_side_refuted : ~ C15_no_lasso_multiplier_on_sibling_side.
Proof. exact sibling_side_refuted. Qed.
Print Assumptions C15_no_lasso_multiplier_on_sibling_side_refuted.

(** 6g. The world of seeded/C15-4/README.md in the general model (queue tree of two departments with over-subscribing
    project quotas, jobs of 1 / 2 / 3 GPUs, the reclaim gate of C07 with both strategies and the saturation rule):
    a-new-train's reclaim of b-small-train is refused for the multipliers 1, 6/5, 3/2, 2, 3, 5 and admitted at 1/2 and
    1/3 - what 2 and 3 amount to on the sibling's side; the saturation rule is the only part of the gate in the way. *)
Theorem C15_readme_world_general_model :
  General.gwfb ReadmeWorld.world = true
  /\ map (fun m => General.gapply m ReadmeWorld.world ReadmeWorld.s0 ReadmeWorld.reclaim_b_small)
         [1; 6 # 5; 3 # 2; 2; 3; 5]%Q = [None; None; None; None; None; None]
  /\ General.gapply (1 # 2)%Q ReadmeWorld.world ReadmeWorld.s0 ReadmeWorld.reclaim_b_small = Some [5; 1; 2; 4]%positive
  /\ General.gapply (1 # 3)%Q ReadmeWorld.world ReadmeWorld.s0 ReadmeWorld.reclaim_b_small = Some [5; 1; 2; 4]%positive
  /\ General.gapply (2 # 3)%Q ReadmeWorld.world ReadmeWorld.s0 ReadmeWorld.reclaim_b_small = None.
Proof. exact ReadmeWorld.facts. Qed.
Print Assumptions C15_readme_world_general_model.

(** 3c. The general statement: gangs (atomic jobs of any size), cpu / memory / gpu, queue
    forests of any depth, the full reclaim gate of the proportion plugin (model of C07),
    several victims, non-preemptible reclaimers.  STATED, NOT PROVED.  The rank of the class
    does not carry over as it is: with unequal sizes an eviction can free more than the
    reclaimer takes (the free-capacity component can grow and allocation may then push a
    queue above its share), the deficit component can grow when the victims are larger than
    the reclaimer, and with several resources "above fair share in some resource" is no
    longer a single number. *)
Definition C15_general : Prop :=
  forall (m : Q) (g : General.gparams),
    General.gwfb g = true -> (1 <= m)%Q ->
    no_lasso (General.general_system m g) /\ finitely_many_evictions (General.general_system m g).

(** The general model is not vacuous: on a three-level hierarchy with cpu and gpu contended, a
    pending gang of 2 GPUs reclaims a running gang of 3 GPUs from another department; the
    single-GPU job alone would not make room, and allocation is impossible. *)
Theorem C15_general_nonvacuous :
  General.gwfb GeneralFacts.g_ex = true
  /\ General.gapply 1%Q GeneralFacts.g_ex [1; 2]%positive (General.GReclaim 3 [1]%positive) = Some [3; 2]%positive
  /\ General.gapply 1%Q GeneralFacts.g_ex [1; 2]%positive (General.GReclaim 3 [2]%positive) = None
  /\ General.gapply 1%Q GeneralFacts.g_ex [1; 2]%positive (General.GBind 3%positive) = None.
Proof. exact GeneralFacts.g_ex_facts. Qed.
Print Assumptions C15_general_nonvacuous.
