(** C11 — Binding is all-or-nothing under any API failure or crash point.
    Statements only; proofs are in Proofs/BinderLogic.v, Proofs/Binder.v (runs
    nobody else interferes with) and Proofs/BinderEnv.v (runs with concurrent
    store changes by other actors).

    [run sc faults env dp ord init] is one BindRequestReconciler.Reconcile of the
    model (Model/Binder.v) from the API store [init]: [sc] is the request's spec
    and what the code reads from the pod's immutable parts; [faults : nat -> Ok |
    Fail k | Crash] the fault oracle indexed by API-call number, where [k] is the
    KIND of the error the API server answers with (InternalError, ServerTimeout,
    NotFound, Conflict, AlreadyExists, Forbidden) - the program sees the kind, as
    the Go code does through apierrors.IsNotFound etc.; [env : nat -> list estep]
    what other actors do to the store right before API call number k (the pod is
    bound to another node by a direct binding, deleted and terminating, deleted and
    gone, re-created under the same name with another UID; the BindRequest is
    deleted; the reservation pods of a group are deleted); [dp] the GPU device
    plugin (answers the k-th wait with a device index or stays silent); [ord] Go's
    map iteration order in SyncForNode.  Every theorem quantifies over ALL fault
    vectors (any number of faults of any kinds), all device-plugin and map-order
    oracles and - by induction on the list of GPU groups - all pod shapes: whole
    GPU ([sc_fraction = false]), fraction (one group), multi-fraction (n groups).
    Theorems 1-3 also quantify over ALL environment oracles; theorems 4-8 are
    about runs nobody interferes with ([no_env]).  [wf_shape]: a shared-GPU
    request names at least one group, no group twice, several only for a
    multi-fraction pod.  [init_ok]: the consumer exists, is unbound, Pending and
    not being deleted; its request has not Succeeded.  [read_unbound env]: nobody
    binds the pod before the reconciler has read it (the other case is the "pod
    already bound" no-op, theorem 6 and the refutation 12). *)
From Coq Require Import List Arith Bool.
From KaiV Require Import Model.Binder Model.BinderSpec Proofs.BinderLogic Proofs.Binder Proofs.BinderEnv.
Import ListNotations.

(** 1. All or nothing, under every typed fault vector and every interleaving.
    After the reconcile EITHER this reconcile's binding call went through (exactly
    one, for the request's node): the pod the request was written for - if it is
    still the one in the store ([same_pod]: alive, same UID) - sits on the
    request's node AND carries the side objects that live on the pod itself
    ([pod_side_ok]: the received-type annotation and the GPU-group labels of all
    the request's groups - whatever the other actors did, a re-creation of the pod
    included: Bind conditions the binding call on the UID the attempt started
    with); and when nobody interfered ([env_quiet]) it is bound with
    all its side objects in place (received-type annotation, GPU-group labels, an
    annotated reservation pod per group, both config maps, visible devices = the
    reserved devices, portion).  OR no binding call went through: the request is
    NOT Succeeded, the failure is visible (request Failed or gone, or an error
    returned for requeue, or the binder crashed, or the binder did nothing at all
    because the request's Get was answered NotFound), and - unless an injected
    fault hit Rollback itself - nothing of the attempt is left that a later sync
    cannot remove (no GPU-group label on the pod in the store and no config map
    that was not there before). *)
Theorem C11_all_or_nothing :
  forall (sc : scen) (faults : nat -> fault) (env : nat -> list estep) (dp : nat -> option nat)
         (ord : nat -> list gid) (init : store),
    wf_shape sc = true -> init_ok init -> read_unbound env ->
    let s := fst (run sc faults env dp ord init) in
    let res := snd (run sc faults env dp ord init) in
    (binds (s_log s) = 1
     /\ (same_pod init (s_store s) ->
         p_node (self (s_store s)) = 1 /\ pod_side_ok sc (self (s_store s)) = true)
     /\ (env_quiet env -> bound (s_store s) = true /\ side_ok sc (s_store s) = true))
    \/ (binds (s_log s) = 0 /\ br_succeeded (s_store s) = false
        /\ reported (s_store s) (s_crashed s) (snd res) || nothing_done (s_log s) = true
        /\ (cleanup_unfaulted s = true -> clean init (s_store s) = true)).
Proof. exact all_or_nothing_env. Qed.
Print Assumptions C11_all_or_nothing.

(** 2. Request Succeeded => the pod's spec.nodeName is the request's node (in the
    store), under every typed fault vector and every interleaving: if the request
    is Succeeded after the reconcile and the pod it was written for is still the
    one in the store, that pod sits on the request's node. *)
Theorem C11_succeeded_means_bound_here :
  forall (sc : scen) (faults : nat -> fault) (env : nat -> list estep) (dp : nat -> option nat)
         (ord : nat -> list gid) (init : store),
    wf_shape sc = true -> init_ok init -> read_unbound env ->
    let s := fst (run sc faults env dp ord init) in
    br_succeeded (s_store s) = true -> same_pod init (s_store s) ->
    p_node (self (s_store s)) = 1.
Proof. exact succeeded_means_bound_here. Qed.
Print Assumptions C11_succeeded_means_bound_here.

(** 3. Never twice, never to another node, under every typed fault vector and every
    interleaving: at most one binding call succeeds, no binding call names another node. *)
Theorem C11_never_elsewhere_interleaved :
  forall (sc : scen) (faults : nat -> fault) (env : nat -> list estep) (dp : nat -> option nat)
         (ord : nat -> list gid) (init : store),
    wf_shape sc = true -> init_ok init -> read_unbound env ->
    let s := fst (run sc faults env dp ord init) in
    binds (s_log s) <= 1 /\ existsb is_bind_elsewhere (s_log s) = false.
Proof. exact never_elsewhere_env. Qed.
Print Assumptions C11_never_elsewhere_interleaved.

(** 4. Nobody interfering: all or nothing in the strong form.  The pod is bound to
    the selected node with its side objects in place - or it is unbound, the
    failure is visible, and, unless an injected fault hit Rollback itself, nothing
    is left that a later sync cannot remove. *)
Theorem C11_all_or_nothing_undisturbed :
  forall (sc : scen) (faults : nat -> fault) (dp : nat -> option nat) (ord : nat -> list gid) (init : store),
    wf_shape sc = true -> init_ok init ->
    let s := fst (run sc faults no_env dp ord init) in
    let res := snd (run sc faults no_env dp ord init) in
    (bound (s_store s) = true /\ side_ok sc (s_store s) = true)
    \/ (unbound (s_store s) = true
        /\ reported (s_store s) (s_crashed s) (snd res) || nothing_done (s_log s) = true
        /\ (cleanup_unfaulted s = true -> clean init (s_store s) = true)).
Proof. exact all_or_nothing. Qed.
Print Assumptions C11_all_or_nothing_undisturbed.

(** 5. Nobody interfering: after every API call of the reconcile the pod's
    server-side node is "" or the selected node; at most one binding call
    succeeds; no binding call names another node. *)
Theorem C11_never_elsewhere :
  forall (sc : scen) (faults : nat -> fault) (dp : nat -> option nat) (ord : nat -> list gid) (init : store),
    wf_shape sc = true -> init_ok init ->
    let s := fst (run sc faults no_env dp ord init) in
    Forall (fun n => n = 0 \/ n = 1) (s_hist s) /\ binds (s_log s) <= 1
    /\ existsb is_bind_elsewhere (s_log s) = false.
Proof. exact never_elsewhere. Qed.
Print Assumptions C11_never_elsewhere.

(** 6a. A request that already Succeeded is a no-op: one Get, the store is untouched. *)
Theorem C11_noop_succeeded :
  forall (sc : scen) (faults : nat -> fault) (dp : nat -> option nat) (ord : nat -> list gid) (init : store) (b : brst),
    br init = Some b -> b_phase b = BSucceeded ->
    let s := fst (run sc faults no_env dp ord init) in
    s_store s = init /\ length (s_log s) = 1 /\ binds (s_log s) = 0.
Proof. exact noop_succeeded. Qed.
Print Assumptions C11_noop_succeeded.

(** 6b. A request whose pod is already bound (to any node) binds nothing: no
    binding call succeeds and nothing but the request status and the PodBound
    condition changes (labels, annotations, node, config maps, every other pod stay). *)
Theorem C11_noop_bound :
  forall (sc : scen) (faults : nat -> fault) (dp : nat -> option nat) (ord : nat -> list gid) (init : store),
    self_alive init = true -> p_node (self init) <> 0 ->
    let s := fst (run sc faults no_env dp ord init) in
    bc_frame init (s_store s) /\ binds (s_log s) = 0.
Proof. exact noop_bound. Qed.
Print Assumptions C11_noop_bound.

(** 7. Recovery.  From the store ANY run leaves behind (any typed faults), once the
    environment has caught up (a reservation pod that was created but not
    waited for reports its device: [env_annotate]), a fault-free attempt with an
    answering device plugin ends bound with the side objects in place.
    [attemptable_sc]: the static oracles allow success at all; [SH]: the
    consumer is the only non-reservation pod of the initial store. *)
Theorem C11_recovery :
  forall (sc : scen) (faults : nat -> fault) (dp : nat -> option nat) (ord : nat -> list gid)
         (dp2 : nat -> option nat) (ord2 : nat -> list gid) (f : nat -> nat) (init : store),
    wf_shape sc = true -> attemptable_sc sc -> init_ok init -> node_ok init = true -> SH init ->
    (forall k, dp2 k <> None) ->
    let st1 := s_store (fst (run sc faults no_env dp ord init)) in
    let st2 := s_store (fst (run sc (fun _ => Ok) no_env dp2 ord2 (env_annotate f st1))) in
    bound st2 = true /\ side_ok sc st2 = true.
Proof. exact recovery. Qed.
Print Assumptions C11_recovery.

(** 8. What theorems 1 and 2 exclude: the VARIANT of Bind that takes a 409 Conflict
    of the binding call for "the pod is already bound" ([run_conflict_is_success],
    Model/Binder.v [bind_result_conflict_is_success]; NOT the code) violates
    "Succeeded => bound here".  A whole-GPU request; (a) the pod is bound to another
    node right before the binding call (call 5): the request ends Succeeded, the
    pod - same UID - sits on the other node; (b) the pod is deleted (terminating)
    right before the binding call: Succeeded, pod unbound; (c) nobody interferes,
    the binding call is answered 409 Conflict: Succeeded, pod unbound.  The code
    as it is ends NOT Succeeded on all three inputs. *)
Theorem C11_conflict_is_success_refuted :
  exists (sc : scen) (dp : nat -> option nat) (ord : nat -> list gid) (init : store),
    wf_shape sc = true /\ init_ok init /\
    (exists env, read_unbound env /\
       let s := fst (run_conflict_is_success sc (fun _ => Ok) env dp ord init) in
       br_succeeded (s_store s) = true /\ same_pod init (s_store s) /\ p_node (self (s_store s)) = 2
       /\ br_succeeded (s_store (fst (run sc (fun _ => Ok) env dp ord init))) = false)
    /\ (exists env, read_unbound env /\
       let s := fst (run_conflict_is_success sc (fun _ => Ok) env dp ord init) in
       br_succeeded (s_store s) = true /\ same_pod init (s_store s) /\ p_node (self (s_store s)) = 0
       /\ br_succeeded (s_store (fst (run sc (fun _ => Ok) env dp ord init))) = false)
    /\ (exists faults,
       let s := fst (run_conflict_is_success sc faults no_env dp ord init) in
       br_succeeded (s_store s) = true /\ same_pod init (s_store s) /\ p_node (self (s_store s)) = 0
       /\ br_succeeded (s_store (fst (run sc faults no_env dp ord init))) = false).
Proof.
  exists ex_scw, ex_dp, ex_ord, ex_init.
  destruct ex_interleaved_nonvacuous as (Hwf & Hok & _).
  destruct ex_conflict_is_success_violates as ((A1 & A2 & A3 & A4) & (B1 & B2 & B3 & B4) & (C1 & C2 & C3 & C4) & D1 & D2 & D3).
  split; [exact Hwf |]. split; [exact Hok |]. split; [| split].
  - exists (ex_env_at 5 EvBindElsewhere). split; [apply ex_read_unbound; discriminate |].
    unfold same_pod. auto 10.
  - exists (ex_env_at 5 EvTerminate). split; [apply ex_read_unbound; discriminate |].
    unfold same_pod. auto 10.
  - exists (ex_conflict_at 5). unfold same_pod. auto 10.
Qed.
Print Assumptions C11_conflict_is_success_refuted.

(** 9. The literal reading of the "nothing" case - "unbound => request Failed, or
    crashed" - is refuted by the faithful model: when the status patch is itself
    the call that fails (device plugin silent, so Bind fails on its own; Fail at
    call 12), the pod is unbound, the binder did not crash and the request is
    still Pending.  The reconcile returns the error (requeue); theorems 1 and 4
    are the statement with that way of reporting added ([reported]). *)
Definition C11_reported_literal : Prop :=
  forall (sc : scen) (faults : nat -> fault) (dp : nat -> option nat) (ord : nat -> list gid) (init : store),
    wf_shape sc = true -> init_ok init ->
    let s := fst (run sc faults no_env dp ord init) in
    unbound (s_store s) = true ->
    s_crashed s = true \/ exists b, br (s_store s) = Some b /\ b_phase b = BFailed.
Theorem C11_reported_literal_refuted :
  exists (sc : scen) (faults : nat -> fault) (dp : nat -> option nat) (ord : nat -> list gid) (init : store),
    wf_shape sc = true /\ init_ok init /\
    let s := fst (run sc faults no_env dp ord init) in
    unbound (s_store s) = true /\ s_crashed s = false /\ br (s_store s) = Some (mkBR BPending 0)
    /\ snd (snd (run sc faults no_env dp ord init)) = true.
Proof.
  exists ex_sc1, ex_fail12, ex_silent, ex_ord, ex_init.
  destruct ex_reported_literal_refuted as (A & B & C & D & E).
  destruct ex_nonvacuous as (_ & _ & Hok & _). auto 10.
Qed.
Print Assumptions C11_reported_literal_refuted.

(** 10. The literal reading of the no-op clause for an already-bound pod - "changes
    nothing" - is refuted: the code marks the request Succeeded and writes
    PodBound=True; theorem 6b is the statement that holds. *)
Theorem C11_noop_bound_literal_refuted :
  exists (sc : scen) (dp : nat -> option nat) (ord : nat -> list gid) (init : store),
    self_alive init = true /\ p_node (self init) <> 0 /\
    s_store (fst (run sc (fun _ => Ok) no_env dp ord init)) <> init.
Proof.
  exists ex_sc, ex_dp, ex_ord, ex_bound_init. split; [reflexivity |]. split; [discriminate |].
  apply ex_noop_bound_literal_refuted.
Qed.
Print Assumptions C11_noop_bound_literal_refuted.

(** 11. "Request Succeeded => the pod's node is the request's node" WITHOUT the
    hypothesis [read_unbound] is refuted by the faithful model: the pod is bound to
    another node before the reconciler reads it (before call 1); the reconciler
    takes the "pod already bound" no-op, reports the request Succeeded and writes
    PodBound=True, while the pod (same UID) sits on the other node.  (A finding
    on the code as it is; see the check's known-finding proposal.) *)
Definition C11_succeeded_literal : Prop :=
  forall (sc : scen) (faults : nat -> fault) (env : nat -> list estep) (dp : nat -> option nat)
         (ord : nat -> list gid) (init : store),
    wf_shape sc = true -> init_ok init ->
    let s := fst (run sc faults env dp ord init) in
    br_succeeded (s_store s) = true -> same_pod init (s_store s) -> p_node (self (s_store s)) = 1.
Theorem C11_succeeded_literal_refuted :
  exists (sc : scen) (env : nat -> list estep) (dp : nat -> option nat) (ord : nat -> list gid) (init : store),
    wf_shape sc = true /\ init_ok init /\
    let s := fst (run sc (fun _ => Ok) env dp ord init) in
    br_succeeded (s_store s) = true /\ same_pod init (s_store s) /\ p_node (self (s_store s)) = 2
    /\ p_cond (self (s_store s)) = Some true.
Proof.
  exists ex_scw, (ex_env_at 1 EvBindElsewhere), ex_dp, ex_ord, ex_init.
  destruct ex_interleaved_nonvacuous as (Hwf & Hok & _).
  destruct ex_bound_elsewhere_before_read as (A & B & C & D & _). auto 10.
Qed.
Print Assumptions C11_succeeded_literal_refuted.

(** 12. What theorem 1 excludes since d9da4f6: Bind BEFORE that repair read the
    Binding's UID precondition from the in-memory pod at the END of the attempt
    ([run_uid_at_end], Model/Binder.v parameter [uid_at_end = true]; NOT the code
    any more).  The pod is re-created under the same name while the attempt runs
    (right before the config maps are written, call 9 of a fraction request; the
    GPU-group label went to the old pod); the next patch refreshes the in-memory
    pod, the Binding carries the NEW pod's UID, the new pod is bound to the
    request's node WITHOUT the GPU-group label and the request is Succeeded.  The
    code as it is, on the same input: the binding call is refused, Rollback runs
    unfaulted, nothing is bound, the request is Failed, nothing is left. *)
Theorem C11_side_objects_interleaved_refuted_before_repair :
  exists (sc : scen) (env : nat -> list estep) (dp : nat -> option nat) (ord : nat -> list gid) (init : store),
    wf_shape sc = true /\ init_ok init /\ read_unbound env /\
    (let s := fst (run_uid_at_end sc (fun _ => Ok) env dp ord init) in
     binds (s_log s) = 1 /\ bound (s_store s) = true /\ br_succeeded (s_store s) = true
     /\ p_plain (self (s_store s)) = None /\ side_ok sc (s_store s) = false)
    /\ (let s := fst (run sc (fun _ => Ok) env dp ord init) in
        binds (s_log s) = 0 /\ unbound (s_store s) = true /\ br (s_store s) = Some (mkBR BFailed 0)
        /\ cleanup_unfaulted s = true /\ clean init (s_store s) = true).
Proof.
  exists ex_sc1, (ex_env_at 9 EvRecreate), ex_dp, ex_ord, ex_init.
  destruct ex_interleaved_nonvacuous as (_ & Hok & _).
  destruct ex_recreated_bound_without_labels as ((A & B & C & D & E & F & _) & G).
  split; [exact A |]. split; [exact Hok |]. split; [apply ex_read_unbound; discriminate |]. split; [auto 10 | exact G].
Qed.
Print Assumptions C11_side_objects_interleaved_refuted_before_repair.

(** 13. Non-vacuity, nobody interfering: a multi-fraction request over three groups
    meets every hypothesis; fault free it ends bound (31 API calls); with the
    label patch of the second group failing (call 13) it ends unbound, reported,
    Rollback (entered at call 17) unfaulted and nothing left behind. *)
Theorem C11_nonvacuous :
  wf_shape ex_sc = true /\ attemptable_sc ex_sc /\ init_ok ex_init /\ node_ok ex_init = true /\ SH ex_init
  /\ (let s := fst (run ex_sc (fun _ => Ok) no_env ex_dp ex_ord ex_init) in
      bound (s_store s) = true /\ side_ok ex_sc (s_store s) = true /\ length (s_log s) = 31)
  /\ (let s := fst (run ex_sc ex_fail13 no_env ex_dp ex_ord ex_init) in
      unbound (s_store s) = true /\ reported (s_store s) (s_crashed s) true = true
      /\ cleanup_unfaulted s = true /\ clean ex_init (s_store s) = true
      /\ s_mark s = Some (17, 1)).
Proof. exact ex_nonvacuous. Qed.
Print Assumptions C11_nonvacuous.

(** 14. Non-vacuity of the interleaved statements: a whole-GPU request whose pod
    is bound to another node right before the binding call meets the hypotheses
    of theorems 1-3; the code ends in the "nothing" case: no binding call went
    through (the API server refused it with 409), the request is Failed, the
    error is returned, Rollback ran unfaulted, nothing is left (8 API calls). *)
Theorem C11_interleaved_nonvacuous :
  wf_shape ex_scw = true /\ init_ok ex_init /\ read_unbound (ex_env_at 5 EvBindElsewhere)
  /\ (let s := fst (run ex_scw (fun _ => Ok) (ex_env_at 5 EvBindElsewhere) ex_dp ex_ord ex_init) in
      let res := snd (run ex_scw (fun _ => Ok) (ex_env_at 5 EvBindElsewhere) ex_dp ex_ord ex_init) in
      binds (s_log s) = 0 /\ br (s_store s) = Some (mkBR BFailed 0) /\ snd res = true
      /\ p_node (self (s_store s)) = 2 /\ cleanup_unfaulted s = true /\ clean ex_init (s_store s) = true
      /\ length (s_log s) = 8).
Proof. exact ex_interleaved_nonvacuous. Qed.
Print Assumptions C11_interleaved_nonvacuous.
