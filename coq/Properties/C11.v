(** C11 — Binding is all-or-nothing under any API failure or crash point.
    Statements only; proofs are in Proofs/BinderLogic.v and Proofs/Binder.v.

    [run sc faults dp ord init] is one BindRequestReconciler.Reconcile of the
    model (Model/Binder.v) from the API store [init]: [sc] is the request's spec
    and what the code reads from the pod's immutable parts, [faults : nat ->
    Ok | Fail | Crash] the fault oracle indexed by API-call number, [dp] the GPU
    device plugin (answers the k-th wait with a device index or stays silent),
    [ord] Go's map iteration order in SyncForNode.  Every theorem quantifies over
    ALL fault vectors (any number of faults), all device-plugin and map-order
    oracles, and - by induction on the list of GPU groups - all pod shapes:
    whole GPU ([sc_fraction = false]), fraction (one group), multi-fraction (n
    groups).  [wf_shape]: a shared-GPU request names at least one group, no
    group twice, several only for a multi-fraction pod.  [init_ok]: the consumer
    exists, is unbound and Pending, its request has not Succeeded. *)
From Coq Require Import List Arith Bool.
From KaiV Require Import Model.Binder Model.BinderSpec Proofs.BinderLogic Proofs.Binder.
Import ListNotations.

(** 1. All or nothing.  After the reconcile the pod is bound to the selected
    node with its side objects in place (received-type annotation, GPU-group
    labels, an annotated reservation pod per group, both config maps, visible
    devices = the reserved devices, portion) - or it is unbound, the failure is
    visible (request Failed or gone, or an error returned for requeue, or the
    binder crashed), and, unless an injected fault hit Rollback itself, nothing
    is left that a later sync cannot remove (no GPU-group label and no config
    map that was not there before). *)
Theorem C11_all_or_nothing :
  forall (sc : scen) (faults : nat -> fault) (dp : nat -> option nat) (ord : nat -> list gid) (init : store),
    wf_shape sc = true -> init_ok init ->
    let s := fst (run sc faults dp ord init) in
    let res := snd (run sc faults dp ord init) in
    (bound (s_store s) = true /\ side_ok sc (s_store s) = true)
    \/ (unbound (s_store s) = true /\ reported (s_store s) (s_crashed s) (snd res) = true
        /\ (cleanup_unfaulted s = true -> clean init (s_store s) = true)).
Proof. exact all_or_nothing. Qed.
Print Assumptions C11_all_or_nothing.

(** 2. Never elsewhere, never twice.  After every API call of the reconcile the
    pod's server-side node is "" or the selected node; at most one binding call
    succeeds; no binding call names another node. *)
Theorem C11_never_elsewhere :
  forall (sc : scen) (faults : nat -> fault) (dp : nat -> option nat) (ord : nat -> list gid) (init : store),
    wf_shape sc = true -> init_ok init ->
    let s := fst (run sc faults dp ord init) in
    Forall (fun n => n = 0 \/ n = 1) (s_hist s) /\ binds (s_log s) <= 1
    /\ existsb is_bind_elsewhere (s_log s) = false.
Proof. exact never_elsewhere. Qed.
Print Assumptions C11_never_elsewhere.

(** 3a. A request that already Succeeded is a no-op: one Get, the store is untouched. *)
Theorem C11_noop_succeeded :
  forall (sc : scen) (faults : nat -> fault) (dp : nat -> option nat) (ord : nat -> list gid) (init : store) (b : brst),
    br init = Some b -> b_phase b = BSucceeded ->
    let s := fst (run sc faults dp ord init) in
    s_store s = init /\ length (s_log s) = 1 /\ binds (s_log s) = 0.
Proof. exact noop_succeeded. Qed.
Print Assumptions C11_noop_succeeded.

(** 3b. A request whose pod is already bound (to any node) binds nothing: no
    binding call succeeds and nothing but the request status and the PodBound
    condition changes (labels, annotations, node, config maps, every other pod stay). *)
Theorem C11_noop_bound :
  forall (sc : scen) (faults : nat -> fault) (dp : nat -> option nat) (ord : nat -> list gid) (init : store),
    self_alive init = true -> p_node (self init) <> 0 ->
    let s := fst (run sc faults dp ord init) in
    bc_frame init (s_store s) /\ binds (s_log s) = 0.
Proof. exact noop_bound. Qed.
Print Assumptions C11_noop_bound.

(** 4. Recovery.  From the store ANY run leaves behind (any faults), once the
    environment has caught up (a reservation pod that was created but not
    waited for reports its device: [env_annotate]), a fault-free attempt with an
    answering device plugin ends bound with the side objects in place.
    [attemptable_sc]: the static oracles allow success at all; [SH]: the
    consumer is the only non-reservation pod of the initial store. *)
Theorem C11_recovery :
  forall (sc : scen) (faults : nat -> fault) (dp : nat -> option nat) (ord : nat -> list gid)
         (dp2 : nat -> option nat) (ord2 : nat -> list gid) (f : nat -> nat) (init : store),
    wf_shape sc = true -> attemptable_sc sc -> init_ok init -> node_ok init = true -> SH init ->
    (forall k, dp2 k <> None) ->
    let st1 := s_store (fst (run sc faults dp ord init)) in
    let st2 := s_store (fst (run sc (fun _ => Ok) dp2 ord2 (env_annotate f st1))) in
    bound st2 = true /\ side_ok sc st2 = true.
Proof. exact recovery. Qed.
Print Assumptions C11_recovery.

(** The literal reading of clause 1 - "unbound => request Failed, or crashed" -
    is refuted by the faithful model: when the status patch is itself the call
    that fails (device plugin silent, so Bind fails on its own; Fail at call 12),
    the pod is unbound, the binder did not crash and the request is still
    Pending.  The reconcile returns the error (requeue); [C11_all_or_nothing] is
    the statement with that third way of reporting added ([reported]). *)
Definition C11_reported_literal : Prop :=
  forall (sc : scen) (faults : nat -> fault) (dp : nat -> option nat) (ord : nat -> list gid) (init : store),
    wf_shape sc = true -> init_ok init ->
    let s := fst (run sc faults dp ord init) in
    unbound (s_store s) = true ->
    s_crashed s = true \/ exists b, br (s_store s) = Some b /\ b_phase b = BFailed.
Theorem C11_reported_literal_refuted :
  exists (sc : scen) (faults : nat -> fault) (dp : nat -> option nat) (ord : nat -> list gid) (init : store),
    wf_shape sc = true /\ init_ok init /\
    let s := fst (run sc faults dp ord init) in
    unbound (s_store s) = true /\ s_crashed s = false /\ br (s_store s) = Some (mkBR BPending 0)
    /\ snd (snd (run sc faults dp ord init)) = true.
Proof.
  exists ex_sc1, ex_fail12, ex_silent, ex_ord, ex_init.
  destruct ex_reported_literal_refuted as (A & B & C & D & E).
  destruct ex_nonvacuous as (_ & _ & Hok & _). auto 10.
Qed.
Print Assumptions C11_reported_literal_refuted.

(** The literal reading of clause 3 for an already-bound pod - "changes
    nothing" - is refuted: the code marks the request Succeeded and writes
    PodBound=True; [C11_noop_bound] is the statement that holds. *)
Theorem C11_noop_bound_literal_refuted :
  exists (sc : scen) (dp : nat -> option nat) (ord : nat -> list gid) (init : store),
    self_alive init = true /\ p_node (self init) <> 0 /\
    s_store (fst (run sc (fun _ => Ok) dp ord init)) <> init.
Proof.
  exists ex_sc, ex_dp, ex_ord, ex_bound_init. split; [reflexivity |]. split; [discriminate |].
  apply ex_noop_bound_literal_refuted.
Qed.
Print Assumptions C11_noop_bound_literal_refuted.

(** Non-vacuity: a multi-fraction request over three groups meets every
    hypothesis; fault free it ends bound (31 API calls); with the label patch of
    the second group failing (call 13) it ends unbound, reported, Rollback
    (entered at call 17) unfaulted and nothing left behind. *)
Theorem C11_nonvacuous :
  wf_shape ex_sc = true /\ attemptable_sc ex_sc /\ init_ok ex_init /\ node_ok ex_init = true /\ SH ex_init
  /\ (let s := fst (run ex_sc (fun _ => Ok) ex_dp ex_ord ex_init) in
      bound (s_store s) = true /\ side_ok ex_sc (s_store s) = true /\ length (s_log s) = 31)
  /\ (let s := fst (run ex_sc ex_fail13 ex_dp ex_ord ex_init) in
      unbound (s_store s) = true /\ reported (s_store s) (s_crashed s) true = true
      /\ cleanup_unfaulted s = true /\ clean ex_init (s_store s) = true
      /\ s_mark s = Some (17, 1)).
Proof. exact ex_nonvacuous. Qed.
Print Assumptions C11_nonvacuous.
