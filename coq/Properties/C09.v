(** C09 — Fair-share division obeys its documented contract.
    Statements only; proofs are in Proofs/FairShare.v (all inputs) and
    Proofs/FairShareSweep.v (bounded sweeps).  The model is Model/FairShare.v:
    [set_resource_share T k qs] is resource_division.setResourceShare for one
    resource over exact rationals, [qs] in Go's map iteration order; the
    declarative vocabulary ([cap], [phase1], the [_ok] clauses) is
    Model/FairShareSpec.v.  [fresh qs]: every queue starts with fair share 0, as
    proportion.go builds them.  No other hypothesis: totals, quotas, limits,
    weights, requests, usage and k are arbitrary rationals (also negative), any
    number of queues.

    The hierarchy (last section): [set_fair_share_tree fuel totals k forest] is
    proportion.go's setFairShare / setFairShareForQueues over the three resources,
    [forest] the top queues with their sub-trees; [contract_holds T k given res]
    (Proofs/FairShareTree.v) collects clauses 2-7 and the same-queues statement for
    one sibling set, [levels_hold] says it of every sibling set of the hierarchy
    with the parent's resulting fair share as the amount divided. *)
From Coq Require Import List ZArith QArith Qminmax Permutation.
From KaiV Require Import Model.FairShare Model.FairShareSpec Proofs.FairShare Proofs.FairShareSweep
  Proofs.FairShareTree.
Import ListNotations.
Open Scope Q_scope.

(** 1. Termination: the [for {}] loop of divideUpToFairShare needs at most
    (number of queues of the band + 1) iterations, so the fuel the model gives it
    is never exhausted. *)
Theorem C09_fuel_suffices :
  forall (T k : Q) (qs : list queue), set_resource_share T k qs <> OutOfFuel.
Proof. exact fuel_suffices. Qed.
Print Assumptions C09_fuel_suffices.

Theorem C09_fuel_suffices_band :
  forall (k : Q) (b : list rq) (total : Q),
    0 <= total -> divide_up_to (S (length b)) k b total <> OutOfFuel.
Proof. exact fuel_suffices_band. Qed.
Print Assumptions C09_fuel_suffices_band.

(** The result is the given queue set (in some order), only fair shares change. *)
Theorem C09_same_queues :
  forall (T k : Q) (qs out : list queue) (rem : Q),
    set_resource_share T k qs = Done (out, rem) ->
    Permutation (map static out) (map static qs).
Proof. exact same_queues. Qed.
Print Assumptions C09_same_queues.

(** 2. Lower bound: every queue gets at least min(deserved quota, capped request). *)
Theorem C09_lower_bound :
  forall (T k : Q) (qs out : list queue) (rem : Q),
    fresh qs -> set_resource_share T k qs = Done (out, rem) ->
    forall q, In q out -> phase1 T q <= q_fair q.
Proof. exact lower_bound. Qed.
Print Assumptions C09_lower_bound.

(** 3. Upper bound: the fair share exceeds the capped request by less than one unit. *)
Theorem C09_upper_bound :
  forall (T k : Q) (qs out : list queue) (rem : Q),
    fresh qs -> set_resource_share T k qs = Done (out, rem) ->
    forall q, In q out -> q_fair q < cap q + 1.
Proof. exact upper_bound. Qed.
Print Assumptions C09_upper_bound.

(** 4. Conservation: what is handed out beyond the in-quota parts never exceeds what
    is left after them; the amount reported as remaining is exactly the rest. *)
Theorem C09_conservation :
  forall (T k : Q) (qs out : list queue) (rem : Q),
    fresh qs -> set_resource_share T k qs = Done (out, rem) ->
    sum_fair out + rem == Qmax T (sum_phase1 T qs) /\ 0 <= rem
    /\ sum_fair out - sum_phase1 T qs <= Qmax 0 (T - sum_phase1 T qs).
Proof. exact conservation. Qed.
Print Assumptions C09_conservation.

(** 8. Children divide their parent's fair share.  The unconditional statement
    is false of the code: the in-quota part is handed out whatever the parent got. *)
Definition C09_children_divide_parent : Prop :=
  forall (parent : queue) (k : Q) (children out : list queue) (rem : Q),
    fresh children -> set_children parent k children = Done (out, rem) ->
    sum_fair out <= q_fair parent.

Theorem C09_children_divide_parent_refuted :
  exists (parent : queue) (k : Q) (children out : list queue) (rem : Q),
    fresh children /\ set_children parent k children = Done (out, rem)
    /\ q_fair parent < sum_fair out.
Proof. exact children_divide_parent_refuted. Qed.
Print Assumptions C09_children_divide_parent_refuted.

Theorem C09_children_divide_parent_partial :
  forall (parent : queue) (k : Q) (children out : list queue) (rem : Q),
    fresh children -> set_children parent k children = Done (out, rem) ->
    sum_phase1 (q_fair parent) children <= q_fair parent ->
    sum_fair out <= q_fair parent.
Proof. exact children_divide_parent_partial. Qed.
Print Assumptions C09_children_divide_parent_partial.

(** 9. Order independence: for queue lists that are permutations of each other
    (Go's randomized map iteration), with unique UIDs, the results are the same
    map UID -> fair share (the same queues, identical fair shares - values are
    canonical fractions), and the same amount is left. *)
Theorem C09_order_independent :
  forall (T k : Q) (qs qs' out out' : list queue) (rem rem' : Q),
    Permutation qs qs' -> NoDup (map q_uid qs) ->
    set_resource_share T k qs = Done (out, rem) ->
    set_resource_share T k qs' = Done (out', rem') ->
    Permutation out out' /\ (forall u, fair_of u out = fair_of u out') /\ rem = rem'.
Proof. exact order_independent_full. Qed.
Print Assumptions C09_order_independent.

(** 7. Weight monotonicity: within a priority band, of two queues in the same
    situation (quota, limit, request, usage) the one with the smaller-or-equal
    over-quota weight gets at most one unit more.  For all inputs with k >= 0 and
    non-negative weights. *)
Theorem C09_weight_monotone :
  forall (T k : Q) (qs out : list queue) (rem : Q),
    fresh qs -> 0 <= k -> Forall (fun q => 0 <= q_weight q) qs ->
    set_resource_share T k qs = Done (out, rem) ->
    forall q1 q2, In q1 out -> In q2 out -> same_situation q1 q2 = true ->
                  q_weight q1 <= q_weight q2 -> q_fair q1 <= q_fair q2 + 1.
Proof. exact weight_monotone. Qed.
Print Assumptions C09_weight_monotone.

(** 5. No idle surplus: if anything is left undistributed, every queue that still
    wants more has effective (usage-adjusted) over-quota weight 0 within its
    priority band - [band_eff k (band p out) x] is calcShareWeights' share weight of
    [x] among the unsatisfied queues of its band in the final state (0 when their
    over-quota weights sum to 0).  For all inputs with k >= 0 and non-negative
    weights and usage. *)
Theorem C09_no_idle_surplus :
  forall (T k : Q) (qs out : list queue) (rem : Q),
    fresh qs -> 0 <= k -> Forall (fun q => 0 <= q_weight q /\ 0 <= q_usage q) qs ->
    set_resource_share T k qs = Done (out, rem) -> 0 < rem ->
    forall q, In q out -> satisfied q = false ->
              band_eff k (band (q_prio q) out) (q, None) == 0.
Proof. exact no_idle_surplus. Qed.
Print Assumptions C09_no_idle_surplus.

(** 5/6, the core: how the round loop of one priority band ends.  Either the band is
    idle (no pending remainder, every unsatisfied queue has effective weight 0), or
    nothing is left, or what is passed on to the lower priorities is less than the
    number of pending remainder entries (at most one per queue of the band). *)
Theorem C09_band_exit :
  forall (k : Q), 0 <= k ->
  forall (fuel : nat) (b : list rq) (total : Q) (o : list rq) (t : Q),
    0 <= total -> WF5 b -> Einv k b ->
    divide_up_to fuel k b total = Done (o, t) ->
    WF5 o /\ Einv k o /\ (idle_band k o \/ t == 0 \/ (0 < t /\ t < entries o)).
Proof. exact divide_up_to_exit. Qed.
Print Assumptions C09_band_exit.

(** 6. Priority bands: while a queue of a priority band is unsatisfied with
    positive effective weight (final state), all lower-priority queues together
    receive, beyond their in-quota parts, less than one unit per queue of that band.
    For all inputs with k >= 0 and non-negative weights and usage. *)
Theorem C09_priority :
  forall (T k : Q) (qs out : list queue) (rem : Q),
    fresh qs -> 0 <= k -> Forall (fun q => 0 <= q_weight q /\ 0 <= q_usage q) qs ->
    set_resource_share T k qs = Done (out, rem) ->
    forall q, In q out -> satisfied q = false ->
      0 < band_eff k (band (q_prio q) out) (q, None) ->
      sum_fair (filter (lower (q_prio q)) out) - sum_phase1 T (filter (lower (q_prio q)) qs)
      < nat_Q (length (band (q_prio q) out)).
Proof. exact priority_bands. Qed.
Print Assumptions C09_priority.

(** Cross-check of the executable contract (Model/FairShareSpec.v [contract_ok], the
    monitor run on the real outputs: clauses 2-7) and of order independence against
    the model, on each of the 136134 instances of [sweep_domain] (2 and 3 queues, priorities,
    zero weights, fractional requests, quotas, limits, k = 1 with usage). *)
Theorem C09_contract_on_sweep :
  forall (T k : Q) (qs : list queue),
    In (T, k, qs) sweep_domain -> model_contract T k qs = true.
Proof. exact contract_on_sweep. Qed.
Print Assumptions C09_contract_on_sweep.

(** Non-vacuity: a concrete division (three queues, two priority bands, a
    fractional request) terminates, uses the over-quota phase, and meets [fresh]. *)
Theorem C09_nonvacuous :
  fresh ex_queues
  /\ set_resource_share 10 0 ex_queues = Done (ex_result, 0)
  /\ sum_phase1 10 ex_queues < 10.
Proof. exact ex_division. Qed.
Print Assumptions C09_nonvacuous.

(** Non-vacuity of the hypotheses of clauses 5-7: an unsatisfied queue with positive
    effective weight above a non-empty lower band; surplus left over next to an
    unsatisfied (zero-weight) queue; two queues in the same situation with
    different weights. *)
Theorem C09_nonvacuous_clauses :
  (exists out rem q, set_resource_share 10 0 [ex_hi; ex_lo] = Done (out, rem) /\ In q out
                     /\ satisfied q = false /\ 0 < band_eff 0 (band (q_prio q) out) (q, None)
                     /\ filter (lower (q_prio q)) out <> [])
  /\ (exists out rem q, set_resource_share 10 0 [ex_zero] = Done (out, rem) /\ 0 < rem
                        /\ In q out /\ satisfied q = false)
  /\ (exists out rem q1 q2, set_resource_share 10 0 [ex_lo; ex_zero] = Done (out, rem)
                            /\ In q1 out /\ In q2 out /\ same_situation q1 q2 = true
                            /\ q_weight q1 < q_weight q2).
Proof. exact ex_clause_hypotheses. Qed.
Print Assumptions C09_nonvacuous_clauses.

(** ---- The hierarchy: children divide their parent's fair share, and the
    contract holds for every sibling set at every level ---- *)

(** One level: after a division, the queues of the sibling set - each found again
    under its UID, in the order they were given - satisfy every clause of the
    contract ([contract_holds]: same queues, lower bound, upper bound, conservation,
    weight monotonicity, no idle surplus, priority bands) for the amount [T] that was
    divided. *)
Theorem C09_contract_of_one_division :
  forall (T k : Q) (given out : list queue) (rem : Q),
    fresh given -> NoDup (map q_uid given) ->
    set_resource_share T k given = Done (out, rem) ->
    contract_holds T k given (map (updated out) given).
Proof. exact level_contract. Qed.
Print Assumptions C09_contract_of_one_division.

(** The recursion over the hierarchy terminates within the depth of the forest (the
    model's fuel is never exhausted), with or without the shortcut. *)
Theorem C09_tree_fuel_suffices :
  forall (skip : bool) (fuel : nat) (totals : Q3) (k : Q) (ts : list qtree),
    (forest_depth ts <= fuel)%nat -> fair_share_tree_gen skip fuel totals k ts <> OutOfFuel.
Proof. exact tree_fuel_suffices. Qed.
Print Assumptions C09_tree_fuel_suffices.

(** For every hierarchy (unique sibling UIDs, fair shares starting at 0) and every
    fuel sufficient for its depth, setFairShare returns, and in its result EVERY
    sibling set satisfies the contract, in each of the three resources: the top
    queues for the cluster totals, and the children of every queue for the fair
    share that queue ended up with - whatever that share is (also 0). *)
Theorem C09_contract_at_every_level :
  forall (fuel : nat) (totals : Q3) (k : Q) (ts : list qtree),
    wf_forest ts -> (forest_depth ts <= fuel)%nat ->
    exists out, set_fair_share_tree fuel totals k ts = Done out /\ levels_hold k totals ts out.
Proof. exact contract_at_every_level. Qed.
Print Assumptions C09_contract_at_every_level.

(** Non-vacuity: the frozen department [dep_a] (limit 0) ends with fair share 0 in
    all three resources, and team [team_a] below it (quota 2, request 3) still gets
    min(deserved, request) = 2. *)
Theorem C09_tree_nonvacuous :
  wf_forest ex_forest
  /\ (forest_depth ex_forest <= 2)%nat
  /\ set_fair_share_tree 2 ex_totals 0 ex_forest = Done ex_forest_result
  /\ fair3 (with_gpu_fair dep_a 0) = (0, 0, 0)
  /\ phase1 (q_fair (q3_gpu (with_gpu_fair dep_a 0))) (q3_gpu team_a) == 2
  /\ q_fair (q3_gpu (with_gpu_fair team_a 2)) == 2.
Proof. exact ex_forest_division. Qed.
Print Assumptions C09_tree_nonvacuous.

(** The variant with the "skip idle sub-trees" shortcut
    ([set_fair_share_tree_skip_idle]: no recursion below a queue whose fair share is
    <= 0 in all three resources - NOT the code) violates the lower bound on the same
    hierarchy: the team keeps fair share 0 < 2 = min(deserved, request). *)
Theorem C09_skip_idle_variant_violates_lower_bound :
  wf_forest ex_forest
  /\ set_fair_share_tree_skip_idle 2 ex_totals 0 ex_forest = Done ex_forest_skipped
  /\ (exists parent child rest,
        ex_forest_skipped = QT parent [QT child []] :: rest
        /\ q_fair (q3_gpu child) < phase1 (q_fair (q3_gpu parent)) (q3_gpu child))
  /\ ~ levels_hold 0 ex_totals ex_forest ex_forest_skipped.
Proof. exact skip_idle_breaks_lower_bound. Qed.
Print Assumptions C09_skip_idle_variant_violates_lower_bound.
