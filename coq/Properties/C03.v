(** C03 — Gang integrity: no decision leaves a pod group partially running.
    Statements only; proofs in Proofs/Gang.v.  The count-level model
    (Model/Gang.v) is tied to podgroup_info.GetTasksToAllocate /
    GetTasksToEvict / IsReadyForScheduling / IsGangSatisfied /
    ShouldPipelineJob by the function-level correspondence check of Run/C03.v;
    the decisions of whole real cycles are checked by the monitor c03_ok
    (Run/Cycle.v).  Partial: the commit discipline (all tasks of the allocation
    unit are placed or the statement is rolled back; a partially nominated gang
    is converted to nominations) is validated by the cycle monitor and the
    cycle-level refinement check, not proved. *)
From Coq Require Import List ZArith PArith Bool.
From KaiV Require Import Model.Status Model.Gang Proofs.Gang.
Import ListNotations.
Open Scope Z_scope.

(** What the allocate step takes from a job that is ready for scheduling brings
    every pod set it touches to its minimum member count: for any pod-set order,
    any statuses, real or simulated allocation. *)
Theorem C03_allocation_reaches_min :
  forall (real : bool) (pss : list pset) (id : positive) (c : Z),
    forallb ready pss = true ->
    In (id, c) (tasks_to_allocate real pss) ->
    exists ps, In ps pss /\ ps_id ps = id /\ (0 < c -> ps_min ps <= n_active_alloc ps + c).
Proof. exact allocation_reaches_min. Qed.
Print Assumptions C03_allocation_reaches_min.

(** One victim-selection step on a workload whose pod sets are all at or above
    their minimum takes either one surplus pod of a pod set that stays at or above
    its minimum (elastic shrink), or every active pod of every pod set — provided
    the pod-set order pops a pod set above its minimum first when there is one
    (the contract of the production order, plugin subgrouporder; the harness
    drives the real functions with that comparator). *)
Theorem C03_eviction_all_or_elastic :
  forall pss : list pset,
    evict_order_ok pss ->
    forallb (fun ps => ps_min ps <=? n_active_alloc ps) pss = true ->
    (exists ps rest, pss = ps :: rest /\ tasks_to_evict pss = [(ps_id ps, 1)]
                     /\ ps_min ps <= n_active_alloc ps - 1)
    \/ tasks_to_evict pss = map (fun ps => (ps_id ps, n_active_alloc ps)) pss.
Proof. exact eviction_all_or_elastic. Qed.
Print Assumptions C03_eviction_all_or_elastic.

(** The order contract cannot be dropped: with another pod-set order the code
    empties a pod set that was at its minimum while a sibling keeps its surplus. *)
Theorem C03_eviction_needs_order_contract :
  forallb (fun ps => ps_min ps <=? n_active_alloc ps) [w_b; w_a] = true
  /\ tasks_to_evict [w_b; w_a] = [(2%positive, 1)]
  /\ n_active_alloc w_b - 1 < ps_min w_b
  /\ 0 < n_active_alloc w_a.
Proof. exact eviction_needs_order_contract. Qed.
Print Assumptions C03_eviction_needs_order_contract.

Theorem C03_nonvacuous :
  forallb ready [e_set] = true /\ tasks_to_allocate true [e_set] = [(1%positive, 2)]
  /\ evict_order_ok [w_a; w_b] /\ tasks_to_evict [w_a; w_b] = [(1%positive, 1)].
Proof. exact gang_nonvacuous. Qed.
Print Assumptions C03_nonvacuous.
