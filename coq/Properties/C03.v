(** C03 — Gang integrity: no decision leaves a pod group partially running.
    Statements only; proofs in Proofs/Gang.v.  The count-level model
    (Model/Gang.v) is tied to podgroup_info.GetTasksToAllocate /
    GetTasksToEvict / IsReadyForScheduling / IsGangSatisfied /
    ShouldPipelineJob by the function-level correspondence check of Run/C03.v;
    the decisions of whole real cycles are checked by the monitor c03_ok
    (Run/Cycle.v).  The commit discipline of the allocate action (all tasks of
    the allocation unit are placed or the statement is discarded; a gang of which
    only a part can be bound now is converted to nominations; a committed job is
    attempted again while it has tasks to allocate) is modelled at the level of
    counts in Model/GangAttempt.v on top of Model/Gang.v, with the node each task
    lands on (bound / nominated / nowhere) as an oracle; it is tied to the real
    allocate action by the attempt cases of Run/C03.v (the model's loop, driven
    by the observed calls, must end in the observed statuses).  Still only
    validated, not proved: the same discipline inside the scenario solvers of
    reclaim / preempt / consolidation (monitor c03_ok on whole cycles). *)
From Coq Require Import List ZArith PArith Bool.
From KaiV Require Import Model.Status Model.Gang Model.GangAttempt Proofs.Gang Proofs.GangAttempt.
Import ListNotations.
Open Scope Z_scope.

(** What the allocate step takes from a job that is ready for scheduling brings
    every pod set it touches to its minimum member count: for any pod-set order,
    any statuses, real or simulated allocation. *)
Theorem C03_allocation_reaches_min :
  forall (real : bool) (pss : list pset) (id : positive) (c : Z),
    forallb ready pss = true ->
    In (id, c) (tasks_to_allocate real pss) ->
    exists ps, In ps pss /\ ps_id ps = id /\ (0 < c -> ps_min ps <= n_active_alloc ps + c).
Proof. exact allocation_reaches_min. Qed.
Print Assumptions C03_allocation_reaches_min.

(** One victim-selection step on a workload whose pod sets are all at or above
    their minimum takes either one surplus pod of a pod set that stays at or above
    its minimum (elastic shrink), or every active pod of every pod set — provided
    the pod-set order pops a pod set above its minimum first when there is one
    (the contract of the production order, plugin subgrouporder; the harness
    drives the real functions with that comparator). *)
Theorem C03_eviction_all_or_elastic :
  forall pss : list pset,
    evict_order_ok pss ->
    forallb (fun ps => ps_min ps <=? n_active_alloc ps) pss = true ->
    (exists ps rest, pss = ps :: rest /\ tasks_to_evict pss = [(ps_id ps, 1)]
                     /\ ps_min ps <= n_active_alloc ps - 1)
    \/ tasks_to_evict pss = map (fun ps => (ps_id ps, n_active_alloc ps)) pss.
Proof. exact eviction_all_or_elastic. Qed.
Print Assumptions C03_eviction_all_or_elastic.

(** The order contract cannot be dropped: with another pod-set order the code
    empties a pod set that was at its minimum while a sibling keeps its surplus. *)
Theorem C03_eviction_needs_order_contract :
  forallb (fun ps => ps_min ps <=? n_active_alloc ps) [w_b; w_a] = true
  /\ tasks_to_evict [w_b; w_a] = [(2%positive, 1)]
  /\ n_active_alloc w_b - 1 < ps_min w_b
  /\ 0 < n_active_alloc w_a.
Proof. exact eviction_needs_order_contract. Qed.
Print Assumptions C03_eviction_needs_order_contract.

(** The bind clause, for every placement oracle: a committed attempt on a ready
    workload binds pods of a pod set only if the pod set then has its minimum of
    pods that really hold resources (nominations do not count). *)
Theorem C03_attempt_binds_whole_gangs :
  forall (real : bool) (os : omap) (pss : list pset) (ms : list mset),
    forallb ready pss = true ->
    attempt real os pss = Some ms ->
    Forall (fun m => newly_bound m = 0 \/ ms_min m <= n_holding (forget m)) ms.
Proof. exact attempt_gang_discipline. Qed.
Print Assumptions C03_attempt_binds_whole_gangs.

(** All or nothing: every pod set is left alone or receives exactly the tasks
    GetTasksToAllocate took from it; an attempt with a failing placement is
    discarded ([attempt] = [None]). *)
Theorem C03_attempt_all_or_nothing :
  forall (real : bool) (os : omap) (pss : list pset) (ms : list mset),
    attempt real os pss = Some ms ->
    Forall2 (fun ps m => ms_id m = ps_id ps /\ ms_min m = ps_min ps
                         /\ (n_placed m = 0 \/ n_placed m = taken_of real ps)) pss ms.
Proof. exact attempt_all_or_nothing. Qed.
Print Assumptions C03_attempt_all_or_nothing.

(** "If only part of a gang can be bound now and the rest must wait for
    terminating capacity, the whole gang is nominated and nothing is bound." *)
Theorem C03_partial_gang_is_nominated :
  forall (real : bool) (os : omap) (pss : list pset) (ms0 : list mset) (o : omap),
    attempt_go real (max_sets_to_allocate pss) os pss = Some (ms0, o) ->
    should_pipeline (map forget ms0) = true ->
    attempt real os pss = Some (map convert_set ms0)
    /\ Forall (fun m => newly_bound m = 0 /\ newly_piped m = n_placed m) (map convert_set ms0).
Proof. exact partial_gang_is_nominated. Qed.
Print Assumptions C03_partial_gang_is_nominated.

(** The loop of the action: every attempt committed for a job during the action
    obeys the bind clause, and the job stays ready, for any fuel and oracle. *)
Theorem C03_every_attempt_of_the_action :
  forall (real : bool) (fuel : nat) (os : omap) (pss : list pset)
         (tr : list (list mset)) (fin : list pset) (o : omap),
    forallb ready pss = true ->
    allocate_job fuel real os pss = (tr, fin, o) ->
    Forall (Forall (fun m => newly_bound m = 0 \/ ms_min m <= n_holding (forget m))) tr
    /\ forallb ready fin = true.
Proof. intros real. exact (allocate_job_discipline real). Qed.
Print Assumptions C03_every_attempt_of_the_action.

Theorem C03_attempt_nonvacuous :
  forallb ready [g_set] = true
  /\ (exists ms, attempt true [(1%positive, [OBound; OBound])] [g_set] = Some ms
                 /\ map newly_bound ms = [2] /\ map (fun m => n_holding (forget m)) ms = [3])
  /\ (exists ms, attempt true [(1%positive, [OBound; OPiped])] [g_set] = Some ms
                 /\ map newly_bound ms = [0] /\ map newly_piped ms = [2])
  /\ attempt true [(1%positive, [OBound; OFail])] [g_set] = None.
Proof. exact attempt_nonvacuous. Qed.
Print Assumptions C03_attempt_nonvacuous.

Theorem C03_nonvacuous :
  forallb ready [e_set] = true /\ tasks_to_allocate true [e_set] = [(1%positive, 2)]
  /\ evict_order_ok [w_a; w_b] /\ tasks_to_evict [w_a; w_b] = [(1%positive, 1)].
Proof. exact gang_nonvacuous. Qed.
Print Assumptions C03_nonvacuous.
