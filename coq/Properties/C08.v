(** C08 -- Queue limits and non-preemptible-within-quota hold at every level.
    Statements only; proofs are in Proofs/Capacity.v.

    A state is the queue map with its Allocated / AllocatedNotPreemptible
    counters plus the ledger of tasks currently charged. A step is either
    [AdmitJob j] (job-level gate on the sum of the tasks, then per task the
    node-level gate in the running state followed by the allocate handler; a
    refusal leaves the state unchanged) or [Release t] (deallocate handler).
    [charged np qs led q r] is the ground truth: the sum over the ledger
    entries in the subtree of [q] (non-preemptible ones only when [np]). *)
From Coq Require Import List ZArith QArith.
From KaiV Require Import Model.Capacity Model.CapacitySpec Proofs.Capacity.
Import ListNotations.
Open Scope Q_scope.

(** (1) After any sequence of decisions each queue's Allocated and
    AllocatedNotPreemptible equal the sum over the tasks currently charged in
    its subtree. *)
Theorem C08_queue_counters_exact :
  forall (fuel : nat) (s0 s : state) (xs : list step),
    wf_forest (s_queues s0) = true -> counters_exact s0 ->
    run fuel s0 xs = Done s -> counters_exact s.
Proof. exact queue_counters_exact. Qed.
Print Assumptions C08_queue_counters_exact.

(** (2) and (3) at full strength: along every sequence of decisions, from every
    consistent snapshot of an acyclic queue forest (which may already be above a
    lowered limit), a step that raises the amount charged to a queue leaves it
    at or below the queue's limit (resp. non-preemptible amount at or below the
    deserved quota) in every resource whose cap is not -1 -- for every queue,
    hence for the job's queue and all its ancestors. *)
Definition C08_limit : Prop := C08_statement false.
Definition C08_nonpreemptible_quota : Prop := C08_statement true.

(** The code as it is violates both: a gpu-memory request over two devices is
    invisible to the job-level gate (its ResReq portion is 0, and a requested
    quantity of 0 is skipped), the node-level gate checks the fraction of ONE
    device, and the allocate handler charges devices x fraction.
    Witness: Proofs/Capacity.v [w_state], [w_job]; replayed on the Go code by
    the driver (`c08 -tier witness`) and by the monitor of Run/C08.v. *)
Theorem C08_limit_refuted : ~ C08_limit.
Proof. exact (C08_refuted false). Qed.
Print Assumptions C08_limit_refuted.

Theorem C08_nonpreemptible_quota_refuted : ~ C08_nonpreemptible_quota.
Proof. exact (C08_refuted true). Qed.
Print Assumptions C08_nonpreemptible_quota_refuted.

(** Both hold for every decision whose job is [covered]: the charge of every
    task is bounded by what the job-level gate summed for it, or the charge of
    every task is bounded by what the node-level gate checked for it. Nothing is
    assumed about the earlier decisions of the sequence (beyond non-negative
    requests). *)
Theorem C08_limit_partial :
  forall (fuel : nat) (s0 s s' : state) (pre : list step) (x : step),
    wf_forest (s_queues s0) = true -> counters_exact s0 -> ledger_nonneg s0 = true ->
    accepts_ok wf_job (pre ++ [x]) -> accepts_ok covered [x] ->
    run fuel s0 pre = Done s -> do_step fuel s x = Done s' ->
    raise_within false s s'.
Proof. exact (C08_covered false). Qed.
Print Assumptions C08_limit_partial.

Theorem C08_nonpreemptible_quota_partial :
  forall (fuel : nat) (s0 s s' : state) (pre : list step) (x : step),
    wf_forest (s_queues s0) = true -> counters_exact s0 -> ledger_nonneg s0 = true ->
    accepts_ok wf_job (pre ++ [x]) -> accepts_ok covered [x] ->
    run fuel s0 pre = Done s -> do_step fuel s x = Done s' ->
    raise_within true s s'.
Proof. exact (C08_covered true). Qed.
Print Assumptions C08_nonpreemptible_quota_partial.

(** Which jobs are covered, in terms of the requests themselves: jobs none of
    whose tasks carries a gpu-memory request (whole GPUs, fractions on any
    number of devices, MIG, DRA, CPU-only; non-negative fields), and jobs all
    of whose tasks are gpu-memory requests on a single device. Together with
    the two theorems above: the limit and the non-preemptible quota hold at
    every level for every such decision. *)
Theorem C08_covered_sufficient :
  forall j : job,
    (forall tn, In tn (j_tasks j) -> no_gpu_memory tn) \/
    (forall tn, In tn (j_tasks j) -> single_gpu_memory tn) ->
    covered j = true.
Proof. exact covered_sufficient. Qed.
Print Assumptions C08_covered_sufficient.

(** Parent-chain walks: whenever following parent links terminates at all, it
    terminates within |queues|+1 steps, so [wf_forest] (decidable) is exactly
    "no cycle is reachable". *)
Theorem C08_fuel_suffices :
  forall (f : nat) (qs : list queue) (id : positive) (l : list positive),
    chain f qs id = Done l -> chain (default_fuel qs) qs id = Done l.
Proof. exact fuel_suffices. Qed.
Print Assumptions C08_fuel_suffices.

(** Non-vacuity: the hypotheses are met by a concrete forest and covered job
    that is accepted and raises the leaf and its parent up to the cap; the same
    job is then refused; a release makes room again; the witness job is
    well-formed and not covered; on a cyclic map the forest predicate is false
    and the gate runs out of fuel; a job in an unknown queue makes the handler
    panic. *)
Theorem C08_nonvacuous :
  wf_forest (s_queues w_state) = true /\ counters_exact w_state /\ ledger_nonneg w_state = true /\
  wf_job ok_job = true /\ covered ok_job = true /\ wf_job w_job = true /\ covered w_job = false /\
  do_step 3 w_state (AdmitJob ok_job) = Done ok_after /\
  charged false (s_queues w_state) (s_ledger w_state) 2 GPU < charged false (s_queues ok_after) (s_ledger ok_after) 2 GPU /\
  charged false (s_queues ok_after) (s_ledger ok_after) 2 GPU == 1 # 2 /\
  charged true (s_queues ok_after) (s_ledger ok_after) 1 GPU == 1 # 2 /\
  admit_job 3 (s_queues ok_after) ok_job = Done (Refused (OverLimit 2)) /\
  admit_job 3 (s_queues w_state) big_job = Done (Refused (OverLimit 2)) /\
  run 3 w_state [AdmitJob ok_job; Release 7; AdmitJob ok_job] = Done ok_after /\
  wf_forest cyclic = false /\
  is_job_over_queue_capacity 3 cyclic 1 true [ok_task] = OutOfFuel /\
  alloc_handler 3 (s_queues w_state) 9 true rq_zero = Panic.
Proof. exact nonvacuous. Qed.
Print Assumptions C08_nonvacuous.
