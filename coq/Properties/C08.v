(** C08 -- Queue limits and non-preemptible-within-quota hold at every level.
    Statements only; proofs are in Proofs/Capacity.v.

    A state is the queue map with its Allocated / AllocatedNotPreemptible
    counters plus the ledger of tasks currently charged. A step is either
    [AdmitJob j] (job-level gate on the sum of the tasks, then per task the
    node-level gate in the running state followed by the allocate handler; a
    refusal leaves the state unchanged) or [Release t] (deallocate handler).
    [allocate_job mode] is AllocateJob with its isPipelineOnly argument (false:
    the allocate action; true: the scenario solvers of preempt / reclaim /
    consolidation); [admit_job] is the same function without the argument.
    Events add Statement.Commit on top: [CommitOk], [BindFail t].
    [load_init] is the session-open pass (updateQueuesCurrentResourceUsage)
    that builds the first state of a cycle from the snapshot's pods.
    [charged np qs led q r] is the ground truth: the sum over the ledger
    entries in the subtree of [q] (non-preemptible ones only when [np]). *)
From Coq Require Import List ZArith QArith.
From KaiV Require Import Model.Status Model.Capacity Model.CapacitySpec Proofs.Capacity Proofs.CapacitySnapshot
  Proofs.CapacityModes Proofs.CapacityNodes Model.CapacityTolerance Proofs.CapacityTolerance.
Import ListNotations.
Open Scope Q_scope.

(** (1) After any sequence of decisions each queue's Allocated and
    AllocatedNotPreemptible equal the sum over the tasks currently charged in
    its subtree. *)
Theorem C08_queue_counters_exact :
  forall (fuel : nat) (s0 s : state) (xs : list step),
    wf_forest (s_queues s0) = true -> counters_exact s0 ->
    run fuel s0 xs = Done s -> counters_exact s.
Proof. exact queue_counters_exact. Qed.
Print Assumptions C08_queue_counters_exact.

(** (2) and (3) at full strength: along every sequence of decisions, from every
    consistent snapshot of an acyclic queue forest (which may already be above a
    lowered limit), a step that raises the amount charged to a queue leaves it
    at or below the queue's limit (resp. non-preemptible amount at or below the
    deserved quota) in every resource whose cap is not -1 -- for every queue,
    hence for the job's queue and all its ancestors. *)
Definition C08_limit : Prop := C08_statement false.
Definition C08_nonpreemptible_quota : Prop := C08_statement true.

(** The code as it is violates both: a gpu-memory request over two devices is
    invisible to the job-level gate (its ResReq portion is 0, and a requested
    quantity of 0 is skipped), the node-level gate checks the fraction of ONE
    device, and the allocate handler charges devices x fraction.
    Witness: Proofs/Capacity.v [w_state], [w_job]; replayed on the Go code by
    the driver (`c08 -tier witness`) and by the monitor of Run/C08.v. *)
Theorem C08_limit_refuted : ~ C08_limit.
Proof. exact (C08_refuted false). Qed.
Print Assumptions C08_limit_refuted.

Theorem C08_nonpreemptible_quota_refuted : ~ C08_nonpreemptible_quota.
Proof. exact (C08_refuted true). Qed.
Print Assumptions C08_nonpreemptible_quota_refuted.

(** Both hold for every decision whose job is [covered]: the charge of every
    task is bounded by what the job-level gate summed for it, or the charge of
    every task is bounded by what the node-level gate checked for it. Nothing is
    assumed about the earlier decisions of the sequence (beyond non-negative
    requests). *)
Theorem C08_limit_partial :
  forall (fuel : nat) (s0 s s' : state) (pre : list step) (x : step),
    wf_forest (s_queues s0) = true -> counters_exact s0 -> ledger_nonneg s0 = true ->
    accepts_ok wf_job (pre ++ [x]) -> accepts_ok covered [x] ->
    run fuel s0 pre = Done s -> do_step fuel s x = Done s' ->
    raise_within false s s'.
Proof. exact (C08_covered false). Qed.
Print Assumptions C08_limit_partial.

Theorem C08_nonpreemptible_quota_partial :
  forall (fuel : nat) (s0 s s' : state) (pre : list step) (x : step),
    wf_forest (s_queues s0) = true -> counters_exact s0 -> ledger_nonneg s0 = true ->
    accepts_ok wf_job (pre ++ [x]) -> accepts_ok covered [x] ->
    run fuel s0 pre = Done s -> do_step fuel s x = Done s' ->
    raise_within true s s'.
Proof. exact (C08_covered true). Qed.
Print Assumptions C08_nonpreemptible_quota_partial.

(** Which jobs are covered, in terms of the requests themselves: jobs none of
    whose tasks carries a gpu-memory request (whole GPUs, fractions on any
    number of devices, MIG, DRA, CPU-only; non-negative fields), and jobs all
    of whose tasks are gpu-memory requests on a single device. Together with
    the two theorems above: the limit and the non-preemptible quota hold at
    every level for every such decision. *)
Theorem C08_covered_sufficient :
  forall j : job,
    (forall tn, In tn (j_tasks j) -> no_gpu_memory tn) \/
    (forall tn, In tn (j_tasks j) -> single_gpu_memory tn) ->
    covered j = true.
Proof. exact covered_sufficient. Qed.
Print Assumptions C08_covered_sufficient.

(** Statement.Commit with failing Cache.Bind calls. An [event] is a decision
    ([Decide x], the steps above), a commit whose binds all succeed
    ([CommitOk]: no handler fires) or a commit in which the bind of task [tid]
    fails ([BindFail tid]: cleanupFailedAllocation un-allocates that one task,
    the deallocate handlers fire once, Commit drops the remaining operations).
    On the usage counters a failed bind is exactly the release of that task,
    and an event list is the step list [steps_of es]. *)
Theorem C08_bind_failure_is_release :
  forall (fuel : nat) (s : state) (tid : positive),
    do_event fuel s (BindFail tid) = do_step fuel s (Release tid).
Proof. exact bind_fail_is_release. Qed.
Print Assumptions C08_bind_failure_is_release.

Theorem C08_events_are_steps :
  forall (fuel : nat) (es : list event) (s : state),
    run_events fuel s es = run fuel s (steps_of es).
Proof. exact run_events_steps. Qed.
Print Assumptions C08_events_are_steps.

(** (1) along every interleaving of decisions, successful commits and commits
    with bind failures: the counters stay equal to the sum over the tasks
    currently charged. *)
Theorem C08_commit_counters_exact :
  forall (fuel : nat) (s0 s : state) (es : list event),
    wf_forest (s_queues s0) = true -> counters_exact s0 ->
    run_events fuel s0 es = Done s -> counters_exact s.
Proof. exact events_counters_exact. Qed.
Print Assumptions C08_commit_counters_exact.

(** (2), (3) along every such interleaving: whatever commits failed earlier,
    an event that raises a queue's charged amount (total, resp.
    non-preemptible) leaves it within the limit (resp. deserved quota) at
    every level, when the deciding job is covered. *)
Theorem C08_commit_limit_quota_partial :
  forall (np_only : bool) (fuel : nat) (s0 s s' : state) (pre : list event) (e : event),
    wf_forest (s_queues s0) = true -> counters_exact s0 -> ledger_nonneg s0 = true ->
    accepts_ok wf_job (steps_of (pre ++ [e])) -> accepts_ok covered (steps_of [e]) ->
    run_events fuel s0 pre = Done s -> do_event fuel s e = Done s' ->
    raise_within np_only s s'.
Proof. exact events_covered. Qed.
Print Assumptions C08_commit_limit_quota_partial.

(** What a failed bind does to the bookkeeping after any such history: the
    forest and the exactness of the counters are preserved, charges stay
    non-negative, no queue's charged amount (total or non-preemptible) goes up
    at any level, every other charged task -- bound before the failure or left
    allocated after it -- stays charged, nothing new is charged, and (task ids
    being unique in the ledger) the failing task is no longer charged. *)
Theorem C08_bind_failure_preserves :
  forall (fuel : nat) (s0 s s' : state) (pre : list event) (tid : positive),
    wf_forest (s_queues s0) = true -> counters_exact s0 -> ledger_nonneg s0 = true ->
    accepts_ok wf_job (steps_of pre) ->
    run_events fuel s0 pre = Done s -> do_event fuel s (BindFail tid) = Done s' ->
    wf_forest (s_queues s') = true /\ counters_exact s' /\ ledger_nonneg s' = true /\
    (forall k q, In q (s_queues s) -> forall r,
       charged k (s_queues s') (s_ledger s') (q_id q) r <= charged k (s_queues s) (s_ledger s) (q_id q) r) /\
    (forall x, In x (s_ledger s) -> e_task x <> tid -> In x (s_ledger s')) /\
    (forall x, In x (s_ledger s') -> In x (s_ledger s)) /\
    (NoDup (map e_task (s_ledger s)) -> forall x, In x (s_ledger s') -> e_task x <> tid).
Proof. exact bind_failure_preserves. Qed.
Print Assumptions C08_bind_failure_preserves.

(** Non-vacuity of the commit events: a two-task job fills the leaf to its
    limit 1/2; the bind of its first task fails: only the second task stays
    charged (1/4 at the leaf and at its parent); a half-GPU job is still
    refused, a quarter-GPU job is accepted and committed, ending exactly at
    the limit with exact counters; a bind failure of an uncharged task changes
    nothing. *)
Theorem C08_bind_failure_nonvacuous :
  wf_job two_job = true /\ covered two_job = true /\ wf_job quarter_job = true /\ covered quarter_job = true /\
  run_events 3 w_state [Decide (AdmitJob two_job); BindFail 11] = Done bf_mid /\
  map e_task (s_ledger bf_mid) = [12%positive] /\
  charged false (s_queues bf_mid) (s_ledger bf_mid) 2 GPU == 1 # 4 /\
  charged false (s_queues bf_mid) (s_ledger bf_mid) 1 GPU == 1 # 4 /\
  admit_job 3 (s_queues bf_mid) ok_job = Done (Refused (OverLimit 2)) /\
  run_events 3 bf_mid [Decide (AdmitJob quarter_job); CommitOk] = Done bf_end /\
  map e_task (s_ledger bf_end) = [13%positive; 12%positive] /\
  charged false (s_queues bf_end) (s_ledger bf_end) 2 GPU == 1 # 2 /\
  counters_exact bf_end /\
  do_event 3 bf_end (BindFail 99) = Done bf_end.
Proof. exact bind_fail_nonvacuous. Qed.
Print Assumptions C08_bind_failure_nonvacuous.

(** Parent-chain walks: whenever following parent links terminates at all, it
    terminates within |queues|+1 steps, so [wf_forest] (decidable) is exactly
    "no cycle is reachable". *)
Theorem C08_fuel_suffices :
  forall (f : nat) (qs : list queue) (id : positive) (l : list positive),
    chain f qs id = Done l -> chain (default_fuel qs) qs id = Done l.
Proof. exact fuel_suffices. Qed.
Print Assumptions C08_fuel_suffices.

(** Non-vacuity: the hypotheses are met by a concrete forest and covered job
    that is accepted and raises the leaf and its parent up to the cap; the same
    job is then refused; a release makes room again; the witness job is
    well-formed and not covered; on a cyclic map the forest predicate is false
    and the gate runs out of fuel; a job in an unknown queue charges
    nothing (the handler returns; it was a nil dereference before /repo 0ac7c83). *)
Theorem C08_nonvacuous :
  wf_forest (s_queues w_state) = true /\ counters_exact w_state /\ ledger_nonneg w_state = true /\
  wf_job ok_job = true /\ covered ok_job = true /\ wf_job w_job = true /\ covered w_job = false /\
  do_step 3 w_state (AdmitJob ok_job) = Done ok_after /\
  charged false (s_queues w_state) (s_ledger w_state) 2 GPU < charged false (s_queues ok_after) (s_ledger ok_after) 2 GPU /\
  charged false (s_queues ok_after) (s_ledger ok_after) 2 GPU == 1 # 2 /\
  charged true (s_queues ok_after) (s_ledger ok_after) 1 GPU == 1 # 2 /\
  admit_job 3 (s_queues ok_after) ok_job = Done (Refused (OverLimit 2)) /\
  admit_job 3 (s_queues w_state) big_job = Done (Refused (OverLimit 2)) /\
  run 3 w_state [AdmitJob ok_job; Release 7; AdmitJob ok_job] = Done ok_after /\
  wf_forest cyclic = false /\
  is_job_over_queue_capacity 3 cyclic 1 true [ok_task] = OutOfFuel /\
  alloc_handler 3 (s_queues w_state) 9 true rq_zero = Done (s_queues w_state).
Proof. exact nonvacuous. Qed.
Print Assumptions C08_nonvacuous.

(** Session open. Every scheduling cycle starts from the state that
    updateQueuesCurrentResourceUsage ([load_init]) builds from the snapshot: the
    queue forest with all counters at 0 ([fresh]) and the pods of all jobs, each
    in whatever status the snapshot gave it. For every forest and every list of
    pods in any statuses the seeding is exact: the tasks charged are exactly the
    pods whose status is in the allocated class (Allocated, Binding, Bound,
    Running: [allocated_status], equal to the running code's
    pod_status.AllocatedStatus by Proofs/StatusTables.v), in particular a pod
    whose bind request is still in flight; Allocated and AllocatedNotPreemptible
    of every queue equal the sums over exactly those pods in its subtree
    ([counters_exact] for that ledger); ids, parents, limits and deserved
    quotas are untouched and the forest stays a forest. These are the
    hypotheses of the run theorems above, which therefore apply to every cycle
    whatever happened in earlier ones. *)
Theorem C08_snapshot_seeding_exact :
  forall (fuel : nat) (qs : list queue) (ps : list spod) (s : state),
    wf_forest qs = true -> fresh qs ->
    load_init fuel {| s_queues := qs; s_ledger := [] |} ps = Done s ->
    s_ledger s = allocated_entries ps /\
    counters_exact s /\
    wf_forest (s_queues s) = true /\
    map shape (s_queues s) = map shape qs /\
    ((forall p, In p ps -> allocated_status (sp_status p) = true -> rq_nonneg (sp_accepted p) = true) ->
     ledger_nonneg s = true).
Proof. exact snapshot_seeding_exact. Qed.
Print Assumptions C08_snapshot_seeding_exact.

(** The same from any consistent state (pods loaded on top of tasks already charged). *)
Theorem C08_snapshot_seeding_preserves :
  forall (fuel : nat) (s0 s : state) (ps : list spod),
    wf_forest (s_queues s0) = true -> counters_exact s0 ->
    load_init fuel s0 ps = Done s ->
    s_ledger s = allocated_entries ps ++ s_ledger s0 /\ counters_exact s /\
    wf_forest (s_queues s) = true /\ map shape (s_queues s) = map shape (s_queues s0).
Proof. exact snapshot_seeding_preserves. Qed.
Print Assumptions C08_snapshot_seeding_preserves.

(** The pass terminates (with the fuel the correspondence check uses) on every forest. *)
Theorem C08_snapshot_seeding_total :
  forall (qs : list queue) (ps : list spod),
    wf_forest qs = true -> fresh qs ->
    exists s, load_init (default_fuel qs) {| s_queues := qs; s_ledger := [] |} ps = Done s.
Proof. exact snapshot_seeding_total. Qed.
Print Assumptions C08_snapshot_seeding_total.

(** Non-vacuity of the session-open theorems: the leaf of [w_state] has GPU
    limit 1/2. A snapshot with one non-preemptible half-GPU pod in the leaf in
    status Binding (bind request of the previous cycle in flight) plus one pod
    in each of Pending, Gated, Releasing, Succeeded, Failed, Unknown, Pipelined,
    Deleted: only the Binding pod is charged, the leaf and (non-preemptible)
    its parent stand at 1/2 = the limit, and the next half-GPU job is refused
    with OverLimit at the leaf. The same holds for that pod in every status of
    the allocated class; in every other status nothing is charged and the job
    is admitted. Request of both queues is 1 GPU: the Binding and the Pending pod. *)
Theorem C08_snapshot_nonvacuous :
  wf_forest (s_queues w_state) = true /\ fresh (s_queues w_state) /\
  load_init 3 w_state (sn_pod 20 Binding :: sn_others) = Done sn_binding /\
  map e_task (s_ledger sn_binding) = [20%positive] /\
  charged false (s_queues sn_binding) (s_ledger sn_binding) 2 GPU == 1 # 2 /\
  charged true (s_queues sn_binding) (s_ledger sn_binding) 1 GPU == 1 # 2 /\
  rget (q_alloc w_leaf) GPU + (1 # 2) == rget (q_limit w_leaf) GPU /\
  admit_job 3 (s_queues sn_binding) ok_job = Done (Refused (OverLimit 2)) /\
  load_init 3 w_state sn_others = Done w_state /\
  (forall st, allocated_status st = true ->
     exists s, load_init 3 w_state (sn_pod 20 st :: sn_others) = Done s /\ map e_task (s_ledger s) = [20%positive] /\
               admit_job 3 (s_queues s) ok_job = Done (Refused (OverLimit 2))) /\
  (forall st, allocated_status st = false ->
     load_init 3 w_state (sn_pod 20 st :: sn_others) = Done w_state /\
     do_step 3 w_state (AdmitJob ok_job) = Done ok_after) /\
  load_requests 3 (s_queues w_state) [] (sn_pod 20 Binding :: sn_others)
    = Done [(1%positive, {| r_cpu := 0; r_mem := 0; r_gpu := 1 |}); (2%positive, {| r_cpu := 0; r_mem := 0; r_gpu := 1 |})].
Proof. exact snapshot_nonvacuous. Qed.
Print Assumptions C08_snapshot_nonvacuous.

(** * The two modes of AllocateJob, and the job-level gate

    common.AllocateJob runs the job-level gate (the sum of the job's tasks
    against every queue of the chain) and then the per-task node-level gates in
    BOTH modes: as a real allocation (allocate action) and pipeline-only (the
    scenario solvers of preempt, reclaim and consolidation, which decide on
    evictions). The mode decides how a placed task is recorded, not which
    gates run. *)
Theorem C08_same_gates_in_both_modes :
  forall (pipeline_only : bool) (fuel : nat) (qs : list queue) (j : job),
    allocate_job pipeline_only fuel qs j = admit_job fuel qs j.
Proof. exact allocate_job_mode_independent. Qed.
Print Assumptions C08_same_gates_in_both_modes.

(** a pipeline-only placement is a nomination (Statement.Pipeline ->
    TaskPipelined) whatever the node has idle; a real allocation binds exactly
    the tasks that fit idle resources *)
Theorem C08_pipeline_only_never_binds :
  (forall fits_idle, op_of true fits_idle = OpPipeline) /\
  (forall fits_idle, op_of false fits_idle = OpAllocate <-> fits_idle = true).
Proof. exact pipeline_only_never_binds. Qed.
Print Assumptions C08_pipeline_only_never_binds.

(** (a) Multi-device jobs. For every job none of whose tasks carries a
    gpu-memory request -- N whole GPUs per pod, a fraction on any number of
    devices, MIG, DRA, CPU-only, any mix; non-negative fields -- an
    acceptance by AllocateJob in EITHER mode, in any consistent state (e.g.
    the one a solver's scenario reached by evicting victims), leaves every
    queue whose charged amount it raises within its limit, and with
    [np_only] its non-preemptible amount within its deserved quota: the job's
    queue and every ancestor. *)
Theorem C08_multi_device_job_within_caps :
  forall (np_only pipeline_only : bool) (fuel : nat) (s : state) (j : job) (qs : list queue) (es : list entry),
    wf_forest (s_queues s) = true -> counters_exact s -> ledger_nonneg s = true ->
    wf_job j = true ->
    (forall tn, In tn (j_tasks j) -> no_gpu_memory tn) ->
    allocate_job pipeline_only fuel (s_queues s) j = Done (Accepted qs es) ->
    raise_within np_only s {| s_queues := qs; s_ledger := es ++ s_ledger s |}.
Proof. exact multi_device_job_within_caps. Qed.
Print Assumptions C08_multi_device_job_within_caps.

(** (b) It is the job-level gate that does this: the node-level gate checks
    ONE device per task ([node_task_request] = GetRequiredInitQuota), the
    handler charges all of them. [admit_job_node_gate_only] (AllocateJob
    without the job-level gate) and
    [allocate_job_gate_skipped_when_pipeline_only] (the `if !isPipelineOnly`
    guard around the whole job-level check instead of around the fit-error
    report) are NOT the code; in pipeline-only mode they admit a well-formed
    job of the class of (a) past the limit, from a consistent state. *)
Theorem C08_node_level_gate_alone_insufficient :
  exists (s : state) (j : job) (qs : list queue) (es : list entry),
    wf_forest (s_queues s) = true /\ counters_exact s /\ ledger_nonneg s = true /\ wf_job j = true /\
    (forall tn, In tn (j_tasks j) -> no_gpu_memory tn) /\
    admit_job_node_gate_only 3 (s_queues s) j = Done (Accepted qs es) /\
    allocate_job_gate_skipped_when_pipeline_only true 3 (s_queues s) j = Done (Accepted qs es) /\
    ~ raise_within false s {| s_queues := qs; s_ledger := es ++ s_ledger s |}.
Proof. exact node_gate_alone_insufficient. Qed.
Print Assumptions C08_node_level_gate_alone_insufficient.

(** The witness spelled out (the world of seeded/C08-3): leaf 2 under
    department 1, GPU limit 4 at the leaf; the snapshot holds a non-preemptible
    2-GPU pod and a preemptible 2-GPU pod; a solver scenario evicts the latter:
    the leaf holds 2 GPUs. The pending job is ONE pod asking 4 whole GPUs: the
    job-level gate sums 4, the node-level gate checks 1, the handler charges 4.
    AllocateJob refuses it in both modes (OverLimit at the leaf); the
    node-level gates alone accept it and the leaf ends at 6 > 4. *)
Theorem C08_multi_device_nonvacuous :
  wf_forest (s_queues md_mid) = true /\ counters_exact md_mid /\ ledger_nonneg md_mid = true /\
  wf_job (md_job4 true) = true /\ covered (md_job4 true) = true /\
  (forall tn, In tn (j_tasks (md_job4 true)) -> no_gpu_memory tn) /\
  md_after_eviction (md_queues (-1) 4 4) = Done md_mid /\
  charged false (s_queues md_mid) (s_ledger md_mid) 2 GPU == 2 /\
  (forall po, allocate_job po 3 (s_queues md_mid) (md_job4 true) = Done (Refused (OverLimit 2))) /\
  rget (job_request (map fst (j_tasks (md_job4 true)))) GPU == 4 /\
  rget (node_task_request 100 (md_whole 3 4)) GPU == 1 /\
  rget (charge 100 (md_whole 3 4)) GPU == 4 /\
  admit_job_node_gate_only 3 (s_queues md_mid) (md_job4 true) = Done (Accepted (fst md_bad_out) (snd md_bad_out)) /\
  charged false (s_queues md_bad) (s_ledger md_bad) 2 GPU == 6 /\
  allocate_job_gate_skipped_when_pipeline_only true 3 (s_queues md_mid) (md_job4 true)
    = admit_job_node_gate_only 3 (s_queues md_mid) (md_job4 true) /\
  allocate_job_gate_skipped_when_pipeline_only false 3 (s_queues md_mid) (md_job4 true) = Done (Refused (OverLimit 2)).
Proof. exact node_gate_only_witness. Qed.
Print Assumptions C08_multi_device_nonvacuous.

(** Where the two differ. After the eviction the leaf and the department hold
    2 GPUs (2 of them non-preemptible). [md_verdicts qs j] = (AllocateJob in
    pipeline-only mode accepts, the node-level gates alone accept). With the
    cap c at 2 both refuse the 4-GPU pod (2 + 1 > 2); with c = 3, 4, 5 --
    between "one more device" and "all four" -- AllocateJob refuses and the
    node-level gates alone accept; from c = 6 on both accept. The same with
    the limit on the department, with the deserved quota (non-preemptible
    job), and for a pod asking half a GPU on each of 3 devices (1.5 GPUs: caps
    2.5, 3, 3.25). A gang of four 1-GPU pods is treated alike by both. *)
Theorem C08_multi_device_window :
  map (fun c => md_verdicts (md_queues (-1) c (-1)) (md_job4 true)) [2; 3; 4; 5; 6]
    = [Some (false, false); Some (false, true); Some (false, true); Some (false, true); Some (true, true)] /\
  map (fun c => md_verdicts (md_queues c (-1) (-1)) (md_job4 true)) [2; 3; 4; 5; 6]
    = [Some (false, false); Some (false, true); Some (false, true); Some (false, true); Some (true, true)] /\
  map (fun c => md_verdicts (md_queues (-1) (-1) c) (md_job4 false)) [2; 3; 4; 5; 6]
    = [Some (false, false); Some (false, true); Some (false, true); Some (false, true); Some (true, true)] /\
  map (fun c => md_verdicts (md_queues (-1) c (-1)) md_jobf) [2; 5 # 2; 3; 13 # 4; 7 # 2]
    = [Some (false, false); Some (false, true); Some (false, true); Some (false, true); Some (true, true)] /\
  map (fun c => md_verdicts (md_queues (-1) c (-1)) md_gang) [2; 3; 4; 5; 6]
    = [Some (false, false); Some (false, false); Some (false, false); Some (false, false); Some (true, true)].
Proof. exact multi_device_window. Qed.
Print Assumptions C08_multi_device_window.

(** * Clusters that mix GPU models: the node-level gate is a function of the candidate node

    A gpu-memory request is a different share of a GPU on every GPU model:
    ceil(100 * gpuMemory / MemoryOfEveryGpuOnNode) / 100 ([node_task_request],
    [charge]); the job-level gate counts it as 0 GPUs, so the node-level gate
    is all that keeps such pods within the caps.  [attempt_job] is AllocateJob
    with the node search of common.allocateTask spelled out: per task the
    candidate nodes in the order they are tried (an arbitrary list: the node
    order is an oracle), each with its GPU memory and with an oracle
    [cn_rest] for everything that comes after the capacity gate on that node
    (the other predicates -- node affinity / selector, taints, ... -- and the
    placement itself); the gate is evaluated for EVERY candidate with that
    candidate's GPU memory; the task goes to the first candidate that passes
    both and is charged its share of THAT node. *)

(** An attempt that places every task is an acceptance of AllocateJob (in
    either mode) for the job whose tasks are paired with the nodes chosen:
    each chosen node is one of the task's candidates, the oracle accepted it,
    and -- being the argument of [allocate_job]'s per-task gate -- it passed
    its OWN node-level gate in the state it was charged in.  Same queues,
    same entries. *)
Theorem C08_attempt_is_allocate_job :
  forall (fuel : nat) (qs : list queue) (j : ajob) (qs' : list queue) (es : list entry)
         (wh : list (task * cnode)) (tr : list (list verdict)),
    attempt_job fuel qs j = Done (APlaced qs' es wh tr) ->
    Forall2 chosen_from wh (aj_tasks j) /\
    (forall pipeline_only, allocate_job pipeline_only fuel qs (resolved j wh) = Done (Accepted qs' es)).
Proof. exact attempt_is_allocate_job. Qed.
Print Assumptions C08_attempt_is_allocate_job.

(** One attempt, from any consistent state, for ALL queue forests, candidate
    lists with arbitrary per-node GPU memory and oracles: a job none of whose
    tasks asks for gpu-memory, or all of whose tasks ask for gpu-memory on a
    single device ([acovered]; non-negative requests: [awf_job]), that is
    placed leaves every queue whose charged amount it raises within its limit
    and, with [np_only], its non-preemptible amount within its deserved quota:
    the job's queue and every ancestor. *)
Theorem C08_attempt_within_caps :
  forall (np_only : bool) (fuel : nat) (s : state) (j : ajob) (qs : list queue) (es : list entry)
         (wh : list (task * cnode)) (tr : list (list verdict)),
    wf_forest (s_queues s) = true -> counters_exact s -> ledger_nonneg s = true ->
    awf_job j -> acovered j ->
    attempt_job fuel (s_queues s) j = Done (APlaced qs es wh tr) ->
    raise_within np_only s {| s_queues := qs; s_ledger := es ++ s_ledger s |}.
Proof. exact attempt_within_caps. Qed.
Print Assumptions C08_attempt_within_caps.

(** The same along every sequence of attempts (of arbitrary jobs, placed or
    not) and releases from a consistent snapshot: a step that raises a queue's
    charged amount leaves it within the cap, when the deciding job is covered. *)
Theorem C08_attempts_limit_quota :
  forall (np_only : bool) (fuel : nat) (s0 s s' : state) (pre : list astep) (x : astep),
    wf_forest (s_queues s0) = true -> counters_exact s0 -> ledger_nonneg s0 = true ->
    (forall j, In (AttemptJob j) (pre ++ [x]) -> awf_job j) ->
    (forall j, x = AttemptJob j -> acovered j) ->
    arun fuel s0 pre = Done s -> do_astep fuel s x = Done s' ->
    raise_within np_only s s'.
Proof. exact attempts_limit_quota. Qed.
Print Assumptions C08_attempts_limit_quota.

(** Why the candidate matters: the share of a GPU a gpu-memory request takes
    shrinks as the GPUs grow, so a verdict obtained on a node with bigger GPUs
    says nothing about a node with smaller ones. *)
Theorem C08_gpu_memory_share_antitone :
  forall (nm nm' : positive) (m : Z),
    (0 <= m)%Z -> (nm <= nm')%positive -> frac_on_node nm' m <= frac_on_node nm m.
Proof. exact frac_on_node_antitone. Qed.
Print Assumptions C08_gpu_memory_share_antitone.

(** [attempt_job_first_verdict_reused] ([do_astep_gen true]) is NOT the code:
    the verdict of the first candidate evaluated is reused for the other
    candidates of the attempt (the change of seeded/C08-4).  From a consistent
    state that variant itself reached, a well-formed covered job is placed so
    that its queue ends above its limit and, non-preemptible, above its
    deserved quota; the code ([do_astep]) finds no node for it and changes
    nothing. *)
Theorem C08_first_node_verdict_reused_refuted :
  forall np_only : bool,
  exists (s s' : state) (j : ajob),
    wf_forest (s_queues s) = true /\ counters_exact s /\ ledger_nonneg s = true /\
    awf_job j /\ acovered j /\
    do_astep_gen true 2 s (AttemptJob j) = Done s' /\
    ~ raise_within np_only s s' /\
    do_astep 2 s (AttemptJob j) = Done s.
Proof. exact first_node_verdict_reused_refuted. Qed.
Print Assumptions C08_first_node_verdict_reused_refuted.

(** The witness spelled out: the world of seeded/C08-4's README.  queue0: GPU
    limit 1, deserved 1.  Node big: GPUs of 500 units, node small: GPUs of
    100.  Two one-pod jobs asking gpu-memory 60 (3/25 of a big GPU, 3/5 of a
    small one, 0 for the job-level gate), pinned to small: candidates
    [big; small], the oracle refuses big (node affinity) and accepts small.
    The first job is placed on small by both (3/5).  For the second, big
    passes its gate (3/5 + 3/25 <= 1), small does not (3/5 + 3/5 > 1): the
    code finds no node and the state stays; with the first verdict reused the
    pod goes to small and queue0 holds 6/5 > 1 (preemptible or not; the
    non-preemptible 6/5 is also above the deserved quota, which is what the
    gate reports on small when there is no limit). *)
Theorem C08_mixed_gpu_models_nonvacuous :
  wf_forest (s_queues rd_state) = true /\ counters_exact rd_state /\ ledger_nonneg rd_state = true /\
  rget (node_task_request 500 (rd_task 1)) GPU == 3 # 25 /\ rget (node_task_request 100 (rd_task 1)) GPU == 3 # 5 /\
  rget (charge 100 (rd_task 1)) GPU == 3 # 5 /\ rget (job_task_request (rd_task 1)) GPU == 0 /\
  (forall pre,
     rd_after false pre 1 = Done (rd_one_job pre) /\ rd_after true pre 1 = Done (rd_one_job pre) /\
     charged false (s_queues (rd_one_job pre)) (s_ledger (rd_one_job pre)) 1 GPU == 3 # 5 /\
     is_task_allocation_on_node_over_capacity 2 (s_queues (rd_one_job pre)) 1 pre (rd_task 2) 500 = Done Schedulable /\
     is_task_allocation_on_node_over_capacity 2 (s_queues (rd_one_job pre)) 1 pre (rd_task 2) 100
       = Done (OverLimit 1) /\
     attempt_job 2 (s_queues (rd_one_job pre)) (rd_job pre 2) = Done (ANoNode 2) /\
     rd_after false pre 2 = Done (rd_one_job pre) /\
     rd_after true pre 2 = Done (rd_bad pre) /\
     charged false (s_queues (rd_bad pre)) (s_ledger (rd_bad pre)) 1 GPU == 6 # 5) /\
  charged true (s_queues (rd_bad false)) (s_ledger (rd_bad false)) 1 GPU == 6 # 5 /\
  is_task_allocation_on_node_over_capacity 2
    [{| q_id := 1; q_parent := 9; q_limit := rd_unl; q_deserved := rd_one;
        q_alloc := {| r_cpu := 0; r_mem := 0; r_gpu := 3 # 5 |}; q_np := {| r_cpu := 0; r_mem := 0; r_gpu := 3 # 5 |} |}]
    1 false (rd_task 2) 100 = Done (NonPreemptibleOverQuota 1).
Proof. exact mixed_gpu_models_witness. Qed.
Print Assumptions C08_mixed_gpu_models_nonvacuous.

(** (c) No tolerance (seeded/C08-5). The gates compare exactly: a resource is
    skipped only when the request in it is exactly zero.  So no request is too
    small to count: for every threshold vector eps > 0 -- however small --,
    every forest and every sequence of decisions whose admitted jobs are
    one-pod jobs (no gpu-memory request) that an emptiness test with
    thresholds eps (cpu < eps, memory < eps, gpu <= eps:
    ResourceRequirements.IsEmpty with 10m / 10 MiB / 0.01) would call empty,
    every step leaves every queue and every ancestor within its limit and,
    with [np_only], its non-preemptible allocation within the deserved quota.
    One-pod jobs are what an elastic workload grows by, attempt after
    attempt. *)
Theorem C08_tiny_requests_within_caps :
  forall (eps : rq) (np_only : bool) (fuel : nat) (s0 s s' : state) (pre : list step) (x : step),
    0 < r_cpu eps -> 0 < r_mem eps -> 0 < r_gpu eps ->
    wf_forest (s_queues s0) = true -> counters_exact s0 -> ledger_nonneg s0 = true ->
    accepts_ok wf_job (pre ++ [x]) ->
    (forall j, In (AdmitJob j) (pre ++ [x]) -> below_tolerance eps j) ->
    run fuel s0 pre = Done s -> do_step fuel s x = Done s' ->
    raise_within np_only s s'.
Proof. exact tiny_requests_within_caps. Qed.
Print Assumptions C08_tiny_requests_within_caps.

(** The variant that answers Schedulable at once for a request below the
    code's thresholds ([run_tol code_tolerance]: isJobOverCapacity with the
    IsEmpty shortcut in front, NOT the code) breaks both worlds of the README
    of seeded/C08-5, which lie in the scope of the theorem above: GPU limit
    0.02, six one-pod jobs of 0.01 GPU / 5m / 1 MB: 0.06 (the code's gates:
    two admitted, 0.02); CPU limit 0, five pods of 5m: 25m (the code's gates:
    none admitted). *)
Theorem C08_tolerant_gate_refuted :
  wf_forest (s_queues (st0 gpu_limit)) = true /\ counters_exact (st0 gpu_limit) /\
  wf_forest (s_queues (st0 cpu_limit)) = true /\ counters_exact (st0 cpu_limit) /\
  (forall i, below_tolerance code_tolerance (one_pod (gpu_pod i)) /\ wf_job (one_pod (gpu_pod i)) = true) /\
  (forall i, below_tolerance code_tolerance (one_pod (cpu_pod i)) /\ wf_job (one_pod (cpu_pod i)) = true) /\
  (exists s, run 2 (st0 gpu_limit) (jobs_of gpu_pod 6) = Done s /\ usage s GPU == 2 # 100 /\ length (s_ledger s) = 2%nat) /\
  (exists s, run_tol code_tolerance 2 (st0 gpu_limit) (jobs_of gpu_pod 6) = Done s /\
             usage s GPU == 6 # 100 /\ length (s_ledger s) = 6%nat /\ ~ usage s GPU <= r_gpu gpu_limit) /\
  (exists s, run 2 (st0 cpu_limit) (jobs_of cpu_pod 5) = Done s /\ usage s CPU == 0 /\ s_ledger s = []) /\
  (exists s, run_tol code_tolerance 2 (st0 cpu_limit) (jobs_of cpu_pod 5) = Done s /\
             usage s CPU == 25 /\ length (s_ledger s) = 5%nat /\ ~ usage s CPU <= r_cpu cpu_limit).
Proof. exact tolerant_gate_refuted. Qed.
Print Assumptions C08_tolerant_gate_refuted.

(** ... and its overshoot has no bound: for EVERY n the tolerant gates admit
    all n pods of 0.01 GPU against the GPU limit 0.02, after which the queue
    holds n * 0.01 GPUs, by its own counter and by the sum over the pods
    charged. *)
Theorem C08_tolerant_gate_unbounded :
  forall n : nat, exists s,
    run_tol code_tolerance 2 (st0 gpu_limit) (jobs_of gpu_pod n) = Done s /\
    length (s_ledger s) = n /\
    usage s GPU == inject_Z (Z.of_nat n) * (1 # 100) /\
    (forall q, In q (s_queues s) -> r_gpu (q_alloc q) == inject_Z (Z.of_nat n) * (1 # 100) /\ r_gpu (q_limit q) == 2 # 100) /\
    ((3 <= n)%nat -> ~ usage s GPU <= 2 # 100).
Proof. exact tolerant_gate_unbounded. Qed.
Print Assumptions C08_tolerant_gate_unbounded.
