(** C18 — Pod-grouper is a deterministic, idempotent function of the workload.
    Statements only; proofs are in Proofs/Grouper.v, the model in Model/Grouper.v.

    [cfg] is the grouper configuration together with the cluster-wide inputs it
    reads (existing priority classes, the defaults config map, kinds the
    grouper may not GET), [cl] the owner objects, [a]/[b] the pod-group
    annotation a pod already carries. [grouping cfg cl p a = GOk pl g os used]
    says: plugin [pl] derives the group from object [g] (after skip-top-owner
    unwrapping) and [used] tells whether the pod itself served as an owner
    object on the way.

    The model carries one switch per repair made to the code, the un-suffixed
    definitions ([full_md], [reconcile], [run], [settles], [coherent]) being the
    code as it is:
    - [sg], [eq]: the handler before ([ignore_sg_v0], [pg_equal_v0]) and since
      ([ignore_sg_v1], [pg_equal_v1]) 9775a95;
    - [pf]: assignPodToGroupAndSubGroup before ([patch_fix_v0]) and since
      ([patch_fix_v1]) 3f1c7d2;
    - [af]: CalcPodGroupAnnotations before ([annot_fix_v0]) and since
      ([annot_fix_v1]) 8227120.
    Statements (2) and (4) hold for EVERY version [sg] of ignoreFields, EVERY
    equality test [eq] and both [pf]. The theorems named [_before_repair] keep the
    history of the three findings machine-checked. *)
From Coq Require Import List String ZArith.
From KaiV Require Import Model.Grouper Model.GrouperSpec Proofs.Grouper.
Import ListNotations.

(** (1) Pods with the same top owner and the same template-derived fields (queue, project,
    node-pool, priority-class, preemptibility and user labels, user annotation,
    spec.priorityClassName — name, uid and every other label may differ) get the very same
    metadata — name pg-<owner>-<uid>, min-available 1, queue, priority class, preemptibility,
    (no) sub-groups, labels, annotations, topology — whenever the default grouper derives the
    group from an owner object. *)
Theorem C18_siblings_same_group :
  forall cfg cl p q a b g os,
    same_template cfg p q ->
    grouping cfg cl p a = GOk PDefault g os false ->
    full_md cfg cl q b = full_md cfg cl p a
    /\ exists m, full_md cfg cl p a = Some m
                 /\ m_name m = pg_name (o_name g) (o_uid g) /\ m_min m = 1%Z /\ m_subgroups m = [].
Proof. exact siblings_same_group. Qed.
Print Assumptions C18_siblings_same_group.

(** (1') The per-pod kinds (Deployment, batch Job): one group per pod, named after the pod; every
    other field is the same for all siblings. *)
Theorem C18_per_pod_kinds :
  forall cfg cl p q a b pl g os,
    same_template cfg p q -> pl = PDeployment \/ pl = PJob ->
    grouping cfg cl p a = GOk pl g os false ->
    exists m m', full_md cfg cl p a = Some m /\ full_md cfg cl q b = Some m'
                 /\ m_name m = pg_name (p_name p) (match pl with PDeployment => p_uid p | _ => o_uid g end)
                 /\ m_name m' = pg_name (p_name q) (match pl with PDeployment => p_uid q | _ => o_uid g end)
                 /\ same_but_identity m m'.
Proof. exact per_pod_kinds. Qed.
Print Assumptions C18_per_pod_kinds.

(** (2) Order independence, general form: for a coherent set of pods (distinct names; equal group
    names mean equal metadata), two arbitrary lists of reconcile events that mention the same
    pods — in any order, any number of times each — lead from any start state to the same
    PodGroups and the same pod annotations. Since 8227120 coherence no longer asks that each pod
    settles: every pod does, (3a). *)
Theorem C18_order_independent :
  forall pf sg eq cfg cl ps es1 es2 s,
    coherent cfg cl ps ->
    incl es1 ps -> incl es2 ps -> incl es1 es2 -> incl es2 es1 ->
    st_equiv (run_with annot_fix pf sg eq cfg cl (map EvReconcile es1) s)
             (run_with annot_fix pf sg eq cfg cl (map EvReconcile es2) s).
Proof. exact order_independent_coherent. Qed.
Print Assumptions C18_order_independent.

(** (2') ... instantiated: the siblings of an owner handled by the default grouper are coherent
    (in every version of the code). *)
Theorem C18_order_independent_siblings :
  forall af pf sg eq cfg cl ps p0 a0 g os es1 es2 s,
    NoDup (map p_name ps) ->
    (forall p, In p ps -> same_template cfg p0 p) ->
    grouping cfg cl p0 a0 = GOk PDefault g os false ->
    incl es1 ps -> incl es2 ps -> incl es1 es2 -> incl es2 es1 ->
    st_equiv (run_with af pf sg eq cfg cl (map EvReconcile es1) s) (run_with af pf sg eq cfg cl (map EvReconcile es2) s).
Proof. exact order_independent_siblings. Qed.
Print Assumptions C18_order_independent_siblings.

(** (2'') Without any coherence: reconciling one pod twice leaves exactly the PodGroups and pod
    annotations the first reconcile produced, for every pod, cluster, configuration and state. *)
Theorem C18_reconcile_twice_same_state :
  forall pf sg eq cfg cl p s,
    st_equiv (run_with annot_fix pf sg eq cfg cl (map EvReconcile [p]) s)
             (run_with annot_fix pf sg eq cfg cl (map EvReconcile [p; p]) s).
Proof. exact reconcile_twice_same_state. Qed.
Print Assumptions C18_reconcile_twice_same_state.

(** Before 8227120 this was false (with the handler before and since 9775a95): a pod owned directly
    by a skip-top-owner kind (argo Workflow) is its own grouping object, and its second reconcile copied
    the pod-group annotation written by the first one into the PodGroup. *)
Theorem C18_reconcile_twice_before_repair :
  ~ order_independent_unrestricted annot_fix_v0 patch_fix ignore_sg_v0 pg_equal_v0
  /\ ~ order_independent_unrestricted annot_fix_v0 patch_fix ignore_sg_v1 pg_equal_v1.
Proof. exact order_independent_unrestricted_before_repair. Qed.
Print Assumptions C18_reconcile_twice_before_repair.

(** The general form of (2) for every version of the code, where each pod of the set must be known
    to settle. *)
Theorem C18_order_independent_any_version :
  forall af pf sg eq cfg cl ps es1 es2 s,
    coherent_with af cfg cl ps ->
    incl es1 ps -> incl es2 ps -> incl es1 es2 -> incl es2 es1 ->
    st_equiv (run_with af pf sg eq cfg cl (map EvReconcile es1) s) (run_with af pf sg eq cfg cl (map EvReconcile es2) s).
Proof. exact order_independent_coherent_with. Qed.
Print Assumptions C18_order_independent_any_version.

(** (3a) Every pod settles: the metadata computed for a pod that already carries the pod-group
    annotation of its group is the metadata that produced that annotation, or the pod is skipped from
    then on (owner-less pods). No hypothesis on the owner chain: pods grouped by an owner object, pods
    that are their own grouping object (direct owner of a skip-top-owner kind, direct owner the grouper
    may not GET), pods carrying a pod-group annotation of their own, ownership chains that fail. *)
Theorem C18_all_pods_settle : forall cfg cl p, settles cfg cl p.
Proof. exact all_settle. Qed.
Print Assumptions C18_all_pods_settle.

(** (3) Idempotence of the code as it is: a second reconcile of ANY pod, in ANY state (in particular any
    reachable one), for any cluster and configuration, issues no mutating call. *)
Definition C18_idempotent_statement : Prop := idempotent_statement annot_fix patch_fix ignore_sg pg_equal.

Theorem C18_idempotent :
  forall cfg cl p s, snd (reconcile cfg cl p (fst (reconcile cfg cl p s))) = 0%Z.
Proof. exact idempotent_v1. Qed.
Print Assumptions C18_idempotent.

(** (3') ... with other reconciles in between: in a coherent set, once a pod was reconciled every later
    reconcile of it is silent, whatever reconciles of pods of the set happened before and since. The start
    state is arbitrary, so [s] may be the result of any earlier events, foreign updates included: "no
    foreign update since the pod's last reconcile" is all that is asked. *)
Theorem C18_idempotent_interleaved :
  forall cfg cl ps es p s,
    coherent cfg cl ps -> incl es ps -> In p es ->
    snd (reconcile cfg cl p (run cfg cl (map EvReconcile es) s)) = 0%Z.
Proof. exact idempotent_interleaved. Qed.
Print Assumptions C18_idempotent_interleaved.

(** History 1 (9775a95). The handler before it REFUTED even the weak form of (3) — pods that settle
    and carry no stale sub-group label — in every combination of the later repairs:
    createPodGroupForMetadata builds SubGroups: []SubGroup{} and ignoreFields an empty non-nil label
    map, the API returns nil for both, podGroupsEqual said "different", and every reconcile issued an
    Update (witness: a StatefulSet pod, empty store). *)
Theorem C18_idempotent_v0_refuted : forall af pf, ~ idempotent_partial_statement af pf ignore_sg_v0 pg_equal_v0.
Proof. exact idempotent_v0_refuted. Qed.
Print Assumptions C18_idempotent_v0_refuted.

(** Neither half of that repair suffices alone (owner without labels): sub-group step without the
    map comparison, and the map comparison without the sub-group step, both still write. *)
Theorem C18_half_repairs_insufficient :
  snd (reconcile_with annot_fix patch_fix true pg_equal_v0 ex_cfg [ex_bare_sts] (ex_pod "0")
         (rec_step annot_fix patch_fix true pg_equal_v0 ex_cfg [ex_bare_sts] (ex_pod "0") empty_state)) = 1%Z
  /\ snd (reconcile_with annot_fix patch_fix false pg_equal_v1 ex_cfg [ex_bare_sts] (ex_pod "0")
            (rec_step annot_fix patch_fix false pg_equal_v1 ex_cfg [ex_bare_sts] (ex_pod "0") empty_state)) = 1%Z.
Proof. exact ex_half_repairs_insufficient. Qed.
Print Assumptions C18_half_repairs_insufficient.

(** What held between 9775a95 and the two later repairs, in every combination of them: (3) for pods that
    settle and carry no stale sub-group label; pods grouped by an owner object and owner-less pods settle. *)
Theorem C18_idempotent_partial_any_version :
  forall af pf cfg cl p s,
    settles_with af cfg cl p -> no_stale_subgroup p ->
    snd (reconcile_with af pf ignore_sg pg_equal cfg cl p (rec_step af pf ignore_sg pg_equal cfg cl p s)) = 0%Z.
Proof. exact idempotent_partial. Qed.
Print Assumptions C18_idempotent_partial_any_version.

Theorem C18_settles_any_version :
  forall af cfg cl p,
    (p_owners p = [] \/ exists a pl g os, grouping cfg cl p a = GOk pl g os false) -> settles_with af cfg cl p.
Proof. exact settles_cases. Qed.
Print Assumptions C18_settles_any_version.

(** History 2 (8227120, finding C18-annotation-feedback). With the old CalcPodGroupAnnotations and
    everything else as it is: the Workflow-owned pod [ex_step] does not settle, its second reconcile issues
    an Update that puts pod-group-name into its PodGroup (its third is silent); the same for a pod whose
    direct owner the grouper may not GET; hence (3) was false. *)
Theorem C18_annotation_feedback_before_repair :
  ~ settles_with annot_fix_v0 ex_cfg [ex_wf] ex_step
  /\ snd (reconcile_with annot_fix_v0 patch_fix true pg_equal_v1 ex_cfg [ex_wf] ex_step
            (rec_step annot_fix_v0 patch_fix true pg_equal_v1 ex_cfg [ex_wf] ex_step empty_state)) = 1%Z
  /\ snd (reconcile_with annot_fix_v0 patch_fix true pg_equal_v1 ex_cfg [ex_wf] ex_step
            (rec_step annot_fix_v0 patch_fix true pg_equal_v1 ex_cfg [ex_wf] ex_step
               (rec_step annot_fix_v0 patch_fix true pg_equal_v1 ex_cfg [ex_wf] ex_step empty_state))) = 0%Z
  /\ pg_self_annot "pg-step-0-u-s0"
       (rec_step annot_fix_v0 patch_fix true pg_equal_v1 ex_cfg [ex_wf] ex_step
          (rec_step annot_fix_v0 patch_fix true pg_equal_v1 ex_cfg [ex_wf] ex_step empty_state))
     = Some (Some "pg-step-0-u-s0"%string)
  /\ snd (reconcile_with annot_fix_v0 patch_fix true pg_equal_v1 ex_cfg_forbidden [ex_sts] (ex_pod "0")
            (rec_step annot_fix_v0 patch_fix true pg_equal_v1 ex_cfg_forbidden [ex_sts] (ex_pod "0") empty_state)) = 1%Z
  /\ ~ idempotent_statement annot_fix_v0 patch_fix ignore_sg pg_equal.
Proof. exact annotation_feedback_before_repair. Qed.
Print Assumptions C18_annotation_feedback_before_repair.

(** ... and the same two witnesses on the code as it is: the first reconcile creates the PodGroup and
    patches the pod (2 calls), every later reconcile is silent, the PodGroup never holds pod-group-name. *)
Theorem C18_annotation_feedback_now_quiet :
  snd (reconcile ex_cfg [ex_wf] ex_step empty_state) = 2%Z
  /\ (forall n, snd (reconcile ex_cfg [ex_wf] ex_step (after (S n) ex_cfg [ex_wf] ex_step)) = 0%Z)
  /\ pg_self_annot "pg-step-0-u-s0" (after 2 ex_cfg [ex_wf] ex_step) = Some None
  /\ snd (reconcile ex_cfg_forbidden [ex_sts] (ex_pod "0") empty_state) = 2%Z
  /\ (forall n, snd (reconcile ex_cfg_forbidden [ex_sts] (ex_pod "0") (after (S n) ex_cfg_forbidden [ex_sts] (ex_pod "0"))) = 0%Z)
  /\ pg_self_annot "pg-web-0-u-p0" (after 2 ex_cfg_forbidden [ex_sts] (ex_pod "0")) = Some None.
Proof. exact annotation_feedback_now_quiet. Qed.
Print Assumptions C18_annotation_feedback_now_quiet.

(** History 3 (3f1c7d2, finding C18-stale-subgroup-repatch). With the old patch condition and everything
    else as it is: the StatefulSet pod [ex_stale], which settles but carries the label
    kai.scheduler/subgroup-name=gone, is patched on its second and on its third reconcile; hence (3) was false. *)
Theorem C18_stale_subgroup_before_repair :
  settles ex_cfg [ex_sts] ex_stale /\ ~ no_stale_subgroup ex_stale
  /\ snd (reconcile_with annot_fix patch_fix_v0 true pg_equal_v1 ex_cfg [ex_sts] ex_stale
            (rec_step annot_fix patch_fix_v0 true pg_equal_v1 ex_cfg [ex_sts] ex_stale empty_state)) = 1%Z
  /\ snd (reconcile_with annot_fix patch_fix_v0 true pg_equal_v1 ex_cfg [ex_sts] ex_stale
            (rec_step annot_fix patch_fix_v0 true pg_equal_v1 ex_cfg [ex_sts] ex_stale
               (rec_step annot_fix patch_fix_v0 true pg_equal_v1 ex_cfg [ex_sts] ex_stale empty_state))) = 1%Z
  /\ ~ idempotent_statement annot_fix patch_fix_v0 ignore_sg pg_equal.
Proof. exact stale_subgroup_before_repair. Qed.
Print Assumptions C18_stale_subgroup_before_repair.

(** ... and on the code as it is: 2 calls on the first reconcile, none on any later one; the label stays. *)
Theorem C18_stale_subgroup_now_quiet :
  ~ no_stale_subgroup ex_stale
  /\ snd (reconcile ex_cfg [ex_sts] ex_stale empty_state) = 2%Z
  /\ (forall n, snd (reconcile ex_cfg [ex_sts] ex_stale (after (S n) ex_cfg [ex_sts] ex_stale)) = 0%Z)
  /\ lookup subgroup_label_key (p_labels ex_stale) = Some "gone"%string.
Proof. exact stale_subgroup_now_quiet. Qed.
Print Assumptions C18_stale_subgroup_now_quiet.

(** (4) Fields owned by other actors: for any sequence of reconciles (of any pods) and foreign
    updates, the queue, mark-unschedulable, scheduling-backoff and node-pool label of an existing
    PodGroup are exactly what the foreign updates alone make of them. *)
Theorem C18_foreign_fields_kept :
  forall af pf sg eq cfg cl evs s n g,
    c_queue_key cfg <> c_nodepool_key cfg ->
    get_pg n s = Some g ->
    exists g', get_pg n (run_with af pf sg eq cfg cl evs s) = Some g'
               /\ foreign_view cfg g' = foreign_only n evs (foreign_view cfg g).
Proof. exact foreign_fields_kept. Qed.
Print Assumptions C18_foreign_fields_kept.

(** (4') A queue label that is present survives a reconcile; PodGroups of other names are not touched. *)
Theorem C18_queue_label_kept :
  forall af pf sg eq cfg cl p s n g v,
    get_pg n s = Some g -> mget (c_queue_key cfg) (pg_labels g) = Some v ->
    exists g', get_pg n (rec_step af pf sg eq cfg cl p s) = Some g' /\ mget (c_queue_key cfg) (pg_labels g') = Some v.
Proof. exact queue_label_kept. Qed.
Print Assumptions C18_queue_label_kept.

Theorem C18_other_groups_untouched :
  forall af pf sg eq cfg cl p s n,
    (forall m, full_md_with af cfg cl p (get_asg (p_name p) s) = Some m -> m_name m <> n) ->
    get_pg n (rec_step af pf sg eq cfg cl p s) = get_pg n s.
Proof. exact other_groups_untouched. Qed.
Print Assumptions C18_other_groups_untouched.

(** Non-vacuity: two StatefulSet pods meet the hypotheses of (1), (2), (3') and (4), in every version;
    reconciled in the order 1, 0 they end in one PodGroup pg-web-u-sts with the owner's queue. *)
Theorem C18_nonvacuous :
  same_template ex_cfg (ex_pod "0") (ex_pod "1")
  /\ NoDup (map p_name [ex_pod "0"; ex_pod "1"])
  /\ coherent ex_cfg [ex_sts] [ex_pod "0"; ex_pod "1"]
  /\ (forall af, coherent_with af ex_cfg [ex_sts] [ex_pod "0"; ex_pod "1"])
  /\ no_stale_subgroup (ex_pod "0")
  /\ c_queue_key ex_cfg <> c_nodepool_key ex_cfg
  /\ let s := run ex_cfg [ex_sts] [EvReconcile (ex_pod "1"); EvReconcile (ex_pod "0")] empty_state in
     get_asg "web-0" s = Some "pg-web-u-sts"%string /\ get_asg "web-1" s = Some "pg-web-u-sts"%string
     /\ exists g, get_pg "pg-web-u-sts" s = Some g /\ sp_queue g = "team-a"%string /\ sp_min g = 1%Z
                  /\ List.length (st_pgs s) = 1%nat.
Proof. exact ex_nonvacuous. Qed.
Print Assumptions C18_nonvacuous.
